------------------------- MODULE TracePipelineCall --------------------------
(* Trace validation for PipelineCall.  One ndjson line = one history on one pipeline:            *)
(*   {desc, ev: [{e, out, kw, mode, f, kwargs, val, pairs, cls}]}   (all fields always present)    *)
(* e in begin | call | return | returnfull | raise                                                 *)
EXTENDS PipelineCall, Json, IOUtils, TLCExt
Traces == ndJsonDeserialize(IOEnv.TRACE_FILE)
NT == Len(Traces)
ASSUME \A i \in 1..NT : TLCSet(i, 0)

VARIABLES tid, l,
          pend     \* function whose post_execution_hook has to fire next (0 = none)
T  == Traces[tid]
Ev == T.ev[l]
IsEvent(e) == l <= Len(T.ev) /\ Ev.e = e /\ l' = l + 1 /\ UNCHANGED tid
Quiet == pend = 0 /\ UNCHANGED pend

Init == tid \in 1..NT /\ l = 1 /\ CallInit(T.desc) /\ pend = 0

FIdxByName(n) == CHOOSE i \in FIdx(d) : d.funcs[i].name = n

(* post_execution_hook (optional field `hook` of a function): after every execution of the function, before anything else  *)
(* happens, the hook is called once with the function's OWN result (a tuple for several outputs, whatever the caller       *)
(* supplied for sibling outputs) and the keyword arguments of that execution                                               *)
HasHook(i)  == "hook" \in DOMAIN d.funcs[i] /\ d.funcs[i].hook
OwnVal(i, o) == IF ReturnsNone(d, i) THEN NoneT
                ELSE LET ps == d.funcs[i].params IN Term(o, [k \in 1..Len(ps) |-> ArgVal(d, kw, i, ps[k])])
OwnResult(i) == LET os == d.funcs[i].outputs IN
                IF Len(os) = 1 THEN OwnVal(i, os[1]) ELSE Term("#arr", [k \in 1..Len(os) |-> OwnVal(i, os[k])])

TBegin      == IsEvent("begin") /\ Begin(Ev.out, Ev.kw, Ev.mode) /\ Quiet
TCall       == IsEvent("call") /\ (\E i \in FIdx(d) : d.funcs[i].name = Ev.f) /\ Call(FIdxByName(Ev.f), Ev.kwargs)
               /\ pend = 0 /\ pend' = IF HasHook(FIdxByName(Ev.f)) THEN FIdxByName(Ev.f) ELSE 0
THook       == IsEvent("hook") /\ pend # 0 /\ d.funcs[pend].name = Ev.f
               /\ Ev.kwargs = ArgsOf(d, kw, pend) /\ Ev.val = OwnResult(pend)
               /\ pend' = 0 /\ UNCHANGED cvars
TReturn     == IsEvent("return") /\ Return(Ev.val) /\ Quiet
TReturnFull == IsEvent("returnfull") /\ ReturnFull(SeqToSet(Ev.pairs)) /\ Quiet
TRaise      == IsEvent("raise") /\ Quiet /\
               \/ (Ev.cls = "UnusedParametersError" /\ RaiseUnused)
               \/ (Ev.cls = "ValueError" /\ (RaiseMissing \/ RaiseOutputSupplied))

(* a combination listed by arg_combinations(out) must be a valid cut: the evaluation is defined and every name is consulted *)
TCombo      == IsEvent("combo") /\ phase = "idle" /\ ~PHas(Ev.kw, Ev.out) /\ Quiet
               /\ Defined(d, Ev.kw, Ev.out) /\ Surplus(d, Ev.kw, Ev.out) = {} /\ UNCHANGED cvars

Next == TCombo \/ TBegin \/ TCall \/ THook \/ TReturn \/ TReturnFull \/ TRaise
Spec == Init /\ [][Next]_<<cvars, tid, l, pend>>

Track == IF l > TLCGet(tid) THEN TLCSet(tid, l) ELSE TRUE
InvDoneOnlyNeeded == DoneOnlyNeeded
Accepted == \A i \in 1..NT : (TLCGet(i) = Len(Traces[i].ev) + 1) \/ PrintT(<<"REJECT", i, TLCGet(i)>>)
=============================================================================
