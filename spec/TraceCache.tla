----------------------------- MODULE TraceCache -----------------------------
(* Trace validation for Cache: each line of the ndjson file is one recorded history of a real     *)
(* pipefunc cache object: {kind,max,lsize,aw,dw,keys, ev:[{op,k,v,d,max,lsize,res,present,len,    *)
(* vals,cnts,durs}]}.  An event is explained iff some allowed outcome of the operation has the    *)
(* logged result AND the logged post-state observations.                                          *)
EXTENDS Cache, Json, IOUtils, TLCExt
Traces == ndJsonDeserialize(IOEnv.TRACE_FILE)
NT == Len(Traces)
ASSUME \A i \in 1..NT : TLCSet(i, 0)

VARIABLES tid, l, c
T  == Traces[tid]
Ev == T.ev[l]
ToSet(s) == {s[i] : i \in DOMAIN s}
Pairs(f) == {<<k, f[k]>> : k \in DOMAIN f}

ObsOK(c2, e, keys) ==
    /\ PresentSet(c2, keys) = ToSet(e.present)
    /\ Size(c2) = e.len
    /\ Pairs(ObsVal(c2)) = ToSet(e.vals)
    /\ Pairs(ObsCnt(c2)) = ToSet(e.cnts)
    /\ Pairs(ObsDur(c2)) = ToSet(e.durs)

Init == /\ tid \in 1..NT /\ l = 1
        /\ c = New(T.kind, T.max, T.lsize, T.aw, T.dw)

Step == /\ l <= Len(T.ev)
        /\ \E out \in Outcomes(c, Ev) :
              /\ out[2] = Ev.res
              /\ ObsOK(out[1], Ev, ToSet(T.keys))
              /\ c' = out[1]
        /\ l' = l + 1 /\ UNCHANGED tid

Spec == Init /\ [][Step]_<<tid, l, c>>

Track == IF l > TLCGet(tid) THEN TLCSet(tid, l) ELSE TRUE
InvWellFormed == WellFormed(c)
InvLenBounded == LenBounded(c)
Accepted == \A i \in 1..NT : (TLCGet(i) = Len(Traces[i].ev) + 1) \/ PrintT(<<"REJECT", i, TLCGet(i)>>)
=============================================================================
