------------------------------- MODULE Sweep -------------------------------
(***************************************************************************)
(* Parameter sweeps of pipefunc (pipefunc/sweep.py): Sweep, MultiSweep,    *)
(* generate_sweep, Sweep.product, +, filtered_sweep, count_sweep.          *)
(*                                                                         *)
(* A pure algebra: there is no state, hence no VARIABLES in this module.   *)
(* Every public operation is an operator returning the *sequence* of       *)
(* combinations the documentation promises; the laws of property C17 are   *)
(* named operators (Law...) which the model-checking instance MC_Sweep     *)
(* turns into invariants over a universe of sweeps written in TLA+.        *)
(* Sums (+, combine, MultiSweep) are moreover described as expressions of  *)
(* any nesting (EvalSum) and as objects that live on while further sums    *)
(* are formed from them (StoreInit / StepStore: the step of the history    *)
(* state machine MC_Sweep!NextHist): being values, they never change.      *)
(* The same holds when products and add_derivers are among the steps       *)
(* (PStoreInit / PStep, MC_Sweep!NextPHist): a.product(b) and              *)
(* a.add_derivers(..) yield new sweeps and leave a and b as they were.     *)
(*                                                                         *)
(* Encoding                                                                *)
(*   key          a string ("a", "b", ..)                                  *)
(*   value        a small integer (one TLA+ type for every value)          *)
(*   combination  a function key -> value (Python: dict)                   *)
(*   items        Seq([k : key, v : Seq(value)])   (dict, insertion order) *)
(*   dims         NoDims (Python None) or Seq(Seq(key)): the zipped groups *)
(*   constants    Seq([k : key, v : value])                                *)
(*   derivers     Seq([k : key, f : "copy"|"pair", a : Seq(key)])          *)
(*   exclude      Seq([k : key, v : value])  (<<>> = Python None)          *)
(* User callables cannot cross the boundary, so derivers and excludes are  *)
(* drawn from a small named family interpreted here (Derive, Excluded) and *)
(* by the harness (pfverif/props/c17.py: _deriver, _exclude).              *)
(***************************************************************************)
EXTENDS Naturals, Integers, Sequences, FiniteSets, TLC

Range(s)   == {s[i] : i \in DOMAIN s}
NoDup(s)   == \A i, j \in DOMAIN s : i # j => s[i] # s[j]
EmptyCombo == [k \in {} |-> 0]
NoDims     == << <<"#none">> >>       \* stands for dims=None; "#none" is never a key

RECURSIVE FlatSeq(_)                  \* concatenation of a sequence of sequences
FlatSeq(ss) == IF ss = <<>> THEN <<>> ELSE Head(ss) \o FlatSeq(Tail(ss))
RECURSIVE ProdNat(_)                  \* product of a sequence of naturals
ProdNat(ns) == IF ns = <<>> THEN 1 ELSE Head(ns) * ProdNat(Tail(ns))
RECURSIVE SumNat(_)
SumNat(ns) == IF ns = <<>> THEN 0 ELSE Head(ns) + SumNat(Tail(ns))
(* number of positions of sequence s holding x *)
Occ(s, x) == Cardinality({i \in DOMAIN s : s[i] = x})
(* s and t hold the same elements the same number of times *)
SameBag(s, t) == Len(s) = Len(t) /\ \A x \in Range(s) \cup Range(t) : Occ(s, x) = Occ(t, x)

---------------------------------------------------------------------------
(* items and dims *)
KeySeq(items)      == [i \in DOMAIN items |-> items[i].k]
KeySet(items)      == {items[i].k : i \in DOMAIN items}
KeyPos(items, k)   == CHOOSE i \in DOMAIN items : items[i].k = k
ValuesOf(items, k) == items[KeyPos(items, k)].v

(* dims omitted = every key its own group, in item order *)
Groups(items, dims) == IF dims = NoDims THEN [i \in DOMAIN items |-> <<items[i].k>>] ELSE dims

(* the sweeps this module speaks about: distinct keys, dims a partition of the keys *)
WellFormed(items, dims) ==
    /\ NoDup(KeySeq(items))
    /\ LET G == Groups(items, dims) IN
        /\ \A g \in DOMAIN G : G[g] # <<>> /\ NoDup(G[g]) /\ Range(G[g]) \subseteq KeySet(items)
        /\ \A k \in KeySet(items) : Cardinality({g \in DOMAIN G : k \in Range(G[g])}) = 1

GroupLen(items, g) == Len(ValuesOf(items, g[1]))
ZipOk(items, g)    == \A i \in DOMAIN g : Len(ValuesOf(items, g[i])) = GroupLen(items, g)
(* zipping lists of different lengths is refused when the sweep is enumerated          *)
(* (tests/test_sweep.py::test_exception_dims_length); "" = no error                    *)
Error(items, dims) == IF \A g \in Range(Groups(items, dims)) : ZipOk(items, g) THEN "" ELSE "ValueError"

(* a zipped group as a list of partial combinations *)
Zipped(items, g) == [n \in 1..GroupLen(items, g) |-> [k \in Range(g) |-> ValuesOf(items, k)[n]]]

(* Cartesian product of lists of combinations with disjoint keys, row-major: the first list varies slowest *)
Cart2(A, B) == [n \in 1..(Len(A) * Len(B)) |-> A[((n - 1) \div Len(B)) + 1] @@ B[((n - 1) % Len(B)) + 1]]
RECURSIVE Cart(_)
Cart(parts) == IF parts = <<>> THEN <<EmptyCombo>> ELSE Cart2(Head(parts), Cart(Tail(parts)))

(* the combinations before constants / derivers / exclude.                                 *)
(* A sweep without any item has no combination: tests pin Sweep({}).list() == [] although  *)
(* the empty Cartesian product has one (empty) element.                                    *)
Raw(items, dims) ==
    IF items = <<>> THEN <<>>
    ELSE LET G == Groups(items, dims) IN Cart([g \in DOMAIN G |-> Zipped(items, G[g])])

---------------------------------------------------------------------------
(* constants, derivers, exclude: applied to every combination in this order *)

(* constants never override a key the combination already has (tests/test_sweep.py::test_constants, sweep4) *)
RECURSIVE AddConstants(_, _)
AddConstants(c, constants) ==
    IF constants = <<>> THEN c
    ELSE AddConstants(c @@ (Head(constants).k :> Head(constants).v), Tail(constants))

(* the deriver family: copy(k) = c[k] ; pair(k1, k2) = 10*c[k1] + c[k2] *)
Derive(d, c) == CASE d.f = "copy" -> c[d.a[1]]
                  [] d.f = "pair" -> 10 * c[d.a[1]] + c[d.a[2]]
(* derivers run left to right, each sees the results of the earlier ones, may overwrite a key *)
RECURSIVE ApplyDerivers(_, _)
ApplyDerivers(c, derivers) ==
    IF derivers = <<>> THEN c
    ELSE LET d == Head(derivers) IN ApplyDerivers((d.k :> Derive(d, c)) @@ c, Tail(derivers))

(* the exclude family: a combination is dropped when for some listed [k, v] it has c[k] = v *)
Excluded(c, exclude) == \E i \in DOMAIN exclude : c[exclude[i].k] = exclude[i].v

Finish(c, constants, derivers) == ApplyDerivers(AddConstants(c, constants), derivers)

(* Sweep(items, dims, exclude, constants, derivers).list()  ==  list(iter(sweep))  ==  generate_sweep(...) *)
Combos(items, dims, constants, derivers, exclude) ==
    LET raw == Raw(items, dims)
        fin == [i \in DOMAIN raw |-> Finish(raw[i], constants, derivers)]
    IN  SelectSeq(fin, LAMBDA c : ~Excluded(c, exclude))

(* len(sweep), stated the way one computes it without enumerating: product of the group lengths; *)
(* only an exclude forces counting.                                                              *)
LenOp(items, dims, constants, derivers, exclude) ==
    IF items = <<>> THEN 0
    ELSE IF exclude = <<>>
         THEN LET G == Groups(items, dims) IN ProdNat([g \in DOMAIN G |-> GroupLen(items, G[g])])
         ELSE Len(Combos(items, dims, constants, derivers, exclude))

(* The order of the list is part of the property only when dims is omitted or lists its groups in item order *)
(* (a group stands where its first key stands).                                                              *)
GroupPos(items, g) == LET P == {KeyPos(items, k) : k \in Range(g)} IN CHOOSE p \in P : \A q \in P : p <= q
OrderFixed(items, dims) ==
    dims = NoDims \/ \A i, j \in DOMAIN dims : i < j => GroupPos(items, dims[i]) < GroupPos(items, dims[j])

---------------------------------------------------------------------------
(* A sweep as one record s = [items, dims, consts, ders, excl] (further fields are ignored here). *)
CombosOf(s)     == Combos(s.items, s.dims, s.consts, s.ders, s.excl)
LenOf(s)        == LenOp(s.items, s.dims, s.consts, s.ders, s.excl)
ErrorOf(s)      == Error(s.items, s.dims)
OrderFixedOf(s) == OrderFixed(s.items, s.dims)
(* every key a combination of s may carry *)
AllKeys(s) == KeySet(s.items) \cup {s.consts[i].k : i \in DOMAIN s.consts} \cup {s.ders[i].k : i \in DOMAIN s.ders}
DisjointKeys(ss) == \A i, j \in DOMAIN ss : i # j => AllKeys(ss[i]) \cap AllKeys(ss[j]) = {}

(* s1.product(s2, .., sn): the Cartesian product of the combination lists, in order (s1 slowest) *)
Product(ss) == Cart([i \in DOMAIN ss |-> CombosOf(ss[i])])
(* A product with an operand that has no items at all (Sweep({})): the literal reading gives the empty *)
(* list, the code returns the product of the others; DESIGN.md Appendix A puts it in the don't-care set. *)
ProductDontCare(ss) == \E i \in DOMAIN ss : ss[i].items = <<>>

(* the same product as ONE sweep: items, groups, constants, derivers, excludes of all operands side by side *)
Merge(ss) ==
    [items  |-> FlatSeq([i \in DOMAIN ss |-> ss[i].items]),
     dims   |-> IF \A i \in DOMAIN ss : ss[i].dims = NoDims THEN NoDims
                ELSE FlatSeq([i \in DOMAIN ss |-> Groups(ss[i].items, ss[i].dims)]),
     consts |-> FlatSeq([i \in DOMAIN ss |-> ss[i].consts]),
     ders   |-> FlatSeq([i \in DOMAIN ss |-> ss[i].ders]),
     excl   |-> FlatSeq([i \in DOMAIN ss |-> ss[i].excl])]

(* s1 + s2 (+ s3) == MultiSweep(s1, s2, s3) == s1.combine(s2): concatenation *)
Concat(ss)    == FlatSeq([i \in DOMAIN ss |-> CombosOf(ss[i])])
ConcatLen(ss) == SumNat([i \in DOMAIN ss |-> LenOf(ss[i])])

(* Sum expressions.  +, combine and MultiSweep(..) nest at will (s1 + (s2 + s3), MultiSweep(s1 + s2, s3),        *)
(* s1.combine(MultiSweep(s2)) ..): a sum expression is a tree whose leaves are operands ss[i] and whose inner      *)
(* nodes are "+" (x + y), "combine" (x.combine(y)) or "MultiSweep" (MultiSweep(x1, .., xm), m >= 0).  The three    *)
(* node kinds mean the same thing, concatenation of what the children enumerate, whatever the children are (a      *)
(* plain Sweep or again a sum): the enumeration of an expression is that of its leaves, left to right.             *)
Leaf(i)      == [op |-> "leaf", i |-> i, ch |-> <<>>]
Node(op, ch) == [op |-> op, i |-> 0, ch |-> ch]
(* the operands as the expression sees them: L[i] = what operand i enumerates, N[i] = its len *)
OperandLists(ss) == [i \in DOMAIN ss |-> CombosOf(ss[i])]
OperandLens(ss)  == [i \in DOMAIN ss |-> LenOf(ss[i])]
RECURSIVE EvalSum(_, _)          \* expr.list() == list(iter(expr))
EvalSum(e, L) == IF e.op = "leaf" THEN L[e.i]
                 ELSE IF e.ch = <<>> THEN <<>> ELSE FlatSeq([j \in DOMAIN e.ch |-> EvalSum(e.ch[j], L)])
RECURSIVE LenSum(_, _)           \* len(expr): the lengths of the children add up
LenSum(e, N) == IF e.op = "leaf" THEN N[e.i]
                ELSE IF e.ch = <<>> THEN 0 ELSE SumNat([j \in DOMAIN e.ch |-> LenSum(e.ch[j], N)])
RECURSIVE Leaves(_)              \* the operand numbers at the leaves, left to right
Leaves(e) == IF e.op = "leaf" THEN <<e.i>>
             ELSE IF e.ch = <<>> THEN <<>> ELSE FlatSeq([j \in DOMAIN e.ch |-> Leaves(e.ch[j])])

(* Sweep objects over time.  A program forms sums step by step and keeps (and keeps using) every object it has:    *)
(* objects 1..n are the operands ss, object n+k is the result of step k.  A step is [f |-> "sum", a |-> <<x, y>>]  *)
(* (x + y, or x.combine(y)) or [f |-> "multi", a |-> <<x1, .., xm>>] (MultiSweep(x1, .., xm)); its arguments are   *)
(* objects that exist, operands or earlier results, possibly the same one twice.  Sweeps are values: a step yields *)
(* a NEW object that enumerates the concatenation of what its arguments enumerate at that moment, and it changes   *)
(* no object that exists - neither an argument (left or right) nor any earlier result built from it.  Hence the    *)
(* store only grows.  An object is [leafs, combos, len]: the operands it enumerates one after the other, the list  *)
(* it must yield, its len.                                                                                         *)
ObjOf(s, i)   == [leafs |-> <<i>>, combos |-> CombosOf(s), len |-> LenOf(s)]
StoreInit(ss) == [i \in DOMAIN ss |-> ObjOf(ss[i], i)]
StepStore(st, op) ==
    Append(st, IF op.a = <<>> THEN [leafs |-> <<>>, combos |-> <<>>, len |-> 0]
               ELSE [leafs  |-> FlatSeq([j \in DOMAIN op.a |-> st[op.a[j]].leafs]),
                     combos |-> FlatSeq([j \in DOMAIN op.a |-> st[op.a[j]].combos]),
                     len    |-> SumNat([j \in DOMAIN op.a |-> st[op.a[j]].len])])
RECURSIVE RunStore(_, _)
RunStore(st, ops) == IF ops = <<>> THEN st ELSE RunStore(StepStore(st, Head(ops)), Tail(ops))
(* the same, said without the history: what an object with these leaves enumerates *)
ObjCombos(ss, leafs) == IF leafs = <<>> THEN <<>> ELSE Concat([j \in DOMAIN leafs |-> ss[leafs[j]]])
ObjLen(ss, leafs)    == IF leafs = <<>> THEN 0 ELSE ConcatLen([j \in DOMAIN leafs |-> ss[leafs[j]]])
(* the sum expression object o denotes: the history unfolded (sp = how "sum" steps are spelled: "+" or "combine") *)
RECURSIVE ExprOf(_, _, _, _)
ExprOf(n, ops, sp, o) ==
    IF o <= n THEN Leaf(o)
    ELSE LET op == ops[o - n] IN
         Node(IF op.f = "sum" THEN sp ELSE "MultiSweep", [j \in DOMAIN op.a |-> ExprOf(n, ops, sp, op.a[j])])

(* sweep.add_derivers(k = f, ..): a NEW sweep that is the same sweep - items, dims, constants, exclude - with      *)
(* these derivers d: Sweep(items, dims, exclude, constants).add_derivers(d) is Sweep(items, dims, exclude,          *)
(* constants, d).  Claimed for a sweep that has no derivers yet (when it has, "add" admits two readings - keep      *)
(* both / replace - and neither the property nor the tests pin one: no claim).                                      *)
Plain(s)           == [items |-> s.items, dims |-> s.dims, consts |-> s.consts, ders |-> s.ders, excl |-> s.excl]
AddDerivers(s, d)  == [s EXCEPT !.ders = d]
WithoutDerivers(s) == [s EXCEPT !.ders = <<>>]
WithoutExclude(s)  == [s EXCEPT !.excl = <<>>]
(* the derivers may read what a combination has when they run: item keys, constants, earlier derived keys *)
DeriversOk(s, d) ==
    \A i \in DOMAIN d : Range(d[i].a) \subseteq AllKeys(WithoutDerivers(s)) \cup {d[j].k : j \in 1..(i - 1)}

(* Sweep objects over time, continued: products and add_derivers next to sums.  A program multiplies a base sweep   *)
(* with several others, derives from it, adds the results up - and keeps using the base sweep.  Objects 1..n are    *)
(* the operands ss, object n+k is the result of step k.  A step [f, a, d] is                                         *)
(*     f = "product": st[a[1]].product(st[a[2]], ..)      (arguments: single sweeps with pairwise disjoint keys)     *)
(*     f = "derive" : st[a[1]].add_derivers(d)            (argument: a single sweep without derivers)                *)
(*     f = "sum"    : st[a[1]] + st[a[2]]                 (arguments: any objects)                                   *)
(* An object is [kind, sw, combos, len].  kind = "sweep": the object is a single Sweep (an operand, a product, a     *)
(* derived sweep) and sw says which one - THE sweep Sweep(items, dims, exclude, constants, derivers) it is           *)
(* indistinguishable from; kind = "sum": a MultiSweep, sw = NoSweep (as a Sweep it has no items).  As before a step  *)
(* yields a new object and changes no object that exists: in particular a.product(b) leaves a and b - their          *)
(* constants, derivers, items, dims - as they were, and so does a.add_derivers(..).                                  *)
NoSweep   == [items |-> <<>>, dims |-> NoDims, consts |-> <<>>, ders |-> <<>>, excl |-> <<>>]
PObjOf(s) == [kind |-> "sweep", sw |-> Plain(s), combos |-> CombosOf(s), len |-> LenOf(s)]
PStoreInit(ss) == [i \in DOMAIN ss |-> PObjOf(ss[i])]
ArgSweeps(st, op) == [j \in DOMAIN op.a |-> st[op.a[j]].sw]
(* the steps the property speaks about *)
PStepOk(st, op) ==
    /\ Range(op.a) \subseteq DOMAIN st
    /\ CASE op.f = "product" ->
               /\ Len(op.a) >= 2 /\ op.d = <<>>
               /\ \A j \in DOMAIN op.a : st[op.a[j]].kind = "sweep"
               /\ DisjointKeys(ArgSweeps(st, op)) /\ ~ProductDontCare(ArgSweeps(st, op))
         [] op.f = "derive" ->
               /\ Len(op.a) = 1 /\ op.d # <<>>
               /\ LET x == st[op.a[1]] IN
                  x.kind = "sweep" /\ x.sw.items # <<>> /\ x.sw.ders = <<>> /\ DeriversOk(x.sw, op.d)
         [] op.f = "sum" -> Len(op.a) = 2 /\ op.d = <<>>
         [] OTHER -> FALSE
(* the store after one more step.  The product is written the way the documentation says it - the Cartesian         *)
(* product of what the arguments enumerate, its len the product of their lens - and ALSO as one sweep (Merge);       *)
(* LawObjHistory demands that the two agree.                                                                          *)
PStep(st, op) ==
    Append(st,
        CASE op.f = "product" ->
                [kind |-> "sweep", sw |-> Merge(ArgSweeps(st, op)),
                 combos |-> Cart([j \in DOMAIN op.a |-> st[op.a[j]].combos]),
                 len    |-> ProdNat([j \in DOMAIN op.a |-> st[op.a[j]].len])]
          [] op.f = "derive" ->
                LET d == AddDerivers(st[op.a[1]].sw, op.d) IN
                [kind |-> "sweep", sw |-> d, combos |-> CombosOf(d), len |-> LenOf(d)]
          [] op.f = "sum" ->
                [kind |-> "sum", sw |-> NoSweep,
                 combos |-> st[op.a[1]].combos \o st[op.a[2]].combos,
                 len    |-> st[op.a[1]].len + st[op.a[2]].len])
RECURSIVE RunPStore(_, _)
RunPStore(st, ops) == IF ops = <<>> THEN st ELSE RunPStore(PStep(st, Head(ops)), Tail(ops))
(* the same without the history: the expression object o denotes, over the operands only ..                          *)
RECURSIVE PExprOf(_, _, _)
PExprOf(n, ops, o) ==
    IF o <= n THEN [op |-> "leaf", i |-> o, ch |-> <<>>, d |-> <<>>]
    ELSE LET op == ops[o - n] IN [op |-> op.f, i |-> 0, ch |-> [j \in DOMAIN op.a |-> PExprOf(n, ops, op.a[j])], d |-> op.d]
(* .. a leaf / product / derive expression as ONE sweep ..                                                            *)
RECURSIVE SweepOfExpr(_, _)
SweepOfExpr(e, ss) ==
    CASE e.op = "leaf"    -> Plain(ss[e.i])
      [] e.op = "product" -> Merge([j \in DOMAIN e.ch |-> SweepOfExpr(e.ch[j], ss)])
      [] e.op = "derive"  -> AddDerivers(SweepOfExpr(e.ch[1], ss), e.d)
(* .. and what an expression enumerates                                                                               *)
RECURSIVE EvalExpr(_, _)
EvalExpr(e, ss) == IF e.op = "sum" THEN EvalExpr(e.ch[1], ss) \o EvalExpr(e.ch[2], ss) ELSE CombosOf(SweepOfExpr(e, ss))

(* sweep.filtered_sweep(keys).list(): the distinct projections onto keys (here: in order of first appearance; *)
(* the property fixes no order).  Claimed for sweeps without constants or exclude.                            *)
Project(c, keys) == [k \in keys |-> c[k]]
RECURSIVE Distinct(_)
Distinct(s) == IF s = <<>> THEN <<>>
               ELSE LET init == Distinct(SubSeq(s, 1, Len(s) - 1))  last == s[Len(s)]
                    IN  IF last \in Range(init) THEN init ELSE Append(init, last)
Filtered(s, keys) == LET C == CombosOf(s) IN Distinct([i \in DOMAIN C |-> Project(C[i], keys)])

---------------------------------------------------------------------------
(* count_sweep(output_name, sweep, pipeline).  A pipeline is Seq([out : name, params : Seq(name)]).          *)
Outs(funcs)        == {funcs[i].out : i \in DOMAIN funcs}
Producer(funcs, n) == funcs[CHOOSE i \in DOMAIN funcs : funcs[i].out = n]
RECURSIVE RootSet(_, _)          \* the root arguments needed for n
RootSet(funcs, n) == IF n \notin Outs(funcs) THEN {n}
                     ELSE UNION {RootSet(funcs, p) : p \in Range(Producer(funcs, n).params)}
RECURSIVE DepSet(_, _)           \* the outputs of the functions n depends on (n itself not included)
DepSet(funcs, n) == LET ps == Range(Producer(funcs, n).params) \cap Outs(funcs)
                    IN  ps \cup UNION {DepSet(funcs, p) : p \in ps}
(* [name, args] per dependency; root arguments are reported in `order` (pipefunc: sorted by name) *)
Deps(funcs, target, order) ==
    LET ds == SelectSeq(order, LAMBDA n : n \in DepSet(funcs, target))
    IN  [i \in DOMAIN ds |-> [name |-> ds[i], args |-> SelectSeq(order, LAMBDA k : k \in RootSet(funcs, ds[i]))]]

ArgTuple(c, args) == [j \in DOMAIN args |-> c[args[j]]]
(* for each dependency: how many combinations share each root-argument tuple *)
Count(combos, deps) ==
    [d \in DOMAIN deps |->
        [name |-> deps[d].name,
         tab  |-> {[key |-> t, n |-> Cardinality({i \in DOMAIN combos : ArgTuple(combos[i], deps[d].args) = t})]
                   : t \in {ArgTuple(combos[i], deps[d].args) : i \in DOMAIN combos}}]]

---------------------------------------------------------------------------
(* LAWS (property C17).  Each is stated independently of the constructive definitions above, so that a  *)
(* slip in Cart / Combos / LenOp shows up as a violated invariant in MC_Sweep rather than as agreement    *)
(* between two copies of the same mistake.                                                                *)

(* index tuples of the product of the zipped groups: one index per group *)
Max(S) == CHOOSE m \in S : \A x \in S : x <= m
IndexTuples(items, dims) ==
    LET G == Groups(items, dims)  longest == Max({0} \cup {GroupLen(items, G[g]) : g \in DOMAIN G})
    IN  {f \in [DOMAIN G -> 1..longest] : \A g \in DOMAIN G : f[g] <= GroupLen(items, G[g])}
GroupOf(items, dims, k) == LET G == Groups(items, dims) IN CHOOSE g \in DOMAIN G : k \in Range(G[g])
AtIndex(items, dims, f) == [k \in KeySet(items) |-> ValuesOf(items, k)[f[GroupOf(items, dims, k)]]]

(* L1: each combination of the Cartesian product of the zipped groups exactly once (as many positions *)
(*     as index tuples denote it: value lists may repeat a value)                                       *)
LawExactlyOnce(items, dims) ==
    (items # <<>> /\ Error(items, dims) = "") =>
        LET raw == Raw(items, dims)  I == IndexTuples(items, dims) IN
        /\ Len(raw) = Cardinality(I)
        /\ \A f \in I : Occ(raw, AtIndex(items, dims, f)) = Cardinality({h \in I : AtIndex(items, dims, h) = AtIndex(items, dims, f)})
        /\ \A p \in DOMAIN raw : \E f \in I : raw[p] = AtIndex(items, dims, f)

(* L2: row-major order: position p holds the index tuple that is p-1 written in the mixed radix of the *)
(*     group lengths (first group = most significant digit)                                             *)
RECURSIVE Digits(_, _)           \* n in mixed radix `lens`, most significant first, digits from 1
Digits(n, lens) == IF lens = <<>> THEN <<>>
                   ELSE LET w == ProdNat(Tail(lens)) IN <<(n \div w) + 1>> \o Digits(n % w, Tail(lens))
LawRowMajor(items, dims) ==
    (items # <<>> /\ Error(items, dims) = "") =>
        LET raw == Raw(items, dims)  G == Groups(items, dims)
            lens == [g \in DOMAIN G |-> GroupLen(items, G[g])]
        IN  \A p \in DOMAIN raw : raw[p] = AtIndex(items, dims, Digits(p - 1, lens))

(* L3: the final list = the raw list with constants added (never overriding), derivers applied, *)
(*     excluded combinations removed, order kept                                                 *)
LawFinish(s) ==
    ErrorOf(s) = "" =>
        LET raw == Raw(s.items, s.dims)  C == CombosOf(s)
            kept == {p \in DOMAIN raw : ~Excluded(Finish(raw[p], s.consts, s.ders), s.excl)}
        IN  /\ Len(C) = Cardinality(kept)
            /\ \A p \in kept : C[Cardinality({q \in kept : q <= p})] = Finish(raw[p], s.consts, s.ders)
            /\ \A p \in DOMAIN raw : LET c == Finish(raw[p], s.consts, s.ders) IN
                  /\ \A k \in DOMAIN raw[p] : (\A i \in DOMAIN s.ders : s.ders[i].k # k) => c[k] = raw[p][k]
                  /\ \A i \in DOMAIN s.consts : s.consts[i].k \in DOMAIN c

(* L3b: the order in which dims lists its groups only permutes the list (why a multiset comparison is the *)
(*      right one when dims is not in item order)                                                        *)
SortedGroups(items, dims) ==
    [i \in DOMAIN dims |-> dims[CHOOSE g \in DOMAIN dims :
        Cardinality({h \in DOMAIN dims : GroupPos(items, dims[h]) < GroupPos(items, dims[g])}) = i - 1]]
LawOrderFree(s) ==
    (ErrorOf(s) = "" /\ s.dims # NoDims) =>
        /\ OrderFixed(s.items, SortedGroups(s.items, s.dims))
        /\ SameBag(CombosOf(s), Combos(s.items, SortedGroups(s.items, s.dims), s.consts, s.ders, s.excl))

(* L3c: add_derivers (s: a sweep without derivers): the derived sweep enumerates what s enumerates before its     *)
(*      exclude is asked - the product of its zipped groups with ITS constants -, the derivers applied on top,     *)
(*      then s's exclude, order kept; a constant of s stays in every combination, with its value unless an item   *)
(*      or a deriver owns the key                                                                                  *)
LawAddDerivers(s, d) ==
    (ErrorOf(s) = "" /\ s.ders = <<>> /\ DeriversOk(s, d)) =>
        LET D    == CombosOf(AddDerivers(s, d))
            B    == CombosOf(WithoutExclude(s))
            fin  == [p \in DOMAIN B |-> ApplyDerivers(B[p], d)]
            kept == {p \in DOMAIN B : ~Excluded(fin[p], s.excl)}
        IN  /\ ErrorOf(AddDerivers(s, d)) = ""
            /\ Len(D) = Cardinality(kept) /\ LenOf(AddDerivers(s, d)) = Len(D)
            /\ \A p \in kept : D[Cardinality({q \in kept : q <= p})] = fin[p]
            /\ \A p \in DOMAIN D : \A i \in DOMAIN s.consts :
                  /\ s.consts[i].k \in DOMAIN D[p]
                  /\ (s.consts[i].k \notin KeySet(s.items) /\ \A j \in DOMAIN d : d[j].k # s.consts[i].k)
                        => D[p][s.consts[i].k] = s.consts[i].v
            /\ (d = <<>> => D = CombosOf(s))

(* L4: len(sweep) == len(sweep.list()) *)
LawLen(s) == ErrorOf(s) = "" => LenOf(s) = Len(CombosOf(s))

(* L5: product of sweeps with disjoint keys = Cartesian product of the lists = the merged sweep *)
LawProduct(ss) ==
    (DisjointKeys(ss) /\ ~ProductDontCare(ss) /\ \A i \in DOMAIN ss : ErrorOf(ss[i]) = "") =>
        LET P == Product(ss) IN
        /\ P = CombosOf(Merge(ss))
        /\ Len(P) = ProdNat([i \in DOMAIN ss |-> Len(CombosOf(ss[i]))])
        /\ (Len(ss) = 2 =>                \* element (i, j) is the union of the i-th and the j-th combination
              LET A == CombosOf(ss[1])  B == CombosOf(ss[2]) IN
              \A i \in DOMAIN A, j \in DOMAIN B : P[(i - 1) * Len(B) + j] = A[i] @@ B[j])

(* L6: + is concatenation, len adds up, + is associative *)
LawConcat(ss) ==
    (\A i \in DOMAIN ss : ErrorOf(ss[i]) = "") =>
        LET C == Concat(ss) IN
        /\ Len(C) = ConcatLen(ss)
        /\ \A i \in DOMAIN ss :
              LET off == SumNat([j \in 1..(i - 1) |-> Len(CombosOf(ss[j]))]) IN
              SubSeq(C, off + 1, off + Len(CombosOf(ss[i]))) = CombosOf(ss[i])
        /\ (Len(ss) = 3 => C = Concat(<<ss[1], ss[2]>>) \o CombosOf(ss[3]))

(* L6b: generalised associativity: whatever the nesting and the spelling of a sum, it enumerates its leaves left   *)
(*      to right (for leaves 1..n in order: exactly Concat(ss)), and its len is the length of that list           *)
LawSumExpr(e, ss) ==
    (\A i \in DOMAIN ss : ErrorOf(ss[i]) = "") =>
        LET lv == Leaves(e)  L == OperandLists(ss)  N == OperandLens(ss)  E == EvalSum(e, L) IN
        /\ E = (IF lv = <<>> THEN <<>> ELSE FlatSeq([j \in DOMAIN lv |-> L[lv[j]]]))
        /\ LenSum(e, N) = Len(E)
        /\ (lv = [i \in DOMAIN ss |-> i] => E = Concat(ss) /\ LenSum(e, N) = ConcatLen(ss))

(* L6c: objects over time (st = the store after the history `ops`): every object enumerates the sum expression  *)
(*      it denotes - its leaves left to right - whatever was done with it or with its arguments afterwards, and   *)
(*      a step leaves every object that existed before it as it was.  The enumeration itself is compared for the  *)
(*      newest object (for all of them before the first step): the others were compared in the state before the   *)
(*      last step and have not changed since (last conjunct).                                                      *)
LawHistory(ss, ops, sp, st) ==
    (\A i \in DOMAIN ss : ErrorOf(ss[i]) = "") =>
        LET n == Len(ss)  init == StoreInit(ss) IN
        /\ Len(st) = n + Len(ops)
        /\ \A o \in DOMAIN st : st[o].leafs = Leaves(ExprOf(n, ops, sp, o))
        /\ \A o \in (IF ops = <<>> THEN DOMAIN st ELSE {Len(st)}) :
              LET e == ExprOf(n, ops, sp, o) IN
              /\ LawSumExpr(e, ss)
              /\ st[o].combos = EvalSum(e, OperandLists(ss)) /\ st[o].combos = ObjCombos(ss, st[o].leafs)
              /\ st[o].len = LenSum(e, OperandLens(ss))      /\ st[o].len = ObjLen(ss, st[o].leafs)
        /\ \A k \in 0..Len(ops) : RunStore(init, SubSeq(ops, 1, k)) = SubSeq(st, 1, n + k)

(* L6d: objects over time with products and add_derivers (st = the store after the history `ops`).  EVERY object  *)
(*      - operand, argument of an earlier step, earlier result - enumerates the expression it denotes over the      *)
(*      operands as they were given, whatever was done with it afterwards; a single sweep is the one sweep its      *)
(*      expression says; the newest object obeys the law of its step (L5 for a product, L3c for add_derivers,       *)
(*      concatenation for a sum); no step changes an object that existed before it.                                  *)
LawObjHistory(ss, ops, st) ==
    (\A i \in DOMAIN ss : ErrorOf(ss[i]) = "") =>
        LET n == Len(ss)  init == PStoreInit(ss) IN
        /\ Len(st) = n + Len(ops)
        /\ \A k \in DOMAIN ops : PStepOk(SubSeq(st, 1, n + k - 1), ops[k])
        /\ \A o \in DOMAIN st :
              LET e == PExprOf(n, ops, o) IN
              /\ st[o].combos = EvalExpr(e, ss)
              /\ st[o].len = Len(st[o].combos)
              /\ (st[o].kind = "sweep") = (e.op # "sum")
              /\ st[o].kind = "sweep" =>
                    /\ st[o].sw = SweepOfExpr(e, ss) /\ ErrorOf(st[o].sw) = ""
                    /\ st[o].combos = CombosOf(st[o].sw) /\ st[o].len = LenOf(st[o].sw) /\ LawLen(st[o].sw)
              /\ st[o].kind = "sum" => st[o].sw = NoSweep
        /\ ops # <<>> =>
              LET op == ops[Len(ops)]  new == st[Len(st)]  args == ArgSweeps(st, op) IN
              CASE op.f = "product" ->
                      /\ LawProduct(args) /\ new.combos = Product(args) /\ new.sw = Merge(args)
                [] op.f = "derive"  -> LawAddDerivers(args[1], op.d) /\ new.sw = AddDerivers(args[1], op.d)
                [] op.f = "sum"     -> /\ new.combos = st[op.a[1]].combos \o st[op.a[2]].combos
                                       /\ new.len = st[op.a[1]].len + st[op.a[2]].len
        /\ \A k \in 0..Len(ops) : RunPStore(init, SubSeq(ops, 1, k)) = SubSeq(st, 1, n + k)

(* L7b: filtering a SUM (+ / combine / MultiSweep, nested at will) by the keys of one of its leaves.  What a sum yields   *)
(* for the combinations of the OTHER leaves (which lack those keys) is not stated; what is stated is that the projections  *)
(* which exist are yielded: every distinct projection of that leaf occurs in the filtered sum, whatever the nesting.       *)
FilterNeed(s) == IF ErrorOf(s) = "" /\ s.consts = <<>> /\ s.excl = <<>> /\ KeySet(s.items) # {}
                 THEN [keys |-> AllKeys(s), proj |-> Filtered(s, AllKeys(s))] ELSE [keys |-> {}, proj |-> <<>>]
LawFilteredSumCoversLeaf(s) == LET n == FilterNeed(s) C == CombosOf(s) IN
    n.keys # {} => Range(n.proj) = {Project(C[i], n.keys) : i \in DOMAIN C}

(* L7: filtered = the distinct projections, each once *)
LawFiltered(s, keys) ==
    (ErrorOf(s) = "" /\ keys \subseteq AllKeys(s)) =>
        LET F == Filtered(s, keys)  C == CombosOf(s) IN
        /\ NoDup(F)
        /\ Range(F) = {Project(C[i], keys) : i \in DOMAIN C}

(* L8: counts: per dependency the counts add up to the number of combinations, every tuple listed occurs *)
LawCount(combos, deps) ==
    LET cnt == Count(combos, deps) IN
    \A d \in DOMAIN deps :
        /\ cnt[d].name = deps[d].name
        /\ \A r \in cnt[d].tab : r.n >= 1
        /\ \A r1, r2 \in cnt[d].tab : r1.key = r2.key => r1 = r2
        /\ \A i \in DOMAIN combos : \E r \in cnt[d].tab : r.key = ArgTuple(combos[i], deps[d].args)
        /\ LET RECURSIVE S(_)
               S(T) == IF T = {} THEN 0 ELSE LET r == CHOOSE x \in T : TRUE IN r.n + S(T \ {r})
           IN  S(cnt[d].tab) = Len(combos)
=============================================================================
