------------------------------ MODULE MC_Cache ------------------------------
(* Model-checking instance of Cache: every sequence of mutators up to Depth over Keys.            *)
(* `hist` makes every sequence a distinct state on purpose: the leaves are the op-sequence        *)
(* universe that the harness replays on the real classes (printed as JSON when Export = TRUE).    *)
EXTENDS Cache, Json
CONSTANTS Kind, Max, LSize, AW, DW, Keys, Durs, Depth, Export, WithReopen,
          WithReput,  \* also re-put the value a key already has
          WithBad,    \* also put a value that cannot be serialised (refused puts are no-ops)
          WithNone    \* also put Python's None (NoneV): a resident key whose value is None is still resident
VARIABLES c, hist, last
vars == <<c, hist, last>>

Init == c = New(Kind, Max, LSize, AW, DW) /\ hist = <<>> /\ last = Empty

Do(o, newlast) == /\ Len(hist) < Depth
                  /\ \E out \in Outcomes(c, o) : c' = out[1] /\ hist' = Append(hist, o)
                  /\ last' = newlast

(* a put writes a fresh value, None (WithNone), or AGAIN the value the key was last put with (WithReput: an "unchanged" *)
(* entry is still a put: it refreshes recency / the file's age like any other)                                       *)
Put(k, d) == \E v \in {Len(hist) + 1} \cup (IF WithNone THEN {NoneV} ELSE {})
                     \cup (IF WithReput /\ k \in DOMAIN last THEN {last[k]} ELSE {}) :
                 Do([op |-> "put", k |-> k, v |-> v, d |-> d], Upd(last, k, v))
PutBad(k, d) == /\ WithBad /\ Len(hist) < Depth
                /\ LET o == [op |-> "putbad", k |-> k, d |-> d] IN
                   \E out \in Outcomes(c, o) : /\ c' = out[1] /\ hist' = Append(hist, o)
                                               /\ last' = IF out[2] = RaisedV THEN last ELSE Upd(last, k, BadV)
Get(k)    == Do([op |-> "get", k |-> k], last)
Clear     == Do([op |-> "clear"], Empty)
Wipe      == WithReopen /\ Kind = "disk" /\ LSize > 0 /\ Do([op |-> "wipe"], last)
Reopen(m) == WithReopen /\ Kind = "disk" /\ Do([op |-> "reopen", max |-> m, lsize |-> LSize], last)

Next == \/ \E k \in Keys, d \in Durs : Put(k, d)
        \/ \E k \in Keys : PutBad(k, 1)
        \/ \E k \in Keys : Get(k)
        \/ Clear
        \/ Wipe
        \/ \E m \in 1..Max : Reopen(m)

Spec == Init /\ [][Next]_vars

InvWellFormed == WellFormed(c)
InvLenBounded == LenBounded(c)
InvPutBounds  == (hist # <<>> /\ hist[Len(hist)].op = "put") => PutBounds(c)
InvGetIsLastPut == GetIsLastPut(c, last)
(* a present key was put and not cleared since *)
InvPresentWasPut == \A k \in Keys : Present(c, k) => k \in DOMAIN last

Emit == (Export /\ Len(hist) = Depth) => PrintT(<<"SEQ", ToJson(hist)>>)
=============================================================================
