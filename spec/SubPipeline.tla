---------------------------- MODULE SubPipeline -----------------------------
(***************************************************************************)
(* C11 - selecting outputs / supplying intermediates.                      *)
(*                                                                         *)
(* A REQUEST on a pipeline description d is a pair                         *)
(*     S  - the non-empty set of requested output names                    *)
(*     I  - the set of provided names (root arguments and/or intermediate  *)
(*          results), the keys of the inputs dictionary                    *)
(* made through one of                                                     *)
(*     pipeline.subpipeline(inputs=I, output_names=S).map(inputs)          *)
(*     pipeline.map(inputs, output_names=S)                                *)
(*     pipeline.map(inputs, output_names=S, auto_subpipeline=True)         *)
(* (pipefunc/_pipeline/_base.py: subpipeline, _find_nodes_between;         *)
(*  pipefunc/map/_prepare.py: prepare_run, _validate_complete_inputs).     *)
(*                                                                         *)
(* The property fixes                                                      *)
(*   - WHICH functions run: NeededSet(d, S, I), the backward closure from  *)
(*     the producers of S that stops at provided names (and at bound       *)
(*     parameters);                                                        *)
(*   - WHEN the request must be served: Computable(d, S, I), every root    *)
(*     argument of that cut is provided, has a default, or is bound;       *)
(*   - WHAT is returned: the values of the full pipeline with the provided *)
(*     names substituted = MapDenoteF(d, inputs, NeededSet): a provided    *)
(*     name shadows its producer (MapDenote!EnvGen keeps the input);       *)
(*   - the REJECTION of a request that is not computable, with an error    *)
(*     naming a missing name.                                              *)
(* A run is a MapRun run (Call/Ret/Return of MapRun.tla unchanged) that    *)
(* starts with SubBegin instead of MapRun!Begin.                           *)
(***************************************************************************)
EXTENDS MapRun, SequencesExt

(* I as a keyword list: only the keys matter for PipelineStatic!Source *)
GivenV    == Atom("@given")
KwMark(I) == LET s == SetToSeq(I) IN [k \in 1..Len(s) |-> <<s[k], GivenV>>]

(* a request is well formed: something is requested, only outputs are requested, a requested output is not provided itself *)
WellFormedRequest(dd, S, I) == S # {} /\ S \subseteq AllOutputs(dd) /\ S \cap I = {}

---------------------------------------------------------------------------
(* The functions that have to run: producers of S, then repeatedly the producers of every parameter that is neither    *)
(* bound nor provided.                                                                                                 *)
NeededSet(dd, S, I) == NeededFor(dd, KwMark(I), S)

(* The root arguments of the cut: names a needed function reads from outside the cut (parameter not bound, and either   *)
(* provided or not produced by any function).                                                                         *)
CutRoots(dd, S, I) ==
    LET N == NeededSet(dd, S, I)  outs == AllOutputs(dd) IN
    {p \in AllParams(dd) : \E i \in N : p \in ParamsOf(dd, i) /\ ~IsBound(dd, i, p) /\ (p \in I \/ p \notin outs)}
MissingNames(dd, S, I) == {p \in CutRoots(dd, S, I) : p \notin I /\ ~HasDefault(dd, p)}
Computable(dd, S, I)   == MissingNames(dd, S, I) = {}

(* provided names that no needed function reads (a bound parameter does not read) *)
ConsultedNames(dd, S, I) ==
    LET N == NeededSet(dd, S, I)  kw == KwMark(I) IN
    {p \in I : \E i \in N : p \in ParamsOf(dd, i) /\ Source(dd, kw, i, p) = "kw"}
SurplusNames(dd, S, I) == I \ ConsultedNames(dd, S, I)
(* a provided name whose producer has to run nevertheless (for a sibling output of a tuple-output function) *)
ShadowedSibling(dd, S, I) == LET N == NeededSet(dd, S, I) IN \E n \in I \cap AllOutputs(dd) : FuncOf(dd, n) \in N

(***************************************************************************)
(* DON'T-CARE set.  The property text says "every I from which S is        *)
(* computable"; the repository's tests pin that inputs a (sub)pipeline     *)
(* does not accept are refused ("Got extra inputs", tests/map/test_map.py  *)
(* test_missing_inputs) - so a request with provided names nobody reads    *)
(* may be refused or served; if served, the run must be exact.  Likewise a *)
(* provided output of a tuple-output function whose sibling output is      *)
(* still needed: the producer runs and produces that name again; the       *)
(* property does not say which of the two the result reports.              *)
(***************************************************************************)
DontCare(dd, S, I) == SurplusNames(dd, S, I) # {} \/ ShadowedSibling(dd, S, I)
MustServe(dd, S, I)  == WellFormedRequest(dd, S, I) /\ Computable(dd, S, I) /\ ~DontCare(dd, S, I)
MustReject(dd, S, I) == WellFormedRequest(dd, S, I) /\ ~Computable(dd, S, I)

---------------------------------------------------------------------------
(* Laws (checked per case by MC_SubPipeline).                                                                        *)
DepClosed(dd, I, X)  == LET kw == KwMark(I) IN \A i \in X : DirectDeps(dd, kw, i) \subseteq X
Producers(dd, S, I)  == {FuncOf(dd, o) : o \in S \ I}
(* NeededSet is the LEAST set that contains the producers of S and is closed under dependencies *)
LawLeast(dd, S, I) ==
    LET N == NeededSet(dd, S, I) IN
    /\ Producers(dd, S, I) \subseteq N /\ DepClosed(dd, I, N)
    /\ \A X \in SUBSET FIdx(dd) : (Producers(dd, S, I) \subseteq X /\ DepClosed(dd, I, X)) => N \subseteq X
(* the producer of a provided name is cut off unless a sibling output of it is requested or read by a needed function *)
LawCutOff(dd, S, I) ==
    LET N == NeededSet(dd, S, I)  kw == KwMark(I) IN
    \A n \in I \cap AllOutputs(dd) : FuncOf(dd, n) \in N =>
        \/ OutputsOf(dd, FuncOf(dd, n)) \cap S # {}                 \* a sibling output is requested itself
        \/ \E i \in N : \E p \in ParamsOf(dd, i) :                     \* or read by a needed function
              p \in OutputsOf(dd, FuncOf(dd, n)) /\ Source(dd, kw, i, p) = "up"
(* Computable <=> the argument-resolution of every needed function finds a source <=> the call denotation of every    *)
(* requested output is defined                                                                                        *)
LawComputableSources(dd, S, I) ==
    LET N == NeededSet(dd, S, I)  kw == KwMark(I) IN
    Computable(dd, S, I) <=> \A i \in N : \A p \in ParamsOf(dd, i) : Source(dd, kw, i, p) # "missing"
LawComputableDefined(dd, S, I) ==
    LET kw == KwMark(I) IN Computable(dd, S, I) <=> \A o \in S : Defined(dd, kw, o)

---------------------------------------------------------------------------
(* The map request behind a sub-pipeline run.  MapDenote!ValidMapRequestF forbids inputs that are outputs (C01 runs   *)
(* whole pipelines); here a provided intermediate is exactly such an input.                                           *)
ValidSubRequest(dd, inputs, F) == Acyclic(dd) /\ ValidUpTo(dd, inputs, F, MaxGen(dd))

(* The run of a served request: a MapRun run over exactly the needed functions, denotation = the full pipeline's with *)
(* the provided names substituted.  (Same state update as MapRun!Begin.)                                              *)
SubBegin(c, S) ==
    LET I == PKeys(inp) IN
    /\ phase = "idle"
    /\ WellFormedRequest(d, S, I)
    /\ Computable(d, S, I)
    /\ c.F = NeededSet(d, S, I)                         \* exactly the needed functions
    /\ ValidSubRequest(d, inp, c.F)
    /\ phase' = "running" /\ cfg' = c
    /\ den' = MapDenoteF(d, inp, c.F)                   \* provided names shadow their producers
    /\ called' = {} /\ done' = {} /\ failed' = {}
    /\ stored' = IF c.cleanup THEN {} ELSE stored
    /\ UNCHANGED <<d, inp>>

(* A rejection (nothing happens).  `named` = the names of the description the error message mentions.  Allowed only   *)
(* when the request need not be served; when it is not computable (and has no other fault: a request that also        *)
(* provides names nobody reads may be refused for those) the message must name a missing root argument.               *)
NamesMissing(dd, S, I, named) == named \cap MissingNames(dd, S, I) # {}
SubReject(S, named) ==
    LET I == PKeys(inp) IN
    /\ phase = "idle"
    /\ ~MustServe(d, S, I) \/ ~ValidSubRequest(d, inp, NeededSet(d, S, I))
    /\ (MustReject(d, S, I) /\ ~DontCare(d, S, I)) => NamesMissing(d, S, I, named)   \* the only fault is what is missing
    /\ UNCHANGED mvars

(* "values of the full pipeline with I substituted": whenever the WHOLE pipeline can be run on inputs that extend the   *)
(* provided ones by values for root arguments without a default, every requested output has the same value in both    *)
(* runs (in the full run the provided intermediates shadow their producers as well).                                   *)
LawSubstitution(dd, S, inputs, fullInputs) ==
    LET I == PKeys(inputs) IN
    (/\ Computable(dd, S, I) /\ ~ShadowedSibling(dd, S, I)
     /\ \A n \in I : PHas(fullInputs, n) /\ PGet(fullInputs, n) = PGet(inputs, n)
     /\ \A n \in PKeys(fullInputs) \ I : n \in RootNames(dd) /\ ~HasDefault(dd, n)
     /\ ValidUpTo(dd, fullInputs, FIdx(dd), MaxGen(dd)))
    => LET sub == MapDenoteF(dd, inputs, NeededSet(dd, S, I))  full == MapDenoteF(dd, fullInputs, FIdx(dd))
       IN  \A o \in S : sub[o] = full[o]
=============================================================================
