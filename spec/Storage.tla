------------------------------ MODULE Storage ------------------------------
(***************************************************************************)
(* C07: a pipefunc storage array (pipefunc/map/_storage_array: FileArray,  *)
(* DictArray, SharedMemoryDictArray, any class of `storage_registry`) is a *)
(* masked n-d object array.                                                *)
(*                                                                         *)
(* Geometry (parameters of every operator, record G):                      *)
(*   G.shape     external shape: one entry per MAPPED axis; the backing    *)
(*               store has one slot per external index                     *)
(*   G.internal  internal shape: every stored element is itself an array   *)
(*               of this shape (<<>> = elements are scalars)               *)
(*   G.mask      shape_mask: for every axis of the FULL (interleaved)      *)
(*               shape, TRUE = external axis, FALSE = internal axis        *)
(*   (+ derived fields full, extpos, intpos, istrides, see Geom)           *)
(* State: written : [external index -> Block or Missing]  and a persisted  *)
(* copy (what a fresh object opened on the same folder would see).         *)
(*                                                                         *)
(* Encoding (one uniform type per field, TLC never compares an integer     *)
(* with a sequence):                                                       *)
(*   index        tuple of 0-based integers                                *)
(*   key          tuple of components; <<i>> = integer i (may be negative) *)
(*                <<start, stop, step>> = slice, NoneMark = absent field   *)
(*   n-d array    [shape, data]: data = row-major ravel (the same          *)
(*                information as the nested array, but of uniform type)    *)
(*   Block        the n-d array of shape G.internal dumped for one index   *)
(*   element      positive integer; MaskedV = masked/missing               *)
(*   Outcome      result of an observer:                                   *)
(*                [exc, shape, data, elems]; exc = "" or exception class;  *)
(*                `elems` (sequence of Blocks) is used only by the         *)
(*                un-splatted to_array, `data` by everything else          *)
(*                                                                         *)
(* Outside the specification (don't care; the property is silent or the    *)
(* repository's tests pin diverging behaviour per backend):                *)
(*  - geometries without any external axis (pipefunc stores a generator    *)
(*    output `... -> x[i]` as one file, never as a storage array)          *)
(*  - has_index / get_from_index for linear indices outside 0..size-1      *)
(*    (FileArray: False / FileNotFoundError, DictArray: ValueError)        *)
(*  - the CLASS of the exception get_from_index raises for an unwritten    *)
(*    index (FileNotFoundError vs KeyError): outcome "Raises"              *)
(*  - dumped values whose shape is not the internal shape, slice step 0,   *)
(*    keys that are not tuples                                             *)
(*  - whether a result is a MaskedArray with mask bits or an ndarray that  *)
(*    holds np.ma.masked constants (both read as masked)                   *)
(***************************************************************************)
EXTENDS Integers, Sequences, FiniteSets, TLC

NoneMark == 99           \* absent slice field (the harness never uses 99 as an index)
MaskedV  == -1           \* a masked element
NoneElem == -2           \* Python's None WRITTEN as an element (an ordinary, unmasked value)

---------------------------------------------------------------------------
(* arithmetic on shapes; row-major (C order) linear indices, as shape_to_strides *)
RECURSIVE Prod(_)
Prod(s) == IF Len(s) = 0 THEN 1 ELSE Head(s) * Prod(Tail(s))
RECURSIVE Dot(_, _)
Dot(a, b) == IF Len(a) = 0 THEN 0 ELSE Head(a) * Head(b) + Dot(Tail(a), Tail(b))
Range(s)   == {s[i] : i \in DOMAIN s}
Strides(shape)    == [k \in 1..Len(shape) |-> Prod(SubSeq(shape, k + 1, Len(shape)))]
Lin(p, shape)     == Dot(p, Strides(shape))                       \* index tuple -> linear index
Unravel(i, shape) == LET st == Strides(shape) IN [k \in 1..Len(shape) |-> (i \div st[k]) % shape[k]]
IndexSeq(shape)   == [i \in 1..Prod(shape) |-> Unravel(i - 1, shape)]   \* all indices, row-major
IndexSet(shape)   == Range(IndexSeq(shape))

---------------------------------------------------------------------------
(* geometry: select_by_mask and its two inverses *)
Count(mask, k, b)  == Cardinality({j \in 1..k : mask[j] = b})
Positions(mask, b) == SelectSeq([k \in 1..Len(mask) |-> k], LAMBDA k : mask[k] = b)
SelectByMask(mask, t1, t2) ==          \* interleave: t1 feeds the TRUE positions, t2 the FALSE ones
    [k \in 1..Len(mask) |-> IF mask[k] THEN t1[Count(mask, k, TRUE)] ELSE t2[Count(mask, k, FALSE)]]
ExtPart(mask, t) == LET pos == Positions(mask, TRUE)  IN [j \in 1..Len(pos) |-> t[pos[j]]]
IntPart(mask, t) == LET pos == Positions(mask, FALSE) IN [j \in 1..Len(pos) |-> t[pos[j]]]

(* A geometry record carries, besides shape / internal / mask, what follows from them (computed once):   *)
(*   full = select_by_mask(mask, shape, internal) (StorageBase.full_shape), extpos / intpos = the          *)
(*   positions of the external / internal axes in the full shape, istrides = strides of the internal shape *)
Geom(full, mask) ==
    LET ep == Positions(mask, TRUE)
        ip == Positions(mask, FALSE)
        internal == [j \in 1..Len(ip) |-> full[ip[j]]]
    IN  [shape |-> [j \in 1..Len(ep) |-> full[ep[j]]], internal |-> internal, mask |-> mask,
         full |-> full, extpos |-> ep, intpos |-> ip, istrides |-> Strides(internal)]
Complete(g)      == Geom(SelectByMask(g.mask, g.shape, g.internal), g.mask)   \* from [shape, internal, mask]
Basic(G)         == [shape |-> G.shape, internal |-> G.internal, mask |-> G.mask]
Full(G)          == G.full
ExtOf(G, p)      == [j \in DOMAIN G.extpos |-> p[G.extpos[j]]]               \* external part of a full index
IntOf(G, p)      == [j \in DOMAIN G.intpos |-> p[G.intpos[j]]]               \* internal part of a full index
Size(G)          == Prod(G.shape)                                             \* StorageBase.size
WellFormedBasic(g) == /\ Len(g.mask) = Len(g.shape) + Len(g.internal)
                      /\ Count(g.mask, Len(g.mask), TRUE) = Len(g.shape)
                      /\ \A k \in DOMAIN g.shape : g.shape[k] >= 1
                      /\ \A k \in DOMAIN g.internal : g.internal[k] >= 1
WellFormed(G)    == /\ WellFormedBasic(G)
                    /\ G = Complete(G)
                    /\ G.shape = ExtPart(G.mask, G.full) /\ G.internal = IntPart(G.mask, G.full)

---------------------------------------------------------------------------
(* values *)
Missing        == [shape |-> <<>>, data |-> <<MaskedV>>]
IsBlock(G, v)  == v.shape = G.internal /\ Len(v.data) = Prod(G.internal) /\ \A i \in DOMAIN v.data : v.data[i] > 0 \/ v.data[i] = NoneElem
AllMissing(G)  == [p \in IndexSet(G.shape) |-> Missing]
NewState(G)    == [w |-> AllMissing(G), p |-> AllMissing(G)]

ArrOut(shape, data) == [exc |-> "", shape |-> shape, data |-> data, elems |-> <<>>]
Raise(cls)          == [exc |-> cls, shape |-> <<>>, data |-> <<>>, elems |-> <<>>]

---------------------------------------------------------------------------
(* keys *)
IsInt(c)   == Len(c) = 1
IsSlice(c) == Len(c) = 3

(* range(a, b, st) *)
RangeSeq(a, b, st) ==
    LET n == IF st > 0 THEN (IF b > a THEN (b - a + st - 1) \div st ELSE 0)
                       ELSE (IF a > b THEN (a - b - st - 1) \div (-st) ELSE 0)
    IN  [k \in 1..n |-> a + (k - 1) * st]

(* CPython slice.indices(n) (sliceobject.c, _PySlice_GetLongIndices), step # 0 *)
SliceTriple(s, n) ==
    LET step  == IF s[3] = NoneMark THEN 1 ELSE s[3]
        neg   == step < 0
        lower == IF neg THEN -1 ELSE 0
        upper == IF neg THEN n - 1 ELSE n
        Clip(x, dflt) == IF x = NoneMark THEN dflt
                         ELSE IF x < 0 THEN (IF x + n < lower THEN lower ELSE x + n)
                         ELSE (IF x > upper THEN upper ELSE x)
    IN  <<Clip(s[1], IF neg THEN upper ELSE lower), Clip(s[2], IF neg THEN lower ELSE upper), step>>
SliceIndices(s, n) == LET t == SliceTriple(s, n) IN RangeSeq(t[1], t[2], t[3])   \* range(*slice.indices(n))

(* normalize_key: every component is checked against the size of ITS OWN axis; for a dump the key   *)
(* ranges over the external axes only, for __getitem__ over the full interleaved shape.             *)
KeySizes(G, forDump) == IF forDump THEN G.shape ELSE G.full
IntOK(c, n)          == -n <= c[1] /\ c[1] < n
NormalizeKey(G, key, forDump) ==
    LET sizes == KeySizes(G, forDump) IN
    IF Len(key) # Len(sizes) THEN [exc |-> "IndexError", key |-> <<>>]                  \* wrong rank
    ELSE IF \E k \in DOMAIN key : IsInt(key[k]) /\ ~IntOK(key[k], sizes[k])
         THEN [exc |-> "IndexError", key |-> <<>>]                                      \* out of range
    ELSE [exc |-> "",
          key |-> [k \in DOMAIN key |-> IF IsInt(key[k]) /\ key[k][1] < 0 THEN <<key[k][1] + sizes[k]>> ELSE key[k]]]

AxisIndices(c, n) == IF IsSlice(c) THEN SliceIndices(c, n) ELSE c
(* the indices a normalised key selects, in row-major order of the selection *)
Cells(nkey, sizes) ==
    LET ax   == [k \in DOMAIN nkey |-> AxisIndices(nkey[k], sizes[k])]
        dims == [k \in DOMAIN nkey |-> Len(ax[k])]
        str  == Strides(dims)
    IN  [i \in 1..Prod(dims) |-> [k \in DOMAIN nkey |-> ax[k][(((i - 1) \div str[k]) % dims[k]) + 1]]]
SlicedShape(nkey, sizes) ==        \* integer components drop their axis, slices keep theirs
    LET pos == SelectSeq([k \in 1..Len(nkey) |-> k], LAMBDA k : IsSlice(nkey[k]))
    IN  [j \in 1..Len(pos) |-> Len(SliceIndices(nkey[pos[j]], sizes[pos[j]]))]

---------------------------------------------------------------------------
(* mutators; w is `written` *)
DumpCells(G, key) == LET nk == NormalizeKey(G, key, TRUE) IN
                     IF nk.exc # "" THEN {} ELSE Range(Cells(nk.key, G.shape))
Dump(G, w, key, v) ==            \* v is a Block; every selected external index receives v
    LET nk == NormalizeKey(G, key, TRUE) IN
    IF nk.exc # "" THEN [exc |-> nk.exc, w |-> w]
    ELSE LET cs == Range(Cells(nk.key, G.shape))
         IN  [exc |-> "", w |-> [p \in DOMAIN w |-> IF p \in cs THEN v ELSE w[p]]]

Persist(st)       == [st EXCEPT !.p = st.w]
Reopen(st)        == [st EXCEPT !.w = st.p]        \* a fresh object on the same folder
PersistReopen(st) == Reopen(Persist(st))

---------------------------------------------------------------------------
(* observers *)
Elem(G, w, p) ==                 \* p: full index
    LET b == w[ExtOf(G, p)] IN
    IF b = Missing THEN MaskedV ELSE b.data[Dot(IntOf(G, p), G.istrides) + 1]

GetItem(G, w, key) ==
    LET nk == NormalizeKey(G, key, FALSE) IN
    IF nk.exc # "" THEN Raise(nk.exc)
    ELSE LET full == Full(G)
             cs   == Cells(nk.key, full)
         IN  ArrOut(SlicedShape(nk.key, full), [i \in DOMAIN cs |-> Elem(G, w, cs[i])])

Splat(G, splat) == IF splat = "none" THEN G.internal # <<>> ELSE splat = "true"
ToArray(G, w, splat) ==
    IF Splat(G, splat)
    THEN IF G.internal = <<>> THEN Raise("ValueError")
         ELSE LET is == IndexSeq(Full(G)) IN ArrOut(Full(G), [i \in DOMAIN is |-> Elem(G, w, is[i])])
    ELSE LET is == IndexSeq(G.shape)
         IN  [exc |-> "", shape |-> G.shape, data |-> <<>>, elems |-> [i \in DOMAIN is |-> w[is[i]]]]

MaskLinear(G, w)  == LET is == IndexSeq(G.shape) IN [i \in DOMAIN is |-> IF w[is[i]] = Missing THEN 1 ELSE 0]
MaskArr(G, w)     == ArrOut(G.shape, MaskLinear(G, w))
HasIndex(G, w, i) == IF w[Unravel(i, G.shape)] = Missing THEN 0 ELSE 1            \* i \in 0..Size(G)-1
GetFromIndex(G, w, i) == LET b == w[Unravel(i, G.shape)] IN
                         IF b = Missing THEN Raise("Raises")      \* class not fixed by the property
                         ELSE ArrOut(b.shape, b.data)

(* everything the public API shows without changing the array *)
Observe(G, w, gkeys) ==
    [get      |-> [i \in DOMAIN gkeys |-> GetItem(G, w, gkeys[i])],
     ta_none  |-> ToArray(G, w, "none"),
     ta_true  |-> ToArray(G, w, "true"),
     ta_false |-> ToArray(G, w, "false"),
     mask     |-> MaskArr(G, w),
     ml       |-> ArrOut(<<Size(G)>>, MaskLinear(G, w)),
     has      |-> [i \in 1..Size(G) |-> HasIndex(G, w, i - 1)],
     gfi      |-> [i \in 1..Size(G) |-> GetFromIndex(G, w, i - 1)]]

---------------------------------------------------------------------------
(* key alphabets *)
N == NoneMark
SliceSeq      == << <<N, N, N>>, <<0, 1, N>>, <<1, N, N>>, <<N, N, 2>>, <<N, N, -1>>, <<N, -1, N>> >>
SliceAlphabet == Range(SliceSeq)                       \*  :   0:1   1:   ::2   ::-1   :-1
InRangeInts(n)  == {<<i>> : i \in (-n)..(n - 1)}
OutRangeInts(n) == {<<n>>, <<-n - 1>>}
CompAlphabet(n) == InRangeInts(n) \cup OutRangeInts(n) \cup SliceAlphabet
Tuples(sizes, A(_)) == {t \in [1..Len(sizes) -> UNION {A(sizes[k]) : k \in DOMAIN sizes}] :
                            \A k \in DOMAIN sizes : t[k] \in A(sizes[k])}
WrongRankKeys(sizes) == {[k \in 1..(Len(sizes) - 1) |-> <<N, N, N>>], [k \in 1..(Len(sizes) + 1) |-> <<0>>]}
(* every key over axes `sizes`: all ints/negatives, the two nearest out-of-range ints, the slice alphabet *)
AllKeys(sizes) == Tuples(sizes, CompAlphabet) \cup WrongRankKeys(sizes)

(* Bounded representative set of __getitem__ keys observed after every step (AllKeys grows as 12^rank): *)
(*  G1 every cell by its non-negative integer index                                                     *)
(*  G2 for every axis: every component of its alphabet (ints, negatives, out-of-range, slices), the     *)
(*     other axes held at <<-1>> resp. at ':'                                                           *)
(*  G3 the two wrong-rank keys                                                                          *)
(*  G4 six all-slice keys: axis k takes slice number (k + j) of the alphabet                            *)
ObsGetKeys(full) ==
    LET r == Len(full) IN
         {[k \in 1..r |-> <<p[k]>>] : p \in IndexSet(full)}
    \cup UNION {{[k \in 1..r |-> IF k = a THEN c ELSE base] : c \in CompAlphabet(full[a]), base \in {<<-1>>, <<N, N, N>>}}
                : a \in 1..r}
    \cup WrongRankKeys(full)
    \cup {[k \in 1..r |-> SliceSeq[((k + j) % 6) + 1]] : j \in 0..5}

---------------------------------------------------------------------------
(* Laws (state predicates over a geometry G, a state w and a set of __getitem__ keys K) *)
IntKey(p) == [k \in DOMAIN p |-> <<p[k]>>]

(* a key raises exactly when its rank is wrong or an integer leaves the range of its own axis *)
LawErrors(G, w, K) ==
    \A key \in K : (GetItem(G, w, key).exc = "IndexError") <=>
        (\/ Len(key) # Len(Full(G))
         \/ \E k \in DOMAIN key : IsInt(key[k]) /\ ~(-Full(G)[k] <= key[k][1] /\ key[k][1] < Full(G)[k]))

(* unwritten => masked, written => the element of the dumped block (read-your-writes, per cell) *)
LawCells(G, w) ==
    \A p \in IndexSet(Full(G)) :
        LET b == w[ExtOf(G, p)]
            r == GetItem(G, w, IntKey(p))
        IN  /\ r.exc = "" /\ r.shape = <<>>
            /\ (b = Missing) => r.data = <<MaskedV>>
            /\ (b # Missing) => r.data = <<b.data[Lin(IntOf(G, p), G.internal) + 1]>> /\ (r.data[1] > 0 \/ r.data[1] = NoneElem)

(* a negative integer addresses the same element as its non-negative equivalent *)
LawNegative(G, w) ==
    \A p \in IndexSet(Full(G)) : \A a \in DOMAIN p :
        GetItem(G, w, [IntKey(p) EXCEPT ![a] = <<p[a] - Full(G)[a]>>]) = GetItem(G, w, IntKey(p))

(* __getitem__ on a key with slices = the array of __getitem__ on its members; its shape = the sliced axes *)
LawSlices(G, w, K) ==
    \A key \in K :
        LET r == GetItem(G, w, key) IN
        r.exc = "" =>
            LET full == Full(G)
                ax   == [k \in DOMAIN key |-> IF IsSlice(key[k]) THEN SliceIndices(key[k], full[k])
                                              ELSE <<IF key[k][1] < 0 THEN key[k][1] + full[k] ELSE key[k][1]>>]
                dims == [k \in DOMAIN key |-> Len(ax[k])]
                pos  == SelectSeq([k \in 1..Len(key) |-> k], LAMBDA k : IsSlice(key[k]))
            IN  /\ r.shape = [j \in 1..Len(pos) |-> dims[pos[j]]]
                /\ Len(r.data) = Prod(dims)
                /\ \A i \in 1..Prod(dims) :
                      LET q == Unravel(i - 1, dims) IN
                      <<r.data[i]>> = GetItem(G, w, [k \in DOMAIN key |-> <<ax[k][q[k] + 1]>>]).data

(* mask_linear is row-major over the EXTERNAL shape; mask, has_index, get_from_index agree with it *)
LawMask(G, w) ==
    /\ \A p \in IndexSet(G.shape) : (MaskLinear(G, w)[Lin(p, G.shape) + 1] = 1) <=> (w[p] = Missing)
    /\ MaskArr(G, w).data = MaskLinear(G, w) /\ MaskArr(G, w).shape = G.shape
    /\ \A i \in 0..(Size(G) - 1) :
          /\ (HasIndex(G, w, i) = 1) <=> (MaskLinear(G, w)[i + 1] = 0)
          /\ (GetFromIndex(G, w, i).exc = "") <=> (HasIndex(G, w, i) = 1)
          /\ (HasIndex(G, w, i) = 1) => GetFromIndex(G, w, i).data = w[Unravel(i, G.shape)].data

(* to_array: splatted = the full array of elements = arr[:, ..., :]; un-splatted = the external array of blocks *)
LawToArray(G, w) ==
    /\ (G.internal # <<>>) =>
          /\ ToArray(G, w, "true") = GetItem(G, w, [k \in DOMAIN Full(G) |-> <<N, N, N>>])
          /\ ToArray(G, w, "none") = ToArray(G, w, "true")
          /\ \A p \in IndexSet(Full(G)) :
                <<ToArray(G, w, "true").data[Lin(p, Full(G)) + 1]>> = GetItem(G, w, IntKey(p)).data
    /\ (G.internal = <<>>) => ToArray(G, w, "true").exc = "ValueError" /\ ToArray(G, w, "none") = ToArray(G, w, "false")
    /\ LET u == ToArray(G, w, "false") IN
          /\ u.shape = G.shape
          /\ \A p \in IndexSet(G.shape) : u.elems[Lin(p, G.shape) + 1] = w[p]

(* a dump changes exactly the selected cells (frame), all of them to v (read-your-writes, per key), *)
(* and a refused dump changes nothing                                                               *)
LawDump(G, w0, key, v) ==
    LET d == Dump(G, w0, key, v) IN
    /\ d.exc # "" => d.w = w0
    /\ d.exc = "" => /\ \A p \in DOMAIN w0 : IF p \in DumpCells(G, key) THEN d.w[p] = v ELSE d.w[p] = w0[p]
                     /\ \A p \in IndexSet(Full(G)) :
                           ExtOf(G, p) \in DumpCells(G, key) =>
                              GetItem(G, d.w, IntKey(p)).data = <<v.data[Lin(IntOf(G, p), G.internal) + 1]>>
    /\ (d.exc = "IndexError") <=>
          (\/ Len(key) # Len(G.shape)
           \/ \E k \in DOMAIN key : IsInt(key[k]) /\ ~(-G.shape[k] <= key[k][1] /\ key[k][1] < G.shape[k]))
=============================================================================
