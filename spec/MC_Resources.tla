---------------------------- MODULE MC_Resources ----------------------------
(***************************************************************************)
(* Model-checking instance of Resources (property C20).                     *)
(*                                                                          *)
(* Mechanism A (universe export), selected by the constant Mode:            *)
(*   "ctor"     every constructor-argument record of CtorUniverse           *)
(*              -> must it be accepted (Valid) or rejected                   *)
(*   "dict"     every valid record of DictUniverse -> dict() keys,          *)
(*              from_dict round trip, to_slurm_options mentions             *)
(*   "cmax"     every operand list of length MinOps..NOps over the pool    *)
(*              `Pool` -> combine_max                                       *)
(*   "defaults" every (receiver, defaults) pair of PoolR x PoolD            *)
(*   "update"   every (receiver, kwargs) pair of PoolU x Kw                 *)
(* One state per case (`case`, `out`), laws are INVARIANTs, `Emit` prints   *)
(* the expected result of every case for the harness.                       *)
(*                                                                          *)
(* Mode "hist" is the side-effect-freedom state machine: objs grows by one   *)
(* id per combinator call, nothing that exists ever changes (StepUnchanged); *)
(* every call sequence of length Depth is printed and replayed on the real   *)
(* class, the recorded snapshots are validated by TraceResources.            *)
(*                                                                          *)
(* Thorough = TRUE enlarges the universes.  Cases with case-index sum        *)
(* congruent to Shard modulo NShards are explored by one TLC process.        *)
(***************************************************************************)
EXTENDS Resources, Json, SequencesExt
CONSTANTS Mode, Pool, MinOps, NOps, Depth, Thorough, Shard, NShards
VARIABLES case, out, objs, hist
vars == <<case, out, objs, hist>>

---------------------------------------------------------------------------
(* token constructors *)
Mem(n, u) == [pre |-> "", ip |-> n[1], ipd |-> n[2], dot |-> n[3], fp |-> n[4], fpd |-> n[5],
              unit |-> u, post |-> ""]
N(i)      == <<i, IF i >= 1000 THEN 4 ELSE IF i >= 100 THEN 3 ELSE IF i >= 10 THEN 2 ELSE 1, 0, 0, 0>>
T(fs)     == [pre |-> "", f |-> fs, post |-> ""]
F2(x)     == <<x, 2>>
F1(x)     == <<x, 1>>

(* memory: {B..PB} x {1, 1.5, 2, 10, 512, 1000} *)
MemNums  == {N(1), <<1, 1, 1, 5, 1>>, N(2), N(10), N(512), N(1000)}
MemValid == {Mem(n, u) : n \in MemNums, u \in RangeOf(Units)}
MemBad   == { Mem(N(16), "XYZ"),                                   \* "16XYZ"
              Mem(<<0, 0, 0, 0, 0>>, "GB"),                        \* "GB"
              Mem(<<0, 0, 0, 0, 0>>, ""),                          \* ""
              Mem(N(2), ""),                                       \* "2"
              Mem(<<1, 1, 1, 5, 1>>, ""),                          \* "1.5"
              Mem(<<1, 1, 1, 0, 0>>, "GB"),                        \* "1.GB"
              Mem(<<0, 0, 1, 5, 1>>, "GB"),                        \* ".5GB"
              Mem(N(2), "GiB"), Mem(N(2), "G"), Mem(N(2), "XB"), Mem(N(2), "BB"),
              [Mem(N(2), "GB") EXCEPT !.pre = "-"],                \* "-2GB"
              [Mem(N(2), "GB") EXCEPT !.pre = " "],                \* " 2GB"
              [Mem(N(2), "GB") EXCEPT !.post = " "],               \* "2GB "
              [Mem(N(2), "GB") EXCEPT !.post = "\n"],              \* "2GB\n"
              [Mem(N(2), "") EXCEPT !.post = " GB"],               \* "2 GB"
              [Mem(N(1), "e") EXCEPT !.post = "3GB"] }             \* "1e3GB"

(* time: the four documented formats; chosen so that string order # duration order and so that     *)
(* equal durations have different spellings                                                        *)
TimeValid == { T(<<F2(30), F2(0)>>),                 \* "30:00"
               T(<<F2(5), F2(30)>>),                 \* "05:30"
               T(<<F2(59), F2(59)>>),                \* "59:59"      > "1:00:00" as a string
               T(<<F1(1), F2(0), F2(0)>>),           \* "1:00:00"
               T(<<F1(2), F2(0), F2(0)>>),           \* "2:00:00"    > "10:00:00" as a string
               T(<<F2(2), F2(0), F2(0)>>),           \* "02:00:00"   = "2:00:00"
               T(<<F1(9), F2(59), F2(59)>>),         \* "9:59:59"    > "23:00:00" as a string
               T(<<F2(10), F2(0), F2(0)>>),          \* "10:00:00"
               T(<<F2(23), F2(0), F2(0)>>),          \* "23:00:00"
               T(<<F1(0), F2(12), F2(0), F2(0)>>),   \* "0:12:00:00" < "2:00:00" as a string
               T(<<F1(1), F2(0), F2(0), F2(0)>>),    \* "1:00:00:00" < everything above as a string
               T(<<F1(2), F2(3), F2(4), F2(5)>>) }   \* "2:03:04:05"
TimeBad   == { T(<<<<0, 0>>>>),                                  \* ""
               T(<<F2(30)>>),                                    \* "30"
               T(<<<<-1, -1>>>>),                                \* "invalid"
               T(<<F1(5), F2(0)>>),                              \* "5:00"
               T(<<<<100, 3>>, F2(0)>>),                         \* "100:00"
               T(<<F2(12), <<0, 3>>>>),                          \* "12:000"
               T(<<F2(12), F1(0)>>),                             \* "12:0"
               T(<<F1(1), F1(5), F2(0)>>),                       \* "1:5:00"
               T(<<F1(1), F2(0), F1(0)>>),                       \* "1:00:0"
               T(<<<<0, 0>>, F2(0), F2(0)>>),                    \* ":00:00"
               T(<<F1(1), <<0, 0>>, F2(0)>>),                    \* "1::00"
               T(<<F2(10), F2(0), <<0, 0>>>>),                   \* "10:00:"
               T(<<F1(1), F1(1), F2(0), F2(0)>>),                \* "1:1:00:00"
               T(<<F1(1), F2(0), F2(0), F1(0)>>),                \* "1:00:00:0"
               T(<<F1(1), F2(0), F2(0), F2(0), F2(0)>>),         \* "1:00:00:00:00"
               T(<<<<-1, -1>>, <<-1, -1>>>>),                    \* "ab:ab"
               T(<<F2(10), <<-1, -1>>>>),                        \* "10:ab"
               [T(<<F2(10), F2(0)>>) EXCEPT !.post = "\n"],      \* "10:00\n"
               [T(<<F2(10), F2(0)>>) EXCEPT !.post = " "],       \* "10:00 "
               [T(<<F2(10), F2(0)>>) EXCEPT !.pre = " "],        \* " 10:00"
               [T(<<F2(10), F2(0)>>) EXCEPT !.pre = "-"] }       \* "-10:00"

M(n, u) == <<Mem(n, u)>>
K1 == "k1" :> 1
K2 == "k2" :> 2
K12 == "k1" :> 5 @@ "k2" :> 2

(* calibration against the repository's literal examples *)
ASSUME MemCmp(Mem(N(2), "GB"), Mem(N(1024), "MB")) = 1
ASSUME MemCmp(Mem(<<0, 1, 1, 5, 1>>, "TB"), Mem(N(2), "GB")) = 1
ASSUME MemCmp(Mem(N(1000), "MB"), Mem(N(1), "GB")) = 0 /\ MemCmp(Mem(N(1), "PB"), Mem(N(1000), "TB")) = 0
ASSUME MemCmp(Mem(N(1000), "B"), Mem(N(1), "PB")) = -1 /\ MemCmp(Mem(N(1), "PB"), Mem(N(1000), "B")) = 1
ASSUME MemCmp(Mem(<<1, 1, 1, 5, 1>>, "GB"), Mem(N(1000), "MB")) = 1
ASSUME MemCmp(Mem(N(512), "KB"), Mem(N(1), "MB")) = -1 /\ MemCmp(Mem(N(1), "KB"), Mem(N(512), "B")) = 1
ASSUME Mode = "ctor" => \A a, b \in MemValid : MemCmp(a, b) = 0 - MemCmp(b, a)
ASSUME Mode = "ctor" => \A a, b, c \in MemValid : (MemCmp(a, b) >= 0 /\ MemCmp(b, c) >= 0) => MemCmp(a, c) >= 0
ASSUME \A m \in MemValid : MemWellFormed(m) /\ MemInScope(m)
ASSUME \A m \in MemBad : ~MemWellFormed(m) /\ MemInScope(m)
ASSUME \A t \in TimeValid : TimeWellFormed(t) /\ TimeInScope(t)
ASSUME \A t \in TimeBad : ~TimeWellFormed(t) /\ TimeInScope(t)
ASSUME Seconds(T(<<F1(2), F2(0), F2(0)>>)) = 7200 /\ Seconds(T(<<F2(48), F2(0), F2(0)>>)) = 172800
ASSUME Seconds(T(<<F1(2), F2(3), F2(4), F2(5)>>)) = 183845 /\ Seconds(T(<<F2(59), F2(59)>>)) = 3599
ASSUME TimeCmp(T(<<F1(2), F2(0), F2(0)>>), T(<<F2(10), F2(0), F2(0)>>)) = -1

---------------------------------------------------------------------------
(* Resources records *)
IntVals == {NoneI} \cup (-1 .. 3)
Ints(c, g, n, p) == [Blank EXCEPT !.cpus = c, !.gpus = g, !.nodes = n, !.cpus_per_node = p]
AllInts   == {Ints(c, g, n, p) : c \in IntVals, g \in IntVals, n \in IntVals, p \in IntVals}
ValidInts == {r \in AllInts : Valid(r)}                       \* 80 records over 0..3

SomeMem  == {<<>>, M(<<1, 1, 1, 5, 1>>, "GB"), M(N(512), "MB"), M(N(1000), "KB")}
SomeTime == {<<>>, <<T(<<F1(2), F2(0), F2(0)>>)>>, <<T(<<F2(10), F2(0), F2(0)>>)>>, <<T(<<F2(59), F2(59)>>)>>}

CtorUniverse ==
    AllInts
    \cup {[Blank EXCEPT !.memory = <<m>>] : m \in MemValid \cup MemBad}
    \cup {[Blank EXCEPT !.time = <<t>>] : t \in TimeValid \cup TimeBad}
    \cup {[b EXCEPT !.memory = m, !.time = t] :
             b \in {Blank, Ints(2, NoneI, NoneI, NoneI), Ints(NoneI, 0, 2, 2), Ints(2, 1, 1, NoneI),
                    Ints(NoneI, NoneI, NoneI, 2)},
             m \in SomeMem \cup {<<Mem(N(2), "GiB")>>, <<[Mem(N(2), "GB") EXCEPT !.post = "\n"]>>},
             t \in SomeTime \cup {<<T(<<F1(5), F2(0)>>)>>, <<[T(<<F2(10), F2(0)>>) EXCEPT !.post = "\n"]>>}}

DictUniverse ==
    {[b EXCEPT !.memory = m, !.time = t, !.partition = p, !.extra = x, !.mode = md] :
        b \in ValidInts, m \in SomeMem, t \in SomeTime, p \in {"", "part"},
        x \in {Empty, K1, K2, K12}, md \in IF Thorough THEN {"external", "internal"} ELSE {"external"}}

(* operand pools for combine_max (sequences, cases refer to positions) *)
PoolSet(name) ==
    CASE name = "ints"  ->                                             \* integer quantities
            IF Thorough THEN ValidInts
            ELSE {Ints(c, g, NoneI, NoneI) : c \in {NoneI, 1, 2, 3}, g \in {NoneI, 0, 2, 3}}
                 \cup {Ints(NoneI, NoneI, 2, NoneI), Ints(NoneI, 1, 1, 3)}
      [] name = "mem"   -> {[Blank EXCEPT !.memory = <<m>>] : m \in MemValid} \cup {Blank}
      [] name = "mem18" -> {[Blank EXCEPT !.memory = <<Mem(n, u)>>] :
                               n \in {N(1), <<1, 1, 1, 5, 1>>, N(1000)}, u \in RangeOf(Units)} \cup {Blank}
      [] name = "time"  -> {[Blank EXCEPT !.time = <<t>>] : t \in TimeValid} \cup {Blank}
      [] name = "mixed" ->
            {[Ints(c, NoneI, NoneI, NoneI) EXCEPT !.memory = m, !.time = t, !.partition = px[1], !.extra = px[2]] :
                c \in {NoneI, 2}, m \in {<<>>, M(<<1, 1, 1, 5, 1>>, "GB")},
                t \in {<<>>, <<T(<<F2(10), F2(0), F2(0)>>)>>},
                px \in {<<"", Empty>>, <<"p", K1>>, <<"q", K12>>}}
      [] name = "mixed2" ->                                            \* different values, for ties and order
            {[Ints(c, g, NoneI, NoneI) EXCEPT !.memory = m, !.time = t, !.partition = px[1], !.extra = px[2]] :
                c \in {1, 3}, g \in {NoneI, 0}, m \in {M(N(1000), "MB"), M(N(1), "GB"), M(N(2), "GB")},
                t \in {<<T(<<F1(2), F2(0), F2(0)>>)>>, <<T(<<F2(2), F2(0), F2(0)>>)>>,
                       <<T(<<F2(10), F2(0), F2(0)>>)>>},
                px \in {<<"", K2>>, <<"p", K1>>}}
PoolSeq == IF Mode = "cmax" THEN SetToSeq(PoolSet(Pool)) ELSE <<>>
Operands(c) == [i \in DOMAIN c |-> PoolSeq[c[i]]]
CmaxUniverse == UNION {{c \in [1..n -> 1..Len(PoolSeq)] : c[1] % NShards = Shard} : n \in MinOps..NOps}

(* receivers / defaults for with_defaults: the two pools use different values in every field *)
PoolRSet ==
    {[b EXCEPT !.memory = m, !.time = t, !.partition = pxm[1], !.extra = pxm[2], !.mode = pxm[3]] :
        b \in {Ints(c, g, NoneI, NoneI) : c \in {NoneI, 2}, g \in {NoneI, 0, 1}}
              \cup {Ints(NoneI, g, 2, p) : g \in {NoneI, 0, 1}, p \in {NoneI, 3}},
        m \in {<<>>, M(<<1, 1, 1, 5, 1>>, "GB")}, t \in {<<>>, <<T(<<F1(2), F2(0), F2(0)>>)>>},
        pxm \in {<<"", Empty, "external">>, <<"p", K1, "internal">>, <<"q", K12, "external">>}}
PoolDSet ==
    {[b EXCEPT !.memory = m, !.time = t, !.partition = pxm[1], !.extra = pxm[2], !.mode = pxm[3]] :
        b \in {Ints(c, g, NoneI, NoneI) : c \in {NoneI, 3}, g \in {NoneI, 0, 2}}
              \cup {Ints(NoneI, g, 1, p) : g \in {NoneI, 0, 2}, p \in {NoneI, 2}},
        m \in {<<>>, M(N(512), "MB")}, t \in {<<>>, <<T(<<F2(30), F2(0)>>)>>},
        pxm \in IF Thorough
                THEN {<<"", Empty, "external">>, <<"dp", "k1" :> 7 @@ "k2" :> 8, "internal">>,
                      <<"dp", "k2" :> 8, "external">>, <<"", "k1" :> 7, "internal">>}
                ELSE {<<"", Empty, "external">>, <<"dp", "k1" :> 7 @@ "k2" :> 8, "internal">>}}
PoolR == IF Mode = "defaults" THEN SetToSeq(PoolRSet) ELSE <<>>
PoolD == IF Mode = "defaults" THEN SetToSeq(PoolDSet) ELSE <<>>
DefaultsUniverse == {c \in (1..Len(PoolR)) \X (1..Len(PoolD)) : c[1] % NShards = Shard}

(* update: receivers and keyword-argument lists *)
PoolUSet ==
    {[b EXCEPT !.memory = m, !.time = t, !.partition = px[1], !.extra = px[2]] :
        b \in {Blank, Ints(2, NoneI, NoneI, NoneI), Ints(NoneI, 0, NoneI, NoneI), Ints(NoneI, 1, 2, 3),
               Ints(1, 3, NoneI, NoneI), Ints(NoneI, NoneI, 1, NoneI)},
        m \in {<<>>, M(<<1, 1, 1, 5, 1>>, "GB")}, t \in {<<>>, <<T(<<F1(2), F2(0), F2(0)>>)>>},
        px \in {<<"", Empty>>, <<"p", K1>>, <<"q", K12>>}}
PoolU == IF Mode = "update" THEN SetToSeq(PoolUSet) ELSE <<>>
Kw == << <<>>,
         << <<"cpus", 3>> >>, << <<"cpus", 0>> >>, << <<"cpus", NoneI>> >>,
         << <<"gpus", 0>> >>, << <<"gpus", 2>>, <<"cpus", 1>> >>,
         << <<"nodes", 2>> >>, << <<"nodes", 2>>, <<"cpus_per_node", 1>> >>, << <<"cpus_per_node", 2>> >>,
         << <<"nodes", NoneI>>, <<"cpus_per_node", NoneI>>, <<"cpus", 2>> >>,
         << <<"memory", M(N(10), "TB")>> >>, << <<"memory", <<Mem(N(2), "GiB")>>>> >>, << <<"memory", <<>>>> >>,
         << <<"time", <<T(<<F2(10), F2(0), F2(0)>>)>>>> >>, << <<"time", <<T(<<F1(5), F2(0)>>)>>>> >>,
         << <<"partition", "new">> >>,
         << <<"foo", 3>> >>, << <<"k1", 9>> >>, << <<"foo", 3>>, <<"bar", 4>> >>,
         << <<"extra_args", "k2" :> 9>> >>, << <<"extra_args", Empty>> >>,
         << <<"extra_args", "k1" :> 4>>, <<"foo", 3>> >>,
         << <<"foo", 3>>, <<"extra_args", "foo" :> 4>> >>,
         << <<"extra_args", "foo" :> 4>>, <<"foo", 3>> >>,
         << <<"cpus", 3>>, <<"memory", M(N(512), "MB")>>, <<"extra_args", "k2" :> 9>>, <<"foo", 3>> >>,
         << <<"mode", "internal">> >> >>
UpdateUniverse == (1..Len(PoolU)) \X (1..Len(Kw))

---------------------------------------------------------------------------
(* JSON shape of a Resources record: extra as a set of <<key, value>> pairs (an empty JSON object   *)
(* has no stable TLA+ reading), everything else as in the record                                   *)
Pairs(f) == {<<k, f[k]>> : k \in DOMAIN f}
Enc(r)   == [cpus |-> r.cpus, gpus |-> r.gpus, nodes |-> r.nodes, cpus_per_node |-> r.cpus_per_node,
             memory |-> r.memory, time |-> r.time, partition |-> r.partition, extra |-> Pairs(r.extra),
             mode |-> r.mode]
EncKw(kw) == [i \in DOMAIN kw |-> IF kw[i][1] = "extra_args" THEN <<kw[i][1], Pairs(kw[i][2])>> ELSE kw[i]]
B(x) == IF x THEN 1 ELSE 0

Out(c) ==
    CASE Mode = "ctor" -> [valid |-> B(Valid(c))]
      [] Mode = "dict" -> [keys |-> DictKeys(c), mentions |-> SlurmMentions(c)]
      [] Mode = "cmax" -> CombineMax(Operands(c))
      [] Mode = "defaults" -> WithDefaults(PoolR[c[1]], PoolD[c[2]])
      [] Mode = "update" -> Update(PoolU[c[1]], Kw[c[2]])

Universe ==
    CASE Mode = "ctor" -> CtorUniverse
      [] Mode = "dict" -> DictUniverse
      [] Mode = "cmax" -> CmaxUniverse
      [] Mode = "defaults" -> DefaultsUniverse
      [] Mode = "update" -> UpdateUniverse

---------------------------------------------------------------------------
(* the history machine *)
HA == [Ints(2, NoneI, NoneI, NoneI) EXCEPT !.memory = M(<<1, 1, 1, 5, 1>>, "GB"),
                                           !.time = <<T(<<F1(2), F2(0), F2(0)>>)>>, !.extra = K1]
HB == [Ints(NoneI, 1, NoneI, NoneI) EXCEPT !.memory = M(N(512), "MB"),
                                           !.time = <<T(<<F2(10), F2(0), F2(0)>>)>>, !.partition = "p"]
HC == [Ints(NoneI, NoneI, 2, 2) EXCEPT !.extra = K12, !.mode = "internal"]
Starts == << <<HA, HB>>, <<HA, HC>>, <<Blank, HB>>, <<HC, Blank>> >>
KwH == << << <<"foo", 3>> >>,
          << <<"cpus", 3>> >>,
          << <<"extra_args", "k2" :> 9>> >>,
          << <<"extra_args", "k1" :> 4>>, <<"bar", 5>> >>,
          << <<"bar", 5>>, <<"extra_args", "bar" :> 6>> >>,
          << <<"nodes", 2>> >>,
          << <<"time", <<T(<<F1(1), F2(0), F2(0), F2(0)>>)>>>>, <<"memory", M(N(2), "TB")>> >>,
          << <<"gpus", 0>>, <<"k1", 8>> >> >>
IdSeqs(n) == {<<i>> : i \in 1..n} \cup {<<i, j>> : i, j \in 1..n}
OpsAt(n) ==
    {[op |-> "update", a |-> <<i>>, kwi |-> k] : i \in 1..n, k \in 1..Len(KwH)}
    \cup {[op |-> "combine_max", a |-> s, kwi |-> 0] : s \in IdSeqs(n)}
    \cup {[op |-> "with_defaults", a |-> <<i, j>>, kwi |-> 0] : i, j \in 1..n}
    \cup {[op |-> "roundtrip", a |-> <<i>>, kwi |-> 0] : i \in 1..n}
WithKw(o) == [op |-> o.op, a |-> o.a, kw |-> IF o.kwi = 0 THEN <<>> ELSE KwH[o.kwi]]

HistInit == /\ \E s \in {i \in DOMAIN Starts : i % NShards = Shard} :
                   /\ objs = Starts[s]
                   /\ hist = <<[op |-> "start", a |-> <<s>>, kwi |-> 0]>>
            /\ case = 0 /\ out = 0
HistNext == /\ Len(hist) < Depth + 1
            /\ \E o \in OpsAt(Len(objs)) :
                   /\ objs' = Apply(objs, WithKw(o))
                   /\ hist' = Append(hist, o)
            /\ UNCHANGED <<case, out>>

---------------------------------------------------------------------------
Init == IF Mode = "hist" THEN HistInit
        ELSE case \in Universe /\ out = Out(case) /\ objs = <<>> /\ hist = <<>>
Next == IF Mode = "hist" THEN HistNext ELSE UNCHANGED vars
Spec == Init /\ [][Next]_vars

(* ---- laws (INVARIANTs, one state = one case) ---- *)
LawCombineMaxGE ==        \* at least as large as every operand: cpus, gpus, memory by size, time by duration
    Mode = "cmax" => \A i \in DOMAIN case : GE(out, PoolSeq[case[i]])
LawCombineMaxTight ==     \* ... and every quantity of the result is some operand's
    Mode = "cmax" => /\ Tight(out, Operands(case)) /\ Valid(out) /\ CombineMaxOK(Operands(case), out)
LawCombineMaxOrderFree == \* the quantities do not depend on the operand order (checked against the reversal)
    Mode = "cmax" => LET rev == CombineMax(Reverse(Operands(case)))
                     IN  /\ rev.cpus = out.cpus /\ rev.gpus = out.gpus
                         /\ (IsSetO(out.memory) => MemCmp(Val(rev.memory), Val(out.memory)) = 0)
                         /\ (IsSetO(out.time) => TimeCmp(Val(rev.time), Val(out.time)) = 0)
LawWithDefaults ==        \* keeps what the receiver sets, fills what it does not
    Mode = "defaults" => LET r == PoolR[case[1]]  d == PoolD[case[2]]
                         IN  /\ KeepsAndFills(r, d, out) /\ WithDefaultsOK(r, d, out)
                             /\ \A k \in QFields : IsSet(r, k) => out[k] = r[k]
                             /\ \A k \in QFields : ~IsSet(r, k) => out[k] = d[k]
LawRoundTrip ==           \* from_dict(dict(r)) = r
    Mode = "dict" => /\ Valid(case) /\ FromDict(Dict(case)) = case
                     /\ \A k \in DOMAIN Dict(case) : Dict(case)[k] = case[k]
LawUpdateNew ==           \* update with no arguments is the identity; updates of distinct fields commute with from_dict
    Mode = "update" => /\ Update(PoolU[case[1]], <<>>) = PoolU[case[1]]
                       /\ FromDict(Dict(out)) = out
LawScope ==               \* every case stays inside what the property decides
    CASE Mode = "ctor" -> InScope(case)
      [] Mode = "dict" -> InScope(case)
      [] Mode = "cmax" -> \A i \in DOMAIN case : Valid(PoolSeq[case[i]]) /\ InScope(PoolSeq[case[i]])
      [] Mode = "defaults" -> Valid(PoolR[case[1]]) /\ Valid(PoolD[case[2]])
      [] Mode = "update" -> Valid(PoolU[case[1]])
      [] Mode = "hist" -> \A i \in DOMAIN objs : Valid(objs[i]) /\ InScope(objs[i])

(* history: nothing that exists changes *)
StepUnchanged == [][ExistingUnchanged(objs, objs')]_vars

(* ---- export ---- *)
PosList(S) == SetToSortSeq(S, LAMBDA a, b : a < b)
Emit ==
    CASE Mode = "ctor" -> PrintT(<<"CASE", ToJson([c |-> Enc(case), valid |-> out.valid])>>)
      [] Mode = "dict" -> PrintT(<<"CASE", ToJson([c |-> Enc(case), keys |-> out.keys, mentions |-> out.mentions])>>)
      [] Mode = "cmax" ->
            LET ops == Operands(case) IN
            PrintT(<<"CASE", ToJson([c |-> case, cpus |-> out.cpus, gpus |-> out.gpus,
                                     mi |-> PosList(MaxMemIdx(ops)), ti |-> PosList(MaxTimeIdx(ops)),
                                     p |-> out.partition, x |-> Pairs(out.extra)])>>)
      [] Mode = "defaults" ->
            PrintT(<<"CASE", ToJson([c |-> case, raises |-> B(WithDefaultsMayRaise(PoolR[case[1]], PoolD[case[2]])),
                                     r |-> Enc(out), xmin |-> Pairs(PoolR[case[1]].extra),
                                     modes |-> {PoolR[case[1]].mode, PoolD[case[2]].mode}])>>)
      [] Mode = "update" ->
            PrintT(<<"CASE", ToJson([c |-> case, raises |-> B(~Valid(out)), r |-> Enc(out)])>>)
      [] Mode = "hist" ->
            Len(hist) = Depth + 1 => PrintT(<<"SEQ", ToJson([ops |-> hist, n |-> Len(objs)])>>)

(* pools are printed once per run *)
ASSUME Mode = "cmax" => PrintT(<<"POOL", ToJson([i \in DOMAIN PoolSeq |-> Enc(PoolSeq[i])])>>)
ASSUME Mode = "defaults" => /\ PrintT(<<"POOLR", ToJson([i \in DOMAIN PoolR |-> Enc(PoolR[i])])>>)
                            /\ PrintT(<<"POOLD", ToJson([i \in DOMAIN PoolD |-> Enc(PoolD[i])])>>)
ASSUME Mode = "update" => /\ PrintT(<<"POOLU", ToJson([i \in DOMAIN PoolU |-> Enc(PoolU[i])])>>)
                          /\ PrintT(<<"KW", ToJson([i \in DOMAIN Kw |-> EncKw(Kw[i])])>>)
ASSUME Mode = "hist" => /\ PrintT(<<"STARTS", ToJson([i \in DOMAIN Starts |-> [j \in DOMAIN Starts[i] |-> Enc(Starts[i][j])]])>>)
                        /\ PrintT(<<"KW", ToJson([i \in DOMAIN KwH |-> EncKw(KwH[i])])>>)
=============================================================================
