------------------------- MODULE MC_PipelineCache ---------------------------
(* Model checking of layer B of PipelineCache (the key scheme as implemented / as repaired) over families of   *)
(* small descriptions built with MC_PipelineCall!Desc (and its whole 2-function universe), every non-empty    *)
(* subset of cached functions, and histories of at most MaxLen events: calls that succeed without caching     *)
(* (every output, every valid cut incl. supplied intermediates, two values per name, pipeline(out) and        *)
(* full_output) and mutations update_defaults / update_bound / replace (at most MaxMut per history).          *)
(*                                                                                                            *)
(* Scheme = "repaired": invariants HCoherent and HCorrect must hold (design check of the fix).                *)
(* Scheme = "asis": TLC explores the same histories, stops a behaviour at the first call that returns a        *)
(* value different from Eval_now, names the cause (PipelineCache!Diagnose) and prints witness histories        *)
(* (HExport: one per distinct reachable model state that ends a history) - these are replayed on the real     *)
(* twin pipelines.                                                                                            *)
EXTENDS PipelineCache, MC_PipelineCall
CONSTANTS MaxLen, MaxMut,
          Family,      \* "f2" | "q2" | "f3" | "u2" (see below; N must be 2, 2, 3, 2)
          Export,      \* TRUE: print witness histories
          ExportMod    \* of the histories that end without a wrong value only every ExportMod-th is printed

K2(n) == [f |-> "@k2_" \o n, a |-> <<>>]     \* second keyword value for n
D2(n) == [f |-> "@d2_" \o n, a |-> <<>>]     \* default value set by update_defaults
B2(n) == [f |-> "@b2_" \o n, a |-> <<>>]     \* bound value set by update_bound
BlankF == MkF("", <<>>, <<>>, <<>>, <<>>)

(* Families of small descriptions, all built with MC_PipelineCall!Desc:                                           *)
(*  "f2": 2 functions a(..roots), b(..roots, a, a2); options none / default / bound first parameter of b / tuple *)
(*  "f3": 3 functions, chains and diamonds a(x..), b(..a), c(..b), the same options plus a bound upstream value  *)
(*  "u2": the whole 2-function universe of MC_PipelineCall (N = 2, Rich as configured)                           *)
Family2 == {Desc(pa, pb, <<>>, opt) : pa \in {<<>>, <<"x">>, <<"x", "y">>},
                                      pb \in {<<"a">>, <<"x", "a">>, <<"y", "a">>, <<"a", "a2">>, <<"x", "a2">>},
                                      opt \in {"none", "default_x_first", "bound_b_first", "multi_a"}}
(*  "q2": the part of f2 explored by the quick tier *)
Quick2  == {Desc(pa, pb, <<>>, opt) : pa \in {<<"x">>, <<"x", "y">>},
                                      pb \in {<<"a">>, <<"x", "a">>, <<"x", "a2">>},
                                      opt \in {"none", "default_x_first", "bound_b_first", "multi_a"}}
Family3 == {Desc(pa, pb, pc, opt) : pa \in {<<"x">>},
                                    pb \in {<<"a">>, <<"x", "a">>},
                                    pc \in {<<"a", "b">>, <<"b">>, <<"x", "b">>},
                                    opt \in {"none", "default_x_first", "bound_b_first", "bound_c_up", "multi_a"}}
Descs == {dd \in (CASE Family = "f2" -> Family2 [] Family = "q2" -> Quick2 [] Family = "f3" -> Family3
                   [] Family = "u2" -> Universe) : Valid(dd)}
WithCache(dd, S) == [funcs |-> [i \in FIdx(dd) |-> [dd.funcs[i] EXCEPT !.cache = (i \in S)]]]
Instances == SetToSeq({WithCache(dd, S) : dd \in Descs, S \in (SUBSET (1..N)) \ {{}}})
MyInstances == {Instances[j] : j \in {x \in DOMAIN Instances : x % NShards = Shard}}

---------------------------------------------------------------------------
(* the event alphabet of a description *)
Assignments(C) == {f \in [C -> {1, 2}] : Cardinality(C) <= 2 \/ Cardinality({n \in C : f[n] = 2}) <= 1}
KwA(C, f) == LET s == SetToSeq(C) IN [j \in 1..Len(s) |-> <<s[j], IF f[s[j]] = 1 THEN KV(s[j]) ELSE K2(s[j])>>]
(* the valid cuts of MC_PipelineCall!Cuts (Defined /\ Surplus = {}), computed from the supplied intermediates   *)
(* outwards instead of by filtering all subsets of names (HCutsAgree checks the two definitions against each  *)
(* other on every initial description):  choose the supplied intermediates I, each of which must be consulted; *)
(* the consulted root arguments without a default are mandatory, those with a default optional.                *)
CutsFrom(dd, o, I) ==
    LET k    == KwOf(I)
        nd   == Needed(dd, k, o)
        used == {p \in UNION {ParamsOf(dd, i) : i \in nd} : \E i \in nd : p \in ParamsOf(dd, i) /\ ~IsBound(dd, i, p)}
        rp   == used \ AllOutputs(dd)
        mand == {p \in rp : ~HasDefault(dd, p)}
    IN  IF I \subseteq used THEN {I \cup mand \cup O : O \in SUBSET (rp \ mand)} ELSE {}
FastCuts(dd, o) == UNION {CutsFrom(dd, o, I) : I \in SUBSET (AllOutputs(dd) \ {o})}
CallSet(dd) == UNION {UNION {{<<o, KwA(C, f)>> : f \in Assignments(C)} : C \in FastCuts(dd, o)} : o \in AllOutputs(dd)}
(* full_output calls are explored with the first value of every name only *)
FirstValues(k) == \A j \in DOMAIN k : k[j][2] = KV(k[j][1])
Modes == {"call", "full"}

Reversed(s) == [j \in 1..Len(s) |-> s[Len(s) + 1 - j]]
MutSet(dd) ==
    {[kind |-> "update_defaults", f |-> "", p |-> p, v |-> D2(p), func |-> BlankF] : p \in RootNames(dd)}
    \cup UNION {{[kind |-> "update_bound", f |-> dd.funcs[i].name, p |-> p, v |-> B2(p), func |-> BlankF]
                 : p \in ParamsOf(dd, i)} : i \in FIdx(dd)}
    \cup {[kind |-> "replace", f |-> dd.funcs[i].name, p |-> "", v |-> Atom(""),
           func |-> [dd.funcs[i] EXCEPT !.params = Reversed(@)]] : i \in {j \in FIdx(dd) : Len(dd.funcs[j].params) >= 2}}
    \cup {[kind |-> "replace", f |-> dd.funcs[i].name, p |-> "", v |-> Atom(""),
           func |-> [dd.funcs[i] EXCEPT !.cache = ~@]] : i \in FIdx(dd)}

---------------------------------------------------------------------------
VARIABLES cache,     \* layer B: the pipeline's cache
          hist,      \* the history so far (exported)
          verdict,   \* "ok", or the diagnosed cause of the first call that returned a value other than Eval_now
          dvers,     \* description versions, for the diagnosis
          tab        \* TabOf(d): everything about the call alphabet that depends on d only (keys, required results).
                     \* A function of d, kept in the state so that TLC computes it once per distinct description
                     \* state instead of once per transition: a mutation leaves tab "not ready", the stuttering-like
                     \* step HPrepare fills it in (performance device only; HTabSane checks tab = TabOf(d)).
hvars == <<cvars, avars, cache, hist, verdict, dvers, tab>>
CallRec(dd, c) == [o |-> c[1], k |-> c[2],
                   ks   |-> [i \in FIdx(dd) |-> ImplKey(dd, c[2], i)],
                   req  |-> [m \in Modes |-> Required(dd, c[2], c[1], m)]]
TabOf(dd) == LET cs == CallSet(dd) IN [ready |-> TRUE, calls |-> {CallRec(dd, c) : c \in cs}, keys |-> KeyTable(dd, cs)]
NoTab     == [ready |-> FALSE, calls |-> {}, keys |-> {}]

HInit == /\ d \in MyInstances /\ phase = "idle" /\ out = "" /\ kw = <<>> /\ mode = "call" /\ done = {}
         /\ AInit /\ cache = {} /\ hist = <<>> /\ verdict = "ok"
         /\ dvers = <<[kind |-> "init", d |-> d]>>
         /\ tab = TabOf(d)

HCall(r, m) ==
    LET hm   == HitMapK(d, r.ks, cache)
        ret  == IReturn(d, r.k, hm, r.o, m)
        good == ret = r.req[m]
    IN  /\ cache' = ICacheAfterH(d, r.k, hm, cache, r.o, m, Len(dvers))
        /\ verdict' = IF good THEN "ok" ELSE IDiagnose(dvers, r.k, cache, r.o, m)
        /\ hist' = Append(hist, [op |-> "call", out |-> r.o, kw |-> r.k, mode |-> m, good |-> good, ret |-> ret,
                                 nhit |-> IF Export THEN Cardinality(IVisited(d, r.k, hm, r.o, m) \cap DOMAIN hm) ELSE 0])
        /\ UNCHANGED <<cvars, avars, dvers, tab>>

HMutate(m) == /\ Len(dvers) - 1 < MaxMut /\ MutApplicable(d, m)
              /\ d' = ApplyMut(d, m)
              /\ cache' = ICacheMut(cache, m)
              /\ dvers' = Append(dvers, [kind |-> m.kind, d |-> d'])
              /\ tab' = NoTab
              /\ hist' = Append(hist, [op |-> "mutate", kind |-> m.kind, f |-> m.f, p |-> m.p, v |-> m.v, func |-> m.func])
              /\ UNCHANGED <<phase, out, kw, mode, done, avars, verdict>>

HPrepare == ~tab.ready /\ tab' = TabOf(d) /\ UNCHANGED <<cvars, avars, cache, hist, verdict, dvers>>

HNext == \/ HPrepare
         \/ /\ tab.ready /\ verdict = "ok" /\ Len(hist) < MaxLen
            /\ \/ \E r \in tab.calls, m \in Modes : (m = "full" => FirstValues(r.k)) /\ HCall(r, m)
               \/ \E m \in MutSet(d) : HMutate(m)
HSpec == HInit /\ [][HNext]_hvars

(* states are identified up to provenance and the particular history that led there *)
HView == <<d, {[k |-> e.k, v |-> e.v] : e \in cache}, Len(hist), Len(dvers), verdict, tab.ready>>

HCoherent == tab.ready => CoherentT(cache, tab.keys)          \* = Coherent(d, cache, CallSet(d))
HTabSane  == (tab.ready /\ Len(hist) <= 1) => tab = TabOf(d)
HCorrect  == verdict = "ok"
HCutsAgree == Len(hist) = 0 => \A o \in AllOutputs(d) : FastCuts(d, o) = Cuts(d, o)
(* one entry per key, never the null key *)
HKeysSane == \A e \in cache : e.k # NoKey /\ \A x \in cache : x.k = e.k => x = e
HExport   == (Export /\ tab.ready /\ (verdict # "ok" \/ (Len(hist) = MaxLen /\ TLCGet("distinct") % ExportMod = 0))) =>
                PrintT(<<"HIST", ToJson([desc |-> dvers[1].d, hist |-> hist, verdict |-> verdict, coherent |-> HCoherent])>>)
=============================================================================
