------------------------------- MODULE Cache -------------------------------
(***************************************************************************)
(* Sequential model of pipefunc's cache containers (pipefunc/cache.py):    *)
(* LRUCache, HybridCache, SimpleCache, DiskCache (optionally with its      *)
(* in-memory LRU front), incl. re-opening a DiskCache on the same folder.  *)
(*                                                                         *)
(* The state of a container is one record `c`; every public operation is   *)
(* an operator  Outcomes(c, op)  giving the SET of allowed                  *)
(* <<next state, result>> pairs (a set because the HybridCache victim is   *)
(* not determined when scores tie, and because the documentation is silent *)
(* about re-putting a resident key into a full HybridCache).  No outcome   *)
(* is "raise": an operation that raises is not explained by the model -    *)
(* with one exception, `putbad`: putting a value that cannot be serialised *)
(* into a container that serialises may raise, and then NOTHING happened   *)
(* (the container, incl. the entry the key had, is as before).             *)
(*                                                                         *)
(* Values are positive integers, `NoneV` (0) stands for Python's None.     *)
(* Durations are non-negative integers (the harness uses integral floats). *)
(* Weights are integers AW, DW (access_weight = AW/(AW+DW)).               *)
(***************************************************************************)
EXTENDS Naturals, Integers, Sequences, FiniteSets, TLC

NoneV == 0
BadV    == 999                \* a value that cannot be serialised (a lock, an open file, a generator)
RaisedV == -2                 \* result of the one operation that may raise: putting such a value
Unlimited == 1000000          \* DiskCache(max_size=None)

---------------------------------------------------------------------------
(* small helpers on sequences / functions *)
Del(s, k)     == SelectSeq(s, LAMBDA x : x # k)
Range(s)      == {s[i] : i \in DOMAIN s}
NoDup(s)      == \A i, j \in DOMAIN s : i # j => s[i] # s[j]
Upd(f, k, v)  == [x \in DOMAIN f \cup {k} |-> IF x = k THEN v ELSE f[x]]
Rem(f, k)     == [x \in DOMAIN f \ {k} |-> f[x]]
Empty         == [x \in {} |-> 0]
SumF(f)       == LET RECURSIVE S(_)
                     S(D) == IF D = {} THEN 0 ELSE LET x == CHOOSE y \in D : TRUE IN f[x] + S(D \ {x})
                 IN S(DOMAIN f)

---------------------------------------------------------------------------
(* LRU as a pure data type: order = recency (least recent first), val = contents *)
LruNew          == [order |-> <<>>, val |-> Empty]
LruHas(c, k)    == k \in DOMAIN c.val
LruTouch(c, k)  == [c EXCEPT !.order = Append(Del(c.order, k), k)]
LruGet(c, k)    == IF LruHas(c, k) THEN <<LruTouch(c, k), c.val[k]>> ELSE <<c, NoneV>>
LruPut(c, k, v, max) ==
    IF LruHas(c, k) THEN [order |-> Append(Del(c.order, k), k), val |-> Upd(c.val, k, v)]
    ELSE IF Len(c.order) < max THEN [order |-> Append(c.order, k), val |-> Upd(c.val, k, v)]
    ELSE LET victim == Head(c.order)
         IN  [order |-> Append(Tail(c.order), k), val |-> Upd(Rem(c.val, victim), k, v)]

---------------------------------------------------------------------------
(* Hybrid: score(k) = aw*cnt[k]/SUM(cnt) + dw*dur[k]/SUM(dur); compared by cross-multiplication. *)
(* A zero total makes that term 0 for every key.                                                  *)
HyScore(c, k, AW, DW) == LET C == SumF(c.cnt)  D == SumF(c.dur) IN
    IF D = 0 THEN AW * c.cnt[k]                       \* all duration terms are 0: compare AW*cnt/C
    ELSE AW * c.cnt[k] * D + DW * c.dur[k] * C
HyVictims(c, AW, DW) == {k \in DOMAIN c.val :
                            \A j \in DOMAIN c.val : HyScore(c, k, AW, DW) <= HyScore(c, j, AW, DW)}
HyDrop(c, k) == [c EXCEPT !.val = Rem(c.val, k), !.cnt = Rem(c.cnt, k), !.dur = Rem(c.dur, k)]
HySet(c, k, v, d) == [c EXCEPT !.val = Upd(c.val, k, v), !.cnt = Upd(c.cnt, k, 1), !.dur = Upd(c.dur, k, d)]

---------------------------------------------------------------------------
(* Container state by kind.                                                                      *)
(*   lru    : [kind, max, order, val]                                                             *)
(*   hybrid : [kind, max, aw, dw, val, cnt, dur]                                                  *)
(*   simple : [kind, val]                                                                         *)
(*   disk   : [kind, max, files (keys by ctime, oldest first), val (file contents),              *)
(*             lsize (0 = no front), front (an LRU record)]                                       *)
New(kind, max, lsize, aw, dw) ==
    CASE kind = "lru"    -> [kind |-> kind, max |-> max, order |-> <<>>, val |-> Empty]
      [] kind = "hybrid" -> [kind |-> kind, max |-> max, aw |-> aw, dw |-> dw, val |-> Empty, cnt |-> Empty, dur |-> Empty]
      [] kind = "simple" -> [kind |-> kind, val |-> Empty]
      [] kind = "disk"   -> [kind |-> kind, max |-> max, files |-> <<>>, val |-> Empty, lsize |-> lsize, front |-> LruNew]

(* remove oldest files until at most `max` remain *)
RECURSIVE DiskEvict(_)
DiskEvict(c) == IF Len(c.files) <= c.max THEN c
                ELSE DiskEvict([c EXCEPT !.files = Tail(c.files), !.val = Rem(c.val, Head(c.files))])

Present(c, k) == IF c.kind = "disk" THEN (c.lsize > 0 /\ LruHas(c.front, k)) \/ k \in DOMAIN c.val
                 ELSE k \in DOMAIN c.val
Size(c)       == IF c.kind = "disk" THEN Len(c.files) ELSE Cardinality(DOMAIN c.val)

(* operations: records [op, k, v, d, max] ; fields beyond `op` as needed *)
PutOutcomes(c, k, v, d) ==
    CASE c.kind = "lru" ->
            LET n == LruPut([order |-> c.order, val |-> c.val], k, v, c.max)
            IN  {<<[c EXCEPT !.order = n.order, !.val = n.val], NoneV>>}
      [] c.kind = "simple" -> {<<[c EXCEPT !.val = Upd(c.val, k, v)], NoneV>>}
      [] c.kind = "hybrid" ->
            LET keep  == {<<HySet(c, k, v, d), NoneV>>}
                evict == {<<HySet(HyDrop(c, x), k, v, d), NoneV>> : x \in HyVictims(c, c.aw, c.dw)}
            IN  IF Cardinality(DOMAIN c.val) < c.max THEN keep
                ELSE IF k \in DOMAIN c.val THEN keep \cup evict      \* documentation silent: both allowed
                ELSE evict
      [] c.kind = "disk" ->
            LET c1 == [c EXCEPT !.files = Append(Del(c.files, k), k), !.val = Upd(c.val, k, v),
                                !.front = IF c.lsize > 0 THEN LruPut(c.front, k, v, c.lsize) ELSE c.front]
            IN  {<<DiskEvict(c1), NoneV>>}

(* a value that cannot be serialised: a container that keeps references stores it like any value; one that serialises  *)
(* (always: disk; shared lru / hybrid) refuses, and the refused put is a no-op                                        *)
PutBadOutcomes(c, k, d) ==
    CASE c.kind = "simple" -> PutOutcomes(c, k, BadV, d)
      [] c.kind = "disk"   -> {<<c, RaisedV>>}
      [] OTHER             -> PutOutcomes(c, k, BadV, d) \cup {<<c, RaisedV>>}

GetOutcomes(c, k) ==
    CASE c.kind = "lru" ->
            LET g == LruGet([order |-> c.order, val |-> c.val], k)
            IN  {<<[c EXCEPT !.order = g[1].order], g[2]>>}
      [] c.kind = "simple" -> {<<c, IF k \in DOMAIN c.val THEN c.val[k] ELSE NoneV>>}
      [] c.kind = "hybrid" ->
            IF k \in DOMAIN c.val THEN {<<[c EXCEPT !.cnt[k] = @ + 1], c.val[k]>>} ELSE {<<c, NoneV>>}
      [] c.kind = "disk" ->
            IF c.lsize > 0 /\ LruHas(c.front, k)
            THEN LET g == LruGet(c.front, k) IN {<<[c EXCEPT !.front = g[1]], g[2]>>}
            ELSE IF k \in DOMAIN c.val
                 THEN {<<[c EXCEPT !.front = IF c.lsize > 0 THEN LruPut(c.front, k, c.val[k], c.lsize) ELSE c.front],
                         c.val[k]>>}
                 ELSE {<<c, NoneV>>}

ClearOutcomes(c) ==
    CASE c.kind = "lru"    -> {<<[c EXCEPT !.order = <<>>, !.val = Empty], NoneV>>}
      [] c.kind = "simple" -> {<<[c EXCEPT !.val = Empty], NoneV>>}
      [] c.kind = "hybrid" -> {<<[c EXCEPT !.val = Empty, !.cnt = Empty, !.dur = Empty], NoneV>>}
      [] c.kind = "disk"   -> {<<[c EXCEPT !.files = <<>>, !.val = Empty, !.front = LruNew], NoneV>>}

(* ANOTHER DiskCache object on the same directory clears it (a second pipeline, another session): the files are gone; *)
(* this object cannot know, its in-memory front keeps serving what it holds (a deliberate property of the code: the   *)
(* front is only coherent with the directory as long as this object is the one that changes it).  Its own clear()      *)
(* afterwards still empties it completely.                                                                            *)
(* (An object that notices and drops its front is explained as well: the property does not ask for the stale front.)   *)
WipeOutcomes(c) == LET c1 == [c EXCEPT !.files = <<>>, !.val = Empty]
                   IN  {<<c1, NoneV>>, <<[c1 EXCEPT !.front = LruNew], NoneV>>}

(* re-open a DiskCache on the same directory with another max_size (a new object: empty front) *)
ReopenOutcomes(c, max, lsize) == {<<[c EXCEPT !.max = max, !.lsize = lsize, !.front = LruNew], NoneV>>}

Outcomes(c, o) ==
    CASE o.op = "put"    -> PutOutcomes(c, o.k, o.v, o.d)
      [] o.op = "putbad" -> PutBadOutcomes(c, o.k, o.d)
      [] o.op = "get"    -> GetOutcomes(c, o.k)
      [] o.op = "clear"  -> ClearOutcomes(c)
      [] o.op = "in"     -> {<<c, IF Present(c, o.k) THEN 1 ELSE 0>>}
      [] o.op = "len"    -> {<<c, Size(c)>>}
      [] o.op = "reopen" -> ReopenOutcomes(c, o.max, o.lsize)
      [] o.op = "wipe"   -> WipeOutcomes(c)

---------------------------------------------------------------------------
(* What the public API lets one observe without perturbing the container. *)
PresentSet(c, Keys) == {k \in Keys : Present(c, k)}
ObsVal(c) == IF c.kind = "disk" THEN c.front.val ELSE c.val    \* the `.cache` property
ObsCnt(c) == IF c.kind = "hybrid" THEN c.cnt ELSE Empty        \* `.access_counts`
ObsDur(c) == IF c.kind = "hybrid" THEN c.dur ELSE Empty        \* `.computation_durations`

---------------------------------------------------------------------------
(* Properties of the model (state predicates over c). *)
WellFormed(c) ==
    CASE c.kind = "lru"    -> NoDup(c.order) /\ Range(c.order) = DOMAIN c.val
      [] c.kind = "hybrid" -> DOMAIN c.cnt = DOMAIN c.val /\ DOMAIN c.dur = DOMAIN c.val
                              /\ \A k \in DOMAIN c.cnt : c.cnt[k] >= 1
      [] c.kind = "simple" -> TRUE
      [] c.kind = "disk"   -> NoDup(c.files) /\ Range(c.files) = DOMAIN c.val
                              /\ NoDup(c.front.order) /\ Range(c.front.order) = DOMAIN c.front.val
                              /\ Len(c.front.order) <= c.lsize

(* len never exceeds max_size (for a DiskCache: after the first put following a reopen; see PutBounds) *)
LenBounded(c) ==
    CASE c.kind = "lru"    -> Size(c) <= c.max
      [] c.kind = "hybrid" -> Size(c) <= c.max
      [] c.kind = "simple" -> TRUE
      [] c.kind = "disk"   -> TRUE
PutBounds(c2) == c2.kind = "simple" \/ Size(c2) <= c2.max

(* a key is present exactly when get returns the value most recently put for it (`last`: key -> value, *)
(* maintained by the model-checking instance) -- one direction: present => get = last put             *)
GetIsLastPut(c, last) ==
    \A k \in DOMAIN last :
        Present(c, k) => \A o \in GetOutcomes(c, k) : o[2] = last[k]
=============================================================================
