------------------------------ MODULE MC_MapRun -----------------------------
(* Model-checking instance of MapRun: a fixed set of scenarios; every interleaving of task start (Call) and     *)
(* completion (Ret/Fail) that an executor with up to MaxConc concurrent tasks can produce; optional failure of   *)
(* one designated invocation.  Complete behaviours are printed as schedule scripts for the controllable executor.*)
EXTENDS MapRun, DescKit, Json
CONSTANTS Scenario, MaxConc, FailF, FailN, Export
(* FailF = name of the function whose FailN-th started invocation raises ("" = nobody fails) *)

VARIABLES hist, nstarted
vars == <<mvars, hist, nstarted>>

ScDesc ==
    CASE Scenario = "zip"     -> [funcs |-> One(MapF("f", <<"a", "b">>, One("y"), <<Spec1("a", One("i")), Spec1("b", One("i"))>>, One("i")))]
      [] Scenario = "outer"   -> [funcs |-> One(MapF("f", <<"a", "b">>, One("y"), <<Spec1("a", One("i")), Spec1("b", One("j"))>>, <<"i", "j">>))]
      [] Scenario = "partial" -> [funcs |-> <<MapF("f", <<"a", "b">>, One("y"), <<Spec1("a", One("i")), Spec1("b", One("j"))>>, <<"i", "j">>),
                                              MapF("g", One("y"), One("w"), One(Spec1("y", <<"i", ":">>)), One("i"))>>]
      [] Scenario = "reduce"  -> [funcs |-> <<MapF("f", One("a"), One("y"), One(Spec1("a", One("i"))), One("i")), PlainF("g", One("y"), One("w"))>>]
      [] Scenario = "gen"     -> [funcs |-> <<GenF("f", One("s"), One("y"), "n", 2), MapF("g", One("y"), One("w"), One(Spec1("y", One("n"))), One("n"))>>]
      [] Scenario = "twogen"  -> [funcs |-> <<MapF("f", One("a"), One("y"), One(Spec1("a", One("i"))), One("i")),
                                              MapF("g", One("a"), One("z"), One(Spec1("a", One("i"))), One("i")),
                                              MapF("h", <<"y", "z">>, One("w"), <<Spec1("y", One("i")), Spec1("z", One("i"))>>, One("i"))>>]
      [] Scenario = "multi"   -> [funcs |-> <<MapF("f", One("a"), <<"y", "y2">>, One(Spec1("a", One("i"))), One("i")),
                                              MapF("g", One("y2"), One("w"), One(Spec1("y2", One("i"))), One("i"))>>]
      [] Scenario = "chain"   -> [funcs |-> <<PlainF("f", One("s"), One("y")), PlainF("g", One("y"), One("w"))>>]
      (* functions without MapSpec, the first with two outputs (its result goes through the output picker once) *)
      [] Scenario = "multiplain" -> [funcs |-> <<PlainF("f", One("s"), <<"y", "y2">>), PlainF("g", <<"y", "y2">>, One("w"))>>]
ScInputs ==
    CASE Scenario = "zip"     -> <<<<"a", InArr("a", One(3))>>, <<"b", InArr("b", One(3))>>>>
      [] Scenario = "outer"   -> <<<<"a", InArr("a", One(2))>>, <<"b", InArr("b", One(2))>>>>
      [] Scenario = "partial" -> <<<<"a", InArr("a", One(2))>>, <<"b", InArr("b", One(2))>>>>
      [] Scenario = "reduce"  -> One(<<"a", InArr("a", One(3))>>)
      [] Scenario = "gen"     -> One(<<"s", Atom("@s")>>)
      [] Scenario = "twogen"  -> One(<<"a", InArr("a", One(2))>>)
      [] Scenario = "multi"   -> One(<<"a", InArr("a", One(2))>>)
      [] Scenario = "chain"   -> One(<<"s", Atom("@s")>>)
      [] Scenario = "multiplain" -> One(<<"s", Atom("@s")>>)

Init == MapInit(ScDesc, ScInputs) /\ hist = <<>> /\ nstarted = [n \in {} |-> 0]

FullCfg == [F |-> FIdx(d), cleanup |-> TRUE, fixed |-> <<>>]
Running == called \ (done \cup failed)
Log(e, i, t) == hist' = Append(hist, [e |-> e, f |-> d.funcs[i].name, kwargs |-> ElemKwargs(d, den, i, t)])
Started(i) == IF d.funcs[i].name \in DOMAIN nstarted THEN nstarted[d.funcs[i].name] ELSE 0

MBegin == Begin(FullCfg) /\ hist' = <<>> /\ nstarted' = [n \in {} |-> 0]
(* implementation-shaped: pipefunc submits a generation only after the previous one has been processed completely *)
Barrier(i) == \A j \in cfg.F : GenOf(d, j) < GenOf(d, i) => Complete(j)
MCall == \E i \in cfg.F : \E t \in CallPositions(i) :
            /\ Cardinality(Running) < MaxConc
            /\ Barrier(i)
            /\ Call(i, t, ElemKwargs(d, den, i, t))
            /\ Log("call", i, t)
            /\ nstarted' = [n \in DOMAIN nstarted \cup {d.funcs[i].name} |-> IF n = d.funcs[i].name THEN Started(i) + 1 ELSE nstarted[n]]
(* the FailN-th started invocation of FailF raises, every other one returns *)
IsFailing(i, t) == d.funcs[i].name = FailF /\ \E k \in DOMAIN hist :
                      /\ hist[k].e = "call" /\ hist[k].f = FailF /\ hist[k].kwargs = ElemKwargs(d, den, i, t)
                      /\ Cardinality({m \in 1..k : hist[m].e = "call" /\ hist[m].f = FailF}) = FailN + 1
MRet  == \E e \in Running : ~IsFailing(e[1], e[2]) /\ Ret(e[1], e[2]) /\ Log("ret", e[1], e[2]) /\ UNCHANGED nstarted
MFail == \E e \in Running : IsFailing(e[1], e[2]) /\ Fail(e[1], e[2]) /\ Log("fail", e[1], e[2]) /\ UNCHANGED nstarted
ResultPairs == LET os == SetToSeq(UNION {OutputsOf(d, i) : i \in cfg.F}) IN [k \in DOMAIN os |-> <<os[k], den[os[k]]>>]
MReturn == Return(ResultPairs, NoSeq) /\ hist' = Append(hist, [e |-> "return", f |-> "", kwargs |-> NoSeq]) /\ UNCHANGED nstarted
(* the caller sees the failure once no task is running any more (gated executor: siblings that were started finish) *)
MRaise == Running = {} /\ Raise /\ hist' = Append(hist, [e |-> "raise", f |-> "", kwargs |-> NoSeq]) /\ UNCHANGED nstarted

Ended == hist # <<>> /\ hist[Len(hist)].e \in {"return", "raise"}
Next == (~Ended /\ (MBegin \/ MCall \/ MRet \/ MFail \/ MReturn \/ MRaise))
Spec == Init /\ [][Next]_vars
FairSpec == Spec /\ WF_vars(Next)

InvTypeOK == TypeOK
InvDoneStored == DoneStored
(* exactly once: at the end of a successful run every element was called exactly once (called is a set: at most once) *)
InvExactlyOnce == (Ended /\ hist[Len(hist)].e = "return") => called = AllElements
(* never before its inputs are complete *)
InvInputsComplete == \A e \in called : \A j \in DepsIn(e[1]) : ConsumedOf(e[1], e[2], j) \subseteq called
(* after a failure nothing of a later generation runs *)
InvNoLaterGeneration == \A e \in failed : \A c \in called : GenOf(d, c[1]) <= GenOf(d, e[1])
(* the run terminates: returns or raises *)
Terminates == <>Ended
EmitScen == (Export /\ phase = "idle" /\ hist = <<>>) => PrintT(<<"SCEN", ToJson([scenario |-> Scenario, desc |-> d, inputs |-> inp])>>)
Emit == (Export /\ Ended) => PrintT(<<"SCHED", ToJson([scenario |-> Scenario, maxconc |-> MaxConc, failf |-> FailF, failn |-> FailN, ev |-> hist])>>)
=============================================================================
