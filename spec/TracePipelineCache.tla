------------------------ MODULE TracePipelineCache --------------------------
(* Trace validation for C09 (PipelineCache layer A, the ideal rule).  One ndjson line = one history on ONE       *)
(* pipeline built with caching enabled (the "cached twin"):                                                      *)
(*   {desc, ev: [{e, out, kw, mode, f, kwargs, val, pairs, cls, n, obs, mut}]}   (all fields always present)      *)
(* e: begin      out, kw, mode ("call" | "full"), obs = what the harness read from the public mapping            *)
(*               pipeline.cache.cache just before the call: [keys, size, cap]                                     *)
(*    call       f, kwargs            a user function of the cached twin was executed with these arguments        *)
(*    return     val                  the call succeeded on the UNCACHED twin; val = what the cached twin returned *)
(*    returnfull pairs                same, full_output=True                                                      *)
(*    raise      cls                  the cached twin raised although the uncached twin succeeded (never accepted) *)
(*    outside                         the call failed on the uncached twin: outside the property                  *)
(*    mutate     mut = [kind, f, p, v, func]   update_defaults / update_bound / replace applied to both twins      *)
(* A rejected trace is additionally explained: TExplain prints which guard failed and, for a stale value, the    *)
(* cause named by PipelineCache!Diagnose (the explanation never influences acceptance).                          *)
EXTENDS PipelineCache, Json, IOUtils, TLCExt
Traces == ndJsonDeserialize(IOEnv.TRACE_FILE)
NT == Len(Traces)
ASSUME \A i \in 1..NT : TLCSet(i, 0)

VARIABLES tid, l,
          dvers,    \* description versions [kind, d] (1 = initial), for the diagnosis
          prov,     \* provenance of produced terms: [t, i, o, kw, dv, at]
          stuck     \* TRUE after TExplain
tvars == <<cvars, avars, tid, l, dvers, prov, stuck>>
T  == Traces[tid]
Ev == T.ev[l]
IsEvent(e) == ~stuck /\ l <= Len(T.ev) /\ Ev.e = e /\ l' = l + 1 /\ UNCHANGED <<tid, stuck>>

Init == /\ tid \in 1..NT /\ l = 1 /\ CallInit(T.desc) /\ AInit
        /\ dvers = <<[kind |-> "init", d |-> T.desc]>> /\ prov = {} /\ stuck = FALSE

HasFunc(n)    == \E i \in FIdx(d) : d.funcs[i].name = n
FIdxByName(n) == CHOOSE i \in FIdx(d) : d.funcs[i].name = n

TBegin == IsEvent("begin") /\ CBegin(Ev.out, Ev.kw, Ev.mode, Ev.obs) /\ UNCHANGED <<dvers, prov>>
TCall  == /\ IsEvent("call") /\ HasFunc(Ev.f)
          /\ LET i == FIdxByName(Ev.f) IN
             /\ CCall(i, Ev.kwargs)
             /\ prov' = prov \cup {[t |-> OutTerm(d, kw, i, o), i |-> i, o |-> o, kw |-> kw, dv |-> Len(dvers), at |-> l]
                                   : o \in OutputsOf(d, i)}
          /\ UNCHANGED dvers
TReturn     == IsEvent("return") /\ CReturn(Ev.val) /\ UNCHANGED <<dvers, prov>>
TReturnFull == IsEvent("returnfull") /\ CReturnFull(SeqToSet(Ev.pairs)) /\ UNCHANGED <<dvers, prov>>
TOutside    == IsEvent("outside") /\ COutside /\ UNCHANGED <<d, dvers, prov>>
TMutate     == /\ IsEvent("mutate") /\ CMutate(Ev.mut)
               /\ dvers' = Append(dvers, [kind |-> Ev.mut.kind, d |-> d'])
               /\ UNCHANGED prov

---------------------------------------------------------------------------
(* Explanation of a rejected event.  Accepts(e) is the enabling condition of the action for event e.            *)
CallOK == HasFunc(Ev.f) /\ LET i == FIdxByName(Ev.f) IN
                           CallNeeded(i) /\ CallArgsOK(i, Ev.kwargs) /\ CallDepsOK(i) /\ CallNotResident(i)
Accepts == CASE Ev.e = "begin"      -> phase = "idle"
             [] Ev.e = "call"       -> CallOK
             [] Ev.e = "return"     -> ReturnOK(Ev.val) /\ SkipOKCall
             [] Ev.e = "returnfull" -> ReturnFullOK(SeqToSet(Ev.pairs)) /\ SkipOKFull
             [] Ev.e = "outside"    -> phase = "running"
             [] Ev.e = "mutate"     -> phase = "idle" /\ MutApplicable(d, Ev.mut)
             [] OTHER               -> FALSE

(* where did the stale value vobs of output o of function i come from? *)
Origin(i, o, vobs) ==
    LET R == {r \in prov : r.i = i /\ r.o = o /\ r.t = vobs}
    IN  IF i \in done THEN "executed-in-this-call"
        ELSE IF R = {} THEN "value-never-produced"
        ELSE LET r == CHOOSE x \in R : \A y \in R : y.at <= x.at
             IN  Diagnose(dvers, kw, i, o, vobs, r.kw, r.dv)
WrongArgs(i) == {q \in DOMAIN Ev.kwargs : q > Len(d.funcs[i].params) \/ Ev.kwargs[q] # ArgsOf(d, kw, i)[q]}
ExplainCall ==
    IF ~HasFunc(Ev.f) THEN [clause |-> "unknown-function", cause |-> "none"]
    ELSE LET i == FIdxByName(Ev.f) IN
         IF ~CallNeeded(i) THEN [clause |-> "executed-although-not-needed-or-twice", cause |-> "none"]
         ELSE IF ~CallNotResident(i) THEN [clause |-> "reexecuted-despite-resident-entry", cause |-> "none"]
         ELSE IF Len(Ev.kwargs) # Len(d.funcs[i].params) THEN [clause |-> "wrong-argument", cause |-> "arity"]
         ELSE IF WrongArgs(i) # {}
         THEN LET q == CHOOSE x \in WrongArgs(i) : TRUE
                  p == d.funcs[i].params[q]
              IN  IF Source(d, kw, i, p) = "up"      \* a value delivered for an upstream output is not the current one
                  THEN [clause |-> "stale-argument", cause |-> Origin(FuncOf(d, p), p, Ev.kwargs[q][2])]
                  ELSE [clause |-> "wrong-argument", cause |-> Source(d, kw, i, p)]
         ELSE IF ~CallArgsOK(i, Ev.kwargs) THEN [clause |-> "missing-argument", cause |-> "none"]
         ELSE [clause |-> "dependency-skipped-without-valid-cache-entry", cause |-> "none"]
ExplainReturn ==
    IF ~(phase = "running" /\ mode = "call") THEN [clause |-> "protocol", cause |-> "none"]
    ELSE IF ~Defined(d, kw, out) THEN [clause |-> "returned-although-undefined", cause |-> "none"]
    ELSE IF Ev.val # Eval(d, kw, out) THEN [clause |-> "stale-return", cause |-> Origin(FuncOf(d, out), out, Ev.val)]
    ELSE [clause |-> "skipped-without-valid-cache-entry", cause |-> "none"]
ExplainFull ==
    LET obs  == SeqToSet(Ev.pairs)
        req  == {<<n, ValOf(d, kw, n)>> : n \in FullOutputNames(d, kw, out)}
        bad  == {pr \in obs : pr[1] \in FullOutputNames(d, kw, out) /\ pr \notin req}
        badf == {pr \in bad : FuncOf(d, pr[1]) # 0 /\ FuncOf(d, pr[1]) \notin done}
    IN  IF ~(phase = "running" /\ mode = "full") THEN [clause |-> "protocol", cause |-> "none"]
        ELSE IF ~Defined(d, kw, out) THEN [clause |-> "returned-although-undefined", cause |-> "none"]
        ELSE IF {pr[1] : pr \in obs} # FullOutputNames(d, kw, out) THEN [clause |-> "full-output-names", cause |-> "none"]
        ELSE IF badf # {} THEN LET pr == CHOOSE x \in badf : TRUE
                               IN  [clause |-> "stale-return", cause |-> Origin(FuncOf(d, pr[1]), pr[1], pr[2])]
        ELSE IF bad # {} THEN [clause |-> "stale-return", cause |-> "executed-in-this-call"]
        ELSE [clause |-> "skipped-without-valid-cache-entry", cause |-> "none"]
Explain == CASE Ev.e = "call"       -> ExplainCall
             [] Ev.e = "return"     -> ExplainReturn
             [] Ev.e = "returnfull" -> ExplainFull
             [] Ev.e = "raise"      -> [clause |-> "raised-with-caching-only", cause |-> Ev.cls]
             [] OTHER               -> [clause |-> "protocol", cause |-> Ev.e]

TExplain == /\ ~stuck /\ l <= Len(T.ev) /\ ~Accepts
            /\ PrintT(<<"DIAG", ToJson([tid |-> tid, l |-> l, clause |-> Explain.clause, cause |-> Explain.cause])>>)
            /\ stuck' = TRUE
            /\ UNCHANGED <<cvars, avars, tid, l, dvers, prov>>

Next == TBegin \/ TCall \/ TReturn \/ TReturnFull \/ TOutside \/ TMutate \/ TExplain
Spec == Init /\ [][Next]_tvars

Track == IF l > TLCGet(tid) THEN TLCSet(tid, l) ELSE TRUE
InvDoneOnlyNeeded == DoneOnlyNeeded
(* an accepted hit is a hit on a value that an execution produced under the current description and arguments *)
InvMustNeeded == phase = "running" => must \subseteq Needed(d, kw, out)
Accepted == \A i \in 1..NT : (TLCGet(i) = Len(Traces[i].ev) + 1) \/ PrintT(<<"REJECT", i, TLCGet(i)>>)
=============================================================================
