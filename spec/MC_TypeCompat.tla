--------------------------- MODULE MC_TypeCompat ---------------------------
(***************************************************************************)
(* Model-checking instance of TypeCompat (mechanism A, universe export).   *)
(*                                                                         *)
(* Part = "pairs": one state per ordered pair of annotations of the        *)
(*   universe (Tier = "quick": depth <= 1, "thorough": depth <= 2 plus a   *)
(*   handful of depth-3 nestings of Annotated / Array / unions; both tiers:  *)
(*   DMeta, Annotated with every kind of metadata object); the              *)
(*   laws of the reference relation are INVARIANTs evaluated per pair and   *)
(*   the expected verdict of every pair is printed.                         *)
(* Part = "pipes": one state per pipeline description (2-3 functions        *)
(*   wiring a pair of annotations directly / through an element-wise map /  *)
(*   through a reduction / through unchecked edges, with the flag on and    *)
(*   off; NAMED shapes whose edges are derived from output names, rename   *)
(*   steps and MapSpecs; SIBLING shapes whose consumer takes two array      *)
(*   inputs in every writable combination of access modes; SUPPLY shapes    *)
(*   whose consumer parameters also carry a default or a bound value,      *)
(*   attached in every way pipefunc offers; METADATA cases whose edge under *)
(*   test carries an Annotated with a list / dict / set / dataclass instance *)
(*   as metadata); the expected outcome of                                  *)
(*   Pipeline([...]) is printed.                                            *)
(*                                                                         *)
(* The universe is the sequence USeq (a set, ordered by TLC); pairs and    *)
(* pipelines refer to annotations by their index in USeq, the ANN lines    *)
(* printed at start-up give the annotation of every index.  Cases can be   *)
(* sharded over several TLC processes by the index of the first/producer   *)
(* annotation (Shard in 0..NShards-1).                                      *)
(***************************************************************************)
EXTENDS TypeCompat, Json, TLC, SequencesExt
CONSTANTS Part, Tier, Shard, NShards
VARIABLES case, out

---------------------------------------------------------------------------
(* universes *)
Un(k, S)     == {Mk1(k, x) : x \in S}
Bin(k, S, T) == {Mk2(k, x, y) : x \in S, y \in T}
Mk3(k, x, y, z) == [k |-> k, a |-> <<x, y, z>>]

Bare  == {At("list"), At("set"), At("dict"), At("tuple")}
D0    == {IntT, BoolT, FloatT, StrT, BytesT, NoneT, AnyT, NoAnn, TVar} \cup Bare

Arg1  == {IntT, BoolT, FloatT, StrT, NoneT, AnyT}            \* arguments of depth-1 annotations
ArgU  == Arg1 \cup {TVar}
D1    == UNION {Un(k, ArgU) : k \in {"list", "set", "tuple", "vtuple", "ann", "array"}}
         \cup Un("opt", {IntT, BoolT, FloatT, StrT, AnyT, TVar})
         \cup Un("tvbound", {IntT, FloatT, StrT, AnyT})
         \cup Bin("tuple", Arg1, Arg1)
         \cup Bin("dict", {IntT, StrT, AnyT, TVar}, Arg1)
         \cup {UnionOf(x, y) : x, y \in {IntT, BoolT, FloatT, StrT, AnyT} }     \* x = y included: Union[int, int] is int
         \cup {UnionOf(TVar, IntT), UnionOf(IntT, BytesT), Mk3("union", IntT, StrT, NoneT), Mk3("union", BoolT, FloatT, StrT),
               Mk3("tuple", IntT, IntT, IntT), Mk3("tuple", BoolT, StrT, IntT)}
         \cup {TVCons(IntT, StrT), TVCons(IntT, FloatT), TVCons(BoolT, StrT)}

Arg2  == {ListOf(IntT), ListOf(BoolT), ListOf(TVar), At("list"),
          Tup1(IntT), Tup2(IntT, IntT), VTup(IntT), VTup(BoolT),
          Opt(IntT), UnionOf(IntT, StrT), Ann(IntT), Ann(BoolT), ArrayOf(IntT), ArrayOf(BoolT),
          DictOf(StrT, IntT), TVBound(IntT)}                     \* arguments of depth-2 annotations
D2    == UNION {Un(k, Arg2) : k \in {"list", "tuple", "vtuple", "ann", "array", "opt"}}
         \cup Un("set", {Tup2(IntT, IntT), VTup(IntT)})
         \cup Un("tvbound", {ListOf(IntT), VTup(IntT), UnionOf(IntT, StrT), Ann(IntT)})
         \cup Bin("tuple", Arg2, {IntT}) \cup Bin("tuple", {IntT}, Arg2)
         \cup Bin("dict", {StrT}, Arg2)
         \cup Bin("union", Arg2, {StrT})
         \cup {TVCons(ListOf(IntT), StrT), TVCons(Ann(IntT), StrT)}

(* a few depth-3 annotations around the nesting of Annotated / Array / unions (thorough tier only) *)
D3x   == {Ann(Opt(ArrayOf(StrT))), Ann(UnionOf(ArrayOf(IntT), StrT)), Opt(Ann(ArrayOf(IntT))),
          ArrayOf(Ann(Opt(IntT))), ListOf(Opt(ArrayOf(IntT))), Ann(ListOf(Tup2(IntT, IntT)))}

(* Annotated with the OTHER KINDS of metadata object (TypeCompat section 1, "metadata"): every kind around a     *)
(* class, and a few nestings -- the metadata around a union, and an Annotated inside a union / generic / Array. *)
(* Both tiers.  (Inside a union only the hashable kind: typing.Union itself -- Python 3.12.1 -- hashes its      *)
(* members and refuses `Optional[Annotated[int, ["a"]]]`; nobody can have written that annotation.)             *)
MetaNew == AnnKinds \ {"ann"}
DMeta == {AnnM(k, IntT) : k \in MetaNew \ {"annset"}} \cup {AnnM("anndata", BoolT)}
         \cup {AnnM("anndict", Opt(IntT)), Opt(AnnM("annfrozen", IntT)), ListOf(AnnM("annset", IntT)),
               ArrayOf(AnnM("anndata", IntT))}
ASSUME \A A \in DMeta : IsUnion(A) => \A i \in DOMAIN A.a : ~HasUnhashableMeta(A.a[i])

Universe == (IF Tier = "quick" THEN D0 \cup D1 ELSE D0 \cup D1 \cup D2 \cup D3x) \cup DMeta
USeq     == SetToSeq(Universe)
N        == Len(USeq)
Idx(A)   == CHOOSE i \in 1..N : USeq[i] = A

ASSUME Part \in {"pairs", "pipes"} /\ Tier \in {"quick", "thorough"} /\ Shard \in 0..(NShards - 1)
ASSUME \A A \in Universe : Depth(A) <= (IF A \in D3x THEN 3 ELSE IF Tier = "quick" /\ A \notin DMeta THEN 1 ELSE 2)
RECURSIVE KindsIn(_)
KindsIn(A) == {A.k} \cup UNION {KindsIn(A.a[i]) : i \in DOMAIN A.a}
ASSUME UnhashableKinds \subseteq AnnKinds /\ AnnKinds \subseteq UNION {KindsIn(A) : A \in Universe}    \* every kind occurs
(* what the harness has to realise: which kinds of metadata object have no hash *)
ASSUME PrintT(<<"META", ToJson([kinds |-> AnnKinds, unhashable |-> UnhashableKinds])>>)
ASSUME \A A \in Universe : \A i \in DOMAIN A.a : ~HasNoAnn(A.a[i])       \* NoAnn only at the top
ASSUME \A i \in 1..N : PrintT(<<"ANN", ToJson([i |-> i, t |-> USeq[i]])>>)

Mine(i) == i % NShards = Shard

(* third annotations for the laws that need one (union introduction / elimination) *)
ThirdsQuick == {IntT, NoneT, AnyT, TVar, UnionOf(IntT, StrT)}
Thirds == IF Tier = "quick" THEN ThirdsQuick
          ELSE ThirdsQuick \cup {StrT, BoolT, At("list"), ListOf(IntT), Ann(IntT), Opt(IntT), TVCons(IntT, StrT)}

---------------------------------------------------------------------------
(* pipelines: shapes over a pair (P, C) *)
E(p, c, via) == [p |-> p, c |-> c, via |-> via]
W(C) == IF C.k = "NoAnn" THEN C ELSE ArrayOf(C)
Shapes == {"direct2", "emap2", "reduce2", "preduce2", "generated2", "internal2",
           "fan3", "fan3b", "chain3a", "chain3b", "multi2", "multi2x"}
(* direct2    f() -> y:P ;  g(y: C)                                                               *)
(* emap2      f: x[i] -> y[i] returns P ;  g: y[i] -> z[i] takes y: C                             *)
(* reduce2    f: x[i] -> y[i] returns P ;  g(y: C) without MapSpec                                *)
(* preduce2   f: x[i, j] -> y[i, j] returns P ;  g: y[i, :] -> z[i] takes y: C                    *)
(* generated2 f() -> y:P without MapSpec ;  g: y[i] -> z[i] takes y: C   (f's MapSpec is generated)*)
(* internal2  f: ... -> y[i] returns P ;  g(y: C)                                                 *)
(* fan3       f: x[i] -> y[i] returns P ;  g: y[i] -> z[i] takes y: C ;  h(y: Array[C])           *)
(* fan3b      f: x[i] -> y[i] returns P ;  g: y[i] -> z[i] takes y: P ;  h(y: C)                  *)
(* chain3a    f() -> y:int ;  g(y: int) -> z:P ;  h(z: C)                                         *)
(* chain3b    f() -> y:P ;  g(y: C) -> z:int ;  h(z: int)                                         *)
(* multi2     f() -> (y1, y2) : tuple[P, int] ;  g(y1: C, y2: int)                                *)
(* multi2x    f() -> (y1, y2) : tuple[P, int] ;  g(y1: C, y2: str)    (second edge incompatible)  *)
Edges(shape, P, C) ==
    CASE shape = "direct2"    -> <<E(P, C, "direct")>>
      [] shape = "emap2"      -> <<E(P, C, "emap")>>
      [] shape = "reduce2"    -> <<E(P, C, "reduce")>>
      [] shape = "preduce2"   -> <<E(P, C, "preduce")>>
      [] shape = "generated2" -> <<E(P, C, "generated")>>
      [] shape = "internal2"  -> <<E(P, C, "internal")>>
      [] shape = "fan3"       -> <<E(P, C, "emap"), E(P, W(C), "reduce")>>
      [] shape = "fan3b"      -> <<E(P, P, "emap"), E(P, C, "reduce")>>
      [] shape = "chain3a"    -> <<E(IntT, IntT, "direct"), E(P, C, "direct")>>
      [] shape = "chain3b"    -> <<E(P, C, "direct"), E(IntT, IntT, "direct")>>
      [] shape = "multi2"     -> <<E(P, C, "direct"), E(IntT, IntT, "direct")>>
      [] shape = "multi2x"    -> <<E(P, C, "direct"), E(IntT, StrT, "direct")>>

(* The via labels above are what TypeCompat!ViaOf derives from the MapSpecs the user wrote on f and g. *)
xi == Arr("x", <<"i">>)   yi == Arr("y", <<"i">>)   zi == Arr("z", <<"i">>)
ShapeMS(shape) ==
    CASE shape = "direct2"    -> <<NoMS, NoMS>>
      [] shape = "emap2"      -> <<MS(<<xi>>, <<yi>>), MS(<<yi>>, <<zi>>)>>
      [] shape = "reduce2"    -> <<MS(<<xi>>, <<yi>>), NoMS>>
      [] shape = "preduce2"   -> <<MS(<<Arr("x", <<"i", "j">>)>>, <<Arr("y", <<"i", "j">>)>>), MS(<<Arr("y", <<"i", ":">>)>>, <<zi>>)>>
      [] shape = "generated2" -> <<NoMS, MS(<<yi>>, <<zi>>)>>
      [] shape = "internal2"  -> <<MS(<<>>, <<yi>>), NoMS>>
ASSUME \A sh \in {"direct2", "emap2", "reduce2", "preduce2", "generated2", "internal2"} :
          ViaOf(ShapeMS(sh)[1], ShapeMS(sh)[2], "y") = Edges(sh, IntT, IntT)[1].via

(* NAMED shapes: the edges are not listed but DERIVED (TypeCompat!NamedEdges) from a producer with declared   *)
(* output names, a return annotation per position, rename steps and a MapSpec, and a consumer with named      *)
(* parameters and its own MapSpec.                                                                             *)
(* ren_ctor_one   f() -> (s, d) : tuple[P, int], renames={s: t}            ;  g(t: C, d: int)                   *)
(* ren_ctor_swap  f() -> (s, d) : tuple[P, int], renames={s: d, d: s}      ;  g(d: C, s: int)                   *)
(* ren_upd_one    as ren_ctor_one but f.update_renames({s: t}) after construction                               *)
(* ren_upd_swap   as ren_ctor_swap but f.update_renames({s: d, d: s}) after construction                        *)
(* ren_twice      renames={s: t}, then f.update_renames({t: u})            ;  g(u: C, d: int)                   *)
(* ren_scope      f.update_scope("sc", outputs="*")  ;  g(s: C, d: int) with g.update_scope("sc", inputs="*")  *)
(* reduce_other2  f: x[i] -> y[i] returns P  ;  g(y: C, w) with its own MapSpec w[j] -> z[j]  (y taken whole)   *)
(* direct_other2  f() -> y:P without MapSpec ;  g(y: C, w) with MapSpec w[j] -> z[j]                            *)
RenameShapes == {"ren_ctor_one", "ren_ctor_swap", "ren_upd_one", "ren_upd_swap", "ren_twice", "ren_scope"}
NamedShapes  == RenameShapes \cup {"reduce_other2", "direct_other2"}
Par(n, t) == [n |-> n, t |-> t]
One   == {<<"s", "t">>}
Swap  == {<<"s", "d">>, <<"d", "s">>}
Scope == {<<"s", "sc.s">>, <<"d", "sc.d">>}
wj == Arr("w", <<"j">>)   zj == Arr("z", <<"j">>)
Prod2(P, steps, hows) == [outs |-> <<"s", "d">>, anns |-> <<P, IntT>>, steps |-> steps, hows |-> hows, ms |-> NoMS]
Cons2(n1, C, n2)      == [params |-> <<Par(n1, C), Par(n2, IntT)>>, ms |-> NoMS]
NamedDesc(shape, P, C) ==
    CASE shape = "ren_ctor_one"  -> [prod |-> Prod2(P, <<One>>, <<"ctor">>),                cons |-> Cons2("t", C, "d")]
      [] shape = "ren_ctor_swap" -> [prod |-> Prod2(P, <<Swap>>, <<"ctor">>),               cons |-> Cons2("d", C, "s")]
      [] shape = "ren_upd_one"   -> [prod |-> Prod2(P, <<{}, One>>, <<"ctor", "update">>),  cons |-> Cons2("t", C, "d")]
      [] shape = "ren_upd_swap"  -> [prod |-> Prod2(P, <<{}, Swap>>, <<"ctor", "update">>), cons |-> Cons2("d", C, "s")]
      [] shape = "ren_twice"     -> [prod |-> Prod2(P, <<One, {<<"t", "u">>}>>, <<"ctor", "update">>), cons |-> Cons2("u", C, "d")]
      [] shape = "ren_scope"     -> [prod |-> Prod2(P, <<{}, Scope>>, <<"ctor", "scope">>), cons |-> Cons2("sc.s", C, "sc.d")]
      [] shape = "reduce_other2" -> [prod |-> [outs |-> <<"y">>, anns |-> <<P>>, steps |-> <<>>, hows |-> <<>>,
                                               ms |-> MS(<<xi>>, <<yi>>)],
                                     cons |-> [params |-> <<Par("y", C), Par("w", NoAnn)>>, ms |-> MS(<<wj>>, <<zj>>)]]
      [] shape = "direct_other2" -> [prod |-> [outs |-> <<"y">>, anns |-> <<P>>, steps |-> <<>>, hows |-> <<>>, ms |-> NoMS],
                                     cons |-> [params |-> <<Par("y", C), Par("w", NoAnn)>>, ms |-> MS(<<wj>>, <<zj>>)]]

(* SIBLING shapes: the consumer has TWO array inputs and its MapSpec takes each of them in its own way.      *)
(* An access mode is the index text of one MapSpec entry; "no" = the input has no entry at all.              *)
(*   family sib3 (3 functions)   fm: x[i], y[j] -> m[i, j]  ;  fw: y[j] -> w[j]  ;  g(m, w)                   *)
(*        m-modes   ij  m[i, j]  |  sj  m[:, j]  |  is  m[i, :]  |  ss  m[:, :]  |  no                        *)
(*        w-modes   j   w[j]     |  s   w[:]     |  no                                                        *)
(*   family sib2 (2 functions)   f: x[i] -> a[i], b[i] returning a tuple  ;  g(a, b)                          *)
(*        a-, b-modes   i  a[i]  |  s  a[:]  |  no                                                            *)
(*   family sibr (2 functions)   f: x[i] -> y[i]  ;  g(y, q) where q is an unannotated pipeline input         *)
(*        y-modes   i | s | no   ;   q-modes   i  q[i] (zipped with y)  |  k  q[k] (an axis of its own)  |  s  q[:] *)
(* The consumer's output is indexed by the indices its entries use (i, j, k in this order).  A combination    *)
(* that uses no index at all cannot be written as a MapSpec (`m[:, :], w[:] -> r` is refused by the parser)   *)
(* and is left out; "no" for both inputs means that the consumer has no MapSpec.                              *)
(* `on` (1 or 2) is the input whose edge carries the pair (P, C); the sibling edge is a compatible int edge   *)
(* (int -> int when taken element-wise, int -> Array[int] when reduced), so that the outcome has to be that   *)
(* of the edge under test ALONE, taken the way ITS OWN entry says (TypeCompat!LawViaLocal / LawEdgewise).     *)
ModeAxes(mode) == CASE mode = "ij" -> <<"i", "j">> [] mode = "sj" -> <<":", "j">> [] mode = "is" -> <<"i", ":">>
                    [] mode = "ss" -> <<":", ":">> [] mode = "i"  -> <<"i">>      [] mode = "j"  -> <<"j">>
                    [] mode = "k"  -> <<"k">>      [] mode = "s"  -> <<":">>
Entry(name, mode) == IF mode = "no" THEN <<>> ELSE <<Arr(name, ModeAxes(mode))>>
(* what the mode of an input means for its edge (mapped producer): absent = the whole array, a `:` = a partial *)
(* reduction, indices only = element-wise                                                                     *)
ModeVia(mode)  == IF mode = "no" THEN "reduce"
                  ELSE IF \E l \in DOMAIN ModeAxes(mode) : ModeAxes(mode)[l] = ":" THEN "preduce" ELSE "emap"
SibFams        == {"sib3", "sib2", "sibr"}
SibInputs(fam) == CASE fam = "sib3" -> <<"m", "w">> [] fam = "sib2" -> <<"a", "b">> [] fam = "sibr" -> <<"y", "q">>
SibModes(fam)  == CASE fam = "sib3" -> <<{"ij", "sj", "is", "ss", "no"}, {"j", "s", "no"}>>
                    [] fam = "sib2" -> <<{"i", "s", "no"}, {"i", "s", "no"}>>
                    [] fam = "sibr" -> <<{"i", "s", "no"}, {"i", "k", "s"}>>
SibOns(fam)    == IF fam = "sibr" THEN {1} ELSE {1, 2}          \* q is a pipeline input: no edge to test on it
SibIns(fam, m1, m2)  == Entry(SibInputs(fam)[1], m1) \o Entry(SibInputs(fam)[2], m2)
Writable(ins)        == ins = <<>> \/ InputIndices(MS(ins, <<>>)) # {}
ConsumerMS(ins, o)   == IF ins = <<>> THEN NoMS
                        ELSE MS(ins, <<Arr(o, SelectSeq(<<"i", "j", "k">>, LAMBDA x : x \in InputIndices(MS(ins, <<>>))))>>)
SibTable == UNION {UNION {{[name |-> fam \o "_" \o mm[1] \o "_" \o mm[2] \o "_on_" \o SibInputs(fam)[on],
                            fam |-> fam, m1 |-> mm[1], m2 |-> mm[2], on |-> on] : on \in SibOns(fam)} :
                          mm \in {x \in SibModes(fam)[1] \X SibModes(fam)[2] : Writable(SibIns(fam, x[1], x[2]))}} :
                   fam \in SibFams}
SibShapes    == {r.name : r \in SibTable}
SibOf(name)  == CHOOSE r \in SibTable : r.name = name
ASSUME Cardinality(SibTable) = 24 + 12 + 7 /\ Cardinality(SibShapes) = Cardinality(SibTable)
ASSUME SibShapes \cap (Shapes \cup NamedShapes \cup {"row"}) = {}

PR(outs, anns, ms) == [outs |-> outs, anns |-> anns, steps |-> <<>>, hows |-> <<>>, ms |-> ms]
SibAnn(mode)       == IF ModeVia(mode) = "emap" THEN IntT ELSE ArrayOf(IntT)
yj == Arr("y", <<"j">>)
SibDesc(r, P, C) ==
    LET ins   == SibIns(r.fam, r.m1, r.m2)
        pa(k) == IF r.on = k THEN P ELSE IntT
        ca(k) == IF r.on = k THEN C ELSE SibAnn(IF k = 1 THEN r.m1 ELSE r.m2)
    IN  CASE r.fam = "sib3" -> [prods |-> <<PR(<<"m">>, <<pa(1)>>, MS(<<xi, yj>>, <<Arr("m", <<"i", "j">>)>>)),
                                            PR(<<"w">>, <<pa(2)>>, MS(<<yj>>, <<wj>>))>>,
                                cons  |-> [params |-> <<Par("m", ca(1)), Par("w", ca(2))>>, ms |-> ConsumerMS(ins, "r")]]
          [] r.fam = "sib2" -> [prods |-> <<PR(<<"a", "b">>, <<pa(1), pa(2)>>, MS(<<xi>>, <<Arr("a", <<"i">>), Arr("b", <<"i">>)>>))>>,
                                cons  |-> [params |-> <<Par("a", ca(1)), Par("b", ca(2))>>, ms |-> ConsumerMS(ins, "z")]]
          [] r.fam = "sibr" -> [prods |-> <<PR(<<"y">>, <<P>>, MS(<<xi>>, <<yi>>))>>,
                                cons  |-> [params |-> <<Par("y", C), Par("q", NoAnn)>>, ms |-> ConsumerMS(ins, "z")]]

(* SUPPLY shapes (TypeCompat section 8): the consumer parameter under test -- and/or the other parameter of   *)
(* the consumer -- can get a value in another way than from the pipeline.                                     *)
(*   family supd   f() -> y:P                          ;  g(y: C, k: int)                       direct         *)
(*   family supe   f: x[i] -> y[i] returns P           ;  g: y[i] -> z[i]   takes (y: C, k: int)  element-wise  *)
(*   family supr   f: x[i] -> y[i] returns P           ;  g(y: C, k: int)  without MapSpec        reduction     *)
(*   family supp   f: x[i, j] -> y[i, j] returns P     ;  g: y[i, :] -> z[i] takes (y: C, k: int) partial red.  *)
(*   family supm   f() -> (s, d) : tuple[P, int]       ;  g(s: C, d: int)   BOTH parameters are outputs of f   *)
(* how the value is attached (`how`) and what it is (`sup`, TypeCompat!SupplyKinds):                          *)
(*   none     nothing                                                            sup = none                   *)
(*   sig      def g(y: C = 0, ..)                                                sup = sig                    *)
(*   ctor     PipeFunc(g, .., defaults={y: 0})                                   sup = default                *)
(*   update   g.update_defaults({y: 0}) after the PipeFunc was made              sup = default                *)
(*   pipe     pipeline.update_defaults({y: 0}) (the functions of that pipeline are then used)  sup = default  *)
(*   bctor    PipeFunc(g, .., bound={y: 0})                                      sup = bound                  *)
(*   bupdate  g.update_bound({y: 0})                                             sup = bound                  *)
(* m1 = how of the parameter under test (y / s, carrying the pair (P, C)), m2 = how of the other parameter    *)
(* (k, a pipeline input / d, a compatible int edge).  A bound parameter cannot be indexed by the consumer's   *)
(* own MapSpec (TypeCompat!SupplyWellFormed): supe / supp have no bound m1.                                    *)
SupFams   == {"supd", "supe", "supr", "supp", "supm"}
SupHows   == {"none", "sig", "ctor", "update", "pipe", "bctor", "bupdate"}
SupHows2  == {"none", "ctor", "bctor"}
(* every way for the parameter under test next to an untouched sibling; a default / bound value on the sibling next to *)
(* one way of each kind for the parameter under test                                                                    *)
SupCombos == {<<m1, "none">> : m1 \in SupHows} \cup ({"none", "ctor", "bctor"} \X (SupHows2 \ {"none"}))
HowSup(how) == CASE how = "none" -> "none" [] how = "sig" -> "sig"
                 [] how \in {"ctor", "update", "pipe"} -> "default" [] how \in {"bctor", "bupdate"} -> "bound"
SupVia(fam) == CASE fam = "supd" -> "direct" [] fam = "supe" -> "emap" [] fam = "supr" -> "reduce"
                 [] fam = "supp" -> "preduce" [] fam = "supm" -> "direct"
SupParam(n, t, how) == [n |-> n, t |-> t, sup |-> HowSup(how), how |-> how]
xij == Arr("x", <<"i", "j">>)   yij == Arr("y", <<"i", "j">>)
SupDesc(r, P, C) ==
    LET yk == <<SupParam("y", C, r.m1), SupParam("k", IntT, r.m2)>> IN
    CASE r.fam = "supd" -> [prods |-> <<PR(<<"y">>, <<P>>, NoMS)>>,                  cons |-> [params |-> yk, ms |-> NoMS]]
      [] r.fam = "supe" -> [prods |-> <<PR(<<"y">>, <<P>>, MS(<<xi>>, <<yi>>))>>,    cons |-> [params |-> yk, ms |-> MS(<<yi>>, <<zi>>)]]
      [] r.fam = "supr" -> [prods |-> <<PR(<<"y">>, <<P>>, MS(<<xi>>, <<yi>>))>>,    cons |-> [params |-> yk, ms |-> NoMS]]
      [] r.fam = "supp" -> [prods |-> <<PR(<<"y">>, <<P>>, MS(<<xij>>, <<yij>>))>>,  cons |-> [params |-> yk, ms |-> MS(<<Arr("y", <<"i", ":">>)>>, <<zi>>)]]
      [] r.fam = "supm" -> [prods |-> <<PR(<<"s", "d">>, <<P, IntT>>, NoMS)>>,
                            cons  |-> [params |-> <<SupParam("s", C, r.m1), SupParam("d", IntT, r.m2)>>, ms |-> NoMS]]
SupTable == {r \in {[name |-> fam \o "_" \o mm[1] \o "_" \o mm[2], fam |-> fam, m1 |-> mm[1], m2 |-> mm[2]] :
                        fam \in SupFams, mm \in SupCombos} : SupplyWellFormed(SupDesc(r, IntT, IntT).cons)}
SupShapes   == {r.name : r \in SupTable}
SupRow(name) == CHOOSE r \in SupTable : r.name = name
ASSUME Cardinality(SupTable) = 3 * 13 + 2 * 9 /\ Cardinality(SupShapes) = Cardinality(SupTable)
ASSUME SupShapes \cap (Shapes \cup NamedShapes \cup SibShapes \cup {"row"}) = {}
(* the way a value is attached does not matter for the specification: only its kind does *)
ASSUME \A r1, r2 \in SupTable : (r1.fam = r2.fam /\ HowSup(r1.m1) = HowSup(r2.m1) /\ HowSup(r1.m2) = HowSup(r2.m2)) =>
          \A v \in BOOLEAN : ConstructNet(SupDesc(r1, IntT, StrT).prods, SupDesc(r1, IntT, StrT).cons, v)
                              = ConstructNet(SupDesc(r2, IntT, StrT).prods, SupDesc(r2, IntT, StrT).cons, v)

(* annotations used on pipeline edges *)
PQuick == {IntT, BoolT, FloatT, StrT, NoneT, AnyT, NoAnn, TVar, At("list"),
           ListOf(IntT), ListOf(BoolT), ListOf(AnyT), SetOf(IntT), DictOf(StrT, IntT),
           Tup1(IntT), Tup2(IntT, IntT), VTup(IntT), Opt(IntT), UnionOf(IntT, StrT),
           Ann(IntT), Ann(BoolT), ArrayOf(IntT), ArrayOf(BoolT), ArrayOf(AnyT), TVBound(IntT), TVCons(IntT, StrT)}
PThorough == PQuick \cup {BytesT, At("tuple"), At("dict"), ListOf(FloatT), ListOf(TVar), VTup(BoolT), Tup2(BoolT, StrT),
           Opt(StrT), UnionOf(IntT, FloatT), ArrayOf(FloatT), ArrayOf(StrT), ArrayOf(TVar),
           ArrayOf(ListOf(IntT)), ArrayOf(ArrayOf(IntT)), ArrayOf(Opt(IntT)), ArrayOf(Ann(IntT)), Ann(ArrayOf(IntT)),
           Ann(Ann(IntT)), ListOf(ArrayOf(IntT)), Opt(ArrayOf(IntT)), ArrayOf(Tup2(IntT, IntT)), ArrayOf(VTup(IntT)),
           Tup1(ArrayOf(IntT)), ArrayOf(UnionOf(IntT, StrT))}
PSet == IF Tier = "quick" THEN PQuick ELSE PThorough
ASSUME PSet \subseteq Universe
(* annotations on the edge under test of the sibling shapes *)
PSibQuick == {IntT, BoolT, FloatT, StrT, AnyT, NoAnn, ListOf(IntT), Opt(IntT), Ann(IntT), ArrayOf(IntT)}
PSib == IF Tier = "quick" THEN PSibQuick ELSE PQuick
ASSUME PSib \subseteq PSet
(* annotations on the edge under test of the supply shapes *)
PSupQuick == {IntT, BoolT, FloatT, StrT, AnyT, NoAnn, Opt(IntT), ArrayOf(IntT)}
PSup == IF Tier = "quick" THEN PSupQuick ELSE PSibQuick
ASSUME PSup \subseteq PSib

(* METADATA cases: an annotation of DMeta on one side (or both) of the edge under test, over the 2-3 function    *)
(* shapes in which the edge is checked -- directly, element-wise, through a reduction / a partial reduction,    *)
(* next to an element-wise consumer (fan3b), with a consumer that has a MapSpec of its own (reduce_other2).     *)
(* As the producer's annotation: every such shape against the plain partners and against each other; as the     *)
(* consumer's annotation of a plain producer: the direct and the two reducing shapes.                            *)
(* The metadata is silent (TypeCompat!LawMetadataSilentPipe): the outcome is that of the erased annotations.    *)
PMeta      == DMeta
PPartner   == PSibQuick \cup {ArrayOf(BoolT)}
MetaShapes == {"direct2", "emap2", "reduce2", "preduce2", "fan3b", "reduce_other2"}
MetaShapesC == {"direct2", "reduce2", "preduce2"}
ASSUME PMeta \cap PSet = {} /\ PPartner \subseteq PSet /\ PMeta \subseteq Universe
ASSUME MetaShapes \subseteq Shapes \cup NamedShapes

WellFormedPipe(shape, P) ==                                                                           \* tuple[NoAnn, int] cannot be written
    (shape \in ({"multi2", "multi2x"} \cup RenameShapes) \/ (shape \in SibShapes /\ SibOf(shape).fam = "sib2")
       \/ (shape \in SupShapes /\ SupRow(shape).fam = "supm")) => P.k # "NoAnn"

(* Cases.  To let TLC's workers share the work inside one process, the cases are the SUCCESSORS of one  *)
(* "row" state per first/producer annotation: pairs row i -> all [i, j]; pipes row p -> all pipelines  *)
(* whose producer annotation is USeq[p].  Row states (j = 0 / shape = "row") carry no case.            *)
PairRows == {[i |-> i, j |-> 0] : i \in {x \in 1..N : Mine(x)}}
PairCases(i) == {[i |-> i, j |-> j] : j \in 1..N}
PipeRows == {[shape |-> "row", p |-> Idx(P), c |-> 0, validate |-> FALSE] : P \in {X \in PSet \cup PMeta : Mine(Idx(X))}}
MetaCases(p) == IF USeq[p] \in PMeta
                THEN {[shape |-> s, p |-> p, c |-> Idx(C), validate |-> v] : s \in MetaShapes, C \in PPartner \cup PMeta, v \in BOOLEAN}
                ELSE IF USeq[p] \in PPartner
                THEN {[shape |-> s, p |-> p, c |-> Idx(C), validate |-> v] : s \in MetaShapesC, C \in PMeta, v \in BOOLEAN}
                ELSE {}
PipeCases(p) == MetaCases(p)
                \cup (IF USeq[p] \notin PSet THEN {}
                      ELSE {[shape |-> s, p |-> p, c |-> Idx(C), validate |-> v] :
                               s \in {x \in Shapes \cup NamedShapes : WellFormedPipe(x, USeq[p])}, C \in PSet, v \in BOOLEAN})
                \cup (IF USeq[p] \notin PSib THEN {}
                      ELSE {[shape |-> s, p |-> p, c |-> Idx(C), validate |-> v] :
                               s \in {x \in SibShapes : WellFormedPipe(x, USeq[p])}, C \in PSib, v \in BOOLEAN})
                \cup (IF USeq[p] \notin PSup THEN {}
                      ELSE {[shape |-> s, p |-> p, c |-> Idx(C), validate |-> v] :
                               s \in {x \in SupShapes : WellFormedPipe(x, USeq[p])}, C \in PSup, v \in BOOLEAN})

---------------------------------------------------------------------------
PairOut(c) == LET A == USeq[c.i]  B == USeq[c.j]
              IN [a |-> A, b |-> B, v |-> Verdict(A, B), why |-> Why(A, B)]
PipeOut(c) == IF c.shape \in SibShapes \cup SupShapes
              THEN LET d  == IF c.shape \in SibShapes THEN SibDesc(SibOf(c.shape), USeq[c.p], USeq[c.c])
                             ELSE SupDesc(SupRow(c.shape), USeq[c.p], USeq[c.c])
                       es == SetToSeq(NetEdges(d.prods, d.cons))
                   IN [edges |-> es, expect |-> ConstructNet(d.prods, d.cons, c.validate),
                       ev |-> [i \in DOMAIN es |-> EdgeVerdict(es[i].p, es[i].c, es[i].via)],
                       prods |-> d.prods, cons |-> d.cons]
              ELSE IF c.shape \in NamedShapes
              THEN LET d  == NamedDesc(c.shape, USeq[c.p], USeq[c.c])
                       es == SetToSeq(NamedEdges(d.prod, d.cons))
                   IN [edges |-> es, expect |-> ConstructNamed(d.prod, d.cons, c.validate),
                       ev |-> [i \in DOMAIN es |-> EdgeVerdict(es[i].p, es[i].c, es[i].via)],
                       prod |-> d.prod, cons |-> d.cons]
              ELSE LET es == Edges(c.shape, USeq[c.p], USeq[c.c])
                   IN [edges |-> es, expect |-> Construct(es, c.validate),
                       ev |-> [i \in DOMAIN es |-> EdgeVerdict(es[i].p, es[i].c, es[i].via)]]
RowOut == [row |-> TRUE]

Init == IF Part = "pairs" THEN case \in PairRows /\ out = RowOut
                          ELSE case \in PipeRows /\ out = RowOut
Next == IF Part = "pairs"
        THEN case.j = 0 /\ case' \in PairCases(case.i) /\ out' = PairOut(case')
        ELSE case.shape = "row" /\ case' \in PipeCases(case.p) /\ out' = PipeOut(case')
Spec == Init /\ [][Next]_<<case, out>>

---------------------------------------------------------------------------
(* laws of the reference relation, per pair (A, B) *)
IsPair == Part = "pairs" /\ case.j # 0
A_ == out.a
B_ == out.b

InvVerdictDomain == IsPair => /\ out.v \in {"yes", "no", "either"}
                              /\ (out.v = "either") <=> (SubStrict(A_, B_) # SubLenient(A_, B_))
                              /\ LawMonotone(A_, B_)
                              /\ (out.why # {}) => out.v = "either"
InvReflexive     == IsPair => (LawReflexive(A_) /\ (A_ = B_ => out.v = "yes"))
InvAnyTop        == IsPair => (LawAnyTop(A_) /\ LawAnyBottomless(B_, Universe)
                               /\ (B_ \in {AnyT, NoAnn} => out.v = "yes") /\ (A_ = NoAnn => out.v = "yes"))
(* The laws are checked under the sound reading of every don't-care class for every pair, and under the   *)
(* lenient reading for every pair of the thorough tier (whose universe contains the quick one); the quick *)
(* tier re-checks the lenient reading only where the two readings differ.                                 *)
LenientToo       == Tier = "thorough" \/ out.v = "either"
InvUnion         == IsPair => ((~HasNoAnn(A_) /\ ~HasNoAnn(B_)) =>
                                  \A C \in Thirds \ {NoAnn} : /\ LawUnion(A_, B_, C, Strict)
                                                              /\ LenientToo => LawUnion(A_, B_, C, Lenient))
InvCovariant     == IsPair => /\ LawCovariant(A_, B_, Strict) /\ LawArity(A_, B_, Strict)
                              /\ LenientToo => (LawCovariant(A_, B_, Lenient) /\ LawArity(A_, B_, Lenient))
InvTransitive    == IsPair => LawTransitive(A_, B_, Universe)
(* metadata is silent: for every pair (whose annotations hold every kind of metadata, DMeta); an Annotated of     *)
(* every kind wrapped around either side: for the pairs of un-nested annotations (quick) / all pairs (thorough)   *)
InvMetadata      == IsPair => /\ LawMetadataSilent(A_, B_, Strict)
                              /\ LenientToo => LawMetadataSilent(A_, B_, Lenient)
                              /\ (Tier = "thorough" \/ (A_ \in D0 /\ B_ \in D0)) =>
                                     (LawMetadataKind(A_, B_, Strict) /\ LawMetadataKind(A_, B_, Lenient))

(* laws of the pipeline rule, per pipeline *)
IsPipe == Part = "pipes" /\ case.shape # "row"
InvPipeDomain    == IsPipe => /\ out.expect \in {"accept", "TypeError", "either"}
                              /\ LawFlagOff(out.edges)
                              /\ (~case.validate => out.expect = "accept")
InvPipeEdges     == IsPipe => LET P == USeq[case.p]  C == USeq[case.c] IN
                              /\ LawUncheckedEdge(P, C) /\ LawReduceWraps(P, C)
                              /\ (case.validate /\ case.shape \in {"generated2", "internal2"}) => out.expect = "accept"
                              /\ (case.validate /\ case.shape = "multi2x") => out.expect = "TypeError"
                              /\ (case.validate /\ case.shape \in {"direct2", "emap2", "chain3a", "chain3b", "multi2"}) =>
                                     out.expect = (CASE Verdict(P, C) = "yes" \/ HasNoAnn(P) \/ HasNoAnn(C) -> "accept"
                                                     [] OTHER -> IF Verdict(P, C) = "no" THEN "TypeError" ELSE "either")

(* metadata is silent on every edge of every pipeline; with an annotation of DMeta on the edge under test the   *)
(* outcome is that of the same shape over the erased annotations                                                *)
InvMeta          == IsPipe => LET P == USeq[case.p]  C == USeq[case.c] IN
                              (Erase(P) # P \/ Erase(C) # C) =>            \* (without any Annotated there is nothing to erase)
                                  /\ LawMetadataSilentPipe(out.edges, case.validate)
                                  /\ (case.shape \in Shapes) =>
                                         out.expect = Construct(Edges(case.shape, Erase(P), Erase(C)), case.validate)

(* named shapes: renaming moves names, never annotations, so the outcome is that of the un-renamed multi2;   *)
(* a mapped output the consumer does not index is an object array whatever MapSpec the consumer has itself   *)
InvNamed         == (IsPipe /\ case.shape \in NamedShapes) =>
                        LET P == USeq[case.p]  C == USeq[case.c] IN
                        /\ out.expect = Construct(out.edges, case.validate)
                        /\ LawRenameKeepsPositions(out.prod)
                        /\ (case.shape \in RenameShapes) =>
                               /\ LawRenameInverse(out.prod, Swap) /\ LawRenameInverse(out.prod, {<<"s", "q">>})
                               /\ out.expect = Construct(Edges("multi2", P, C), case.validate)
                               /\ {e.via : e \in NamedEdges(out.prod, out.cons)} = {"direct"}
                        /\ (case.shape = "reduce_other2") => out.expect = Construct(Edges("reduce2", P, C), case.validate)
                        /\ (case.shape = "direct_other2") => out.expect = Construct(Edges("direct2", P, C), case.validate)

(* sibling shapes: one edge per input that some function produces, each taken the way ITS OWN entry says; the    *)
(* sibling being compatible, the outcome is that of the edge under test alone (= the 2-function shape emap2 /  *)
(* reduce2 / preduce2 of its mode); locality laws of TypeCompat section 7                                      *)
InvSib           == (IsPipe /\ case.shape \in SibShapes) =>
                        LET r  == SibOf(case.shape)  P == USeq[case.p]  C == USeq[case.c]
                            nm == SibInputs(r.fam)
                            on == IF r.on = 1 THEN r.m1 ELSE r.m2
                            es == NetEdges(out.prods, out.cons)
                        IN
                        /\ out.expect = Construct(out.edges, case.validate)
                        /\ {<<e.n, e.via>> : e \in es} = {<<nm[1], ModeVia(r.m1)>>}
                                                          \cup (IF r.fam = "sibr" THEN {} ELSE {<<nm[2], ModeVia(r.m2)>>})
                        /\ out.expect = Construct(<<E(P, C, ModeVia(on))>>, case.validate)
                        /\ LawEdgewise(out.prods, out.cons)
                        /\ \A k \in DOMAIN out.prods : \A name \in ArrNames(out.prods[k].ms.outs) :
                               LawViaLocal(out.prods[k].ms, out.cons.ms, name)

(* supply shapes: a default -- however attached, on the wired parameter or on the other one -- leaves the      *)
(* outcome that of the plain 2-function shape; a bound value on the parameter under test leaves nothing to     *)
(* reject (the other edge is compatible); laws of TypeCompat section 8                                          *)
InvSup           == (IsPipe /\ case.shape \in SupShapes) =>
                        LET r   == SupRow(case.shape)  P == USeq[case.p]  C == USeq[case.c]
                            cut == CutsEdge(HowSup(r.m1))
                        IN
                        /\ SupplyWellFormed(out.cons)
                        /\ out.expect = Construct(out.edges, case.validate)
                        /\ LawDefaultKeepsEdges(out.prods, out.cons)
                        /\ LawBoundCutsOwnEdge(out.prods, out.cons)
                        /\ LawEdgewise(out.prods, out.cons)
                        /\ ~cut => out.expect = Construct(<<E(P, C, SupVia(r.fam))>>, case.validate)
                        /\ cut => (out.expect = "accept" /\ \A e \in NetEdges(out.prods, out.cons) : e.n # out.cons.params[1].n)

(* export *)
VCode(v) == CASE v = "no" -> 0 [] v = "yes" -> 1 [] v = "either" -> 2
WCode(w) == (IF "tv" \in w THEN 1 ELSE 0) + (IF "bare" \in w THEN 2 ELSE 0) + (IF "num" \in w THEN 4 ELSE 0)
Emit == IF IsPair THEN PrintT(<<"PAIR", case.i, case.j, VCode(out.v), WCode(out.why)>>)
        ELSE IF IsPipe
        THEN IF case.shape \in SibShapes \cup SupShapes
             THEN PrintT(<<"PIPE", ToJson([shape |-> case.shape, p |-> case.p, c |-> case.c, validate |-> case.validate,
                                           edges |-> out.edges, ev |-> out.ev, expect |-> out.expect,
                                           prods |-> out.prods, cons |-> out.cons])>>)
             ELSE IF case.shape \in NamedShapes
             THEN PrintT(<<"PIPE", ToJson([shape |-> case.shape, p |-> case.p, c |-> case.c, validate |-> case.validate,
                                           edges |-> out.edges, ev |-> out.ev, expect |-> out.expect,
                                           prod |-> out.prod, cons |-> out.cons])>>)
             ELSE PrintT(<<"PIPE", ToJson([shape |-> case.shape, p |-> case.p, c |-> case.c, validate |-> case.validate,
                                           edges |-> out.edges, ev |-> out.ev, expect |-> out.expect])>>)
        ELSE TRUE
=============================================================================
