----------------------------- MODULE MC_Validity -----------------------------
(* Model-checking instances for C12 (Validity.tla).                                                                  *)
(*  Universe (mechanism A): every VALID case of the C01 universe (MC_MapDenote: mapped pipelines with inputs) and of   *)
(*  the C02 universe (MC_PipelineCall: call-style descriptions, every root argument given) subjected to each           *)
(*  single-fault MUTATION OPERATOR, with cleanup in {TRUE, FALSE}.  Per mutant TLC evaluates the named clauses, checks  *)
(*  the laws, runs the Prepare state machine to its end (invariants RejectIsPure, OnlyReject, ValidAccepted, ...) and  *)
(*  prints the mutant with the violated clause; mutants that stay valid are printed as STAYED_VALID and not replayed.  *)
(*  Further operators: an unknown name at every position of a per-output storage DICTIONARY (incl. tuple keys and keys    *)
(*  that name no array output); ill-formedness introduced AFTER construction through the public update methods of a     *)
(*  member function (rename an output onto another output / onto an own parameter, rename a parameter onto an own        *)
(*  output / into a cycle, contradicting default), followed by map or by a call; and on the call side                    *)
(*  pipeline(out, **kw) with a dropped keyword (missing argument) or an added keyword (surplus).                         *)
(*  Construction-time faults met through the CALL side: a MapSpec-free base (all of C02; N = 3 gives pipelines in which   *)
(*  a third function lies upstream of / beside the fault) with a rename collision, an added edge or a changed default,    *)
(*  then EVERY output requested through every call-style entry (pipeline(out, **kw), run, func) with exactly the          *)
(*  keywords the needed functions read; the same for the faults introduced after construction.  Which families of         *)
(*  mutants a TLC process generates is the constant Families.                                                             *)
(*  Faults at a NON-FIRST output of a function with a tuple output (family "tuple_output", universe TupleBases: the C01    *)
(*  cases with a second output and a mapped consumer, sharded by ShardT/NShardsT): the consumer is re-wired to the sibling *)
(*  output (a valid case) and then gets the axis-name faults; the k-th output spec / the k-th output name gets the          *)
(*  signature fault / the rename collision.  Operator default_pair: two functions that share a root argument declare two   *)
(*  DIFFERENT defaults drawn from {None, 0, an ordinary value}, in both orders (None first / None second, ...).            *)
(*  Family "wide_zip": a MapSpec that zips THREE OR FOUR arrays along one axis (universe WideBases), every root array     *)
(*  grown and shrunk along every axis, so that the array out of step is the first, a middle or the last one.  Family        *)
(*  "derived_mapspec": the chain f -> e -> g of the C01 cases with f, e combined by a NestedPipeFunc (Validity!Nest) or      *)
(*  rewritten by add_mapspec_axis (Validity!AddMapspecAxis) and the hand-written g given the axis-name faults; the mutant    *)
(*  carries `pre` (what is written by hand) and `how` (which derivation the harness asks the library for).                   *)
(*  Trace part (mechanism C): requests built by the harness (fixed examples from the repository's tests, random        *)
(*  larger mutants) with the recorded outcome of the real code; TLC runs the Prepare machine on the request and        *)
(*  accepts the record iff it is an end state of the machine.                                                          *)
EXTENDS Validity, SequencesExt, Json, IOUtils, TLCExt
CONSTANTS MaxSize, RichM, ShardM, NShardsM,     \* the MC_MapDenote universe (sharded there)
          N, RichP, ShardP, NShardsP,           \* the MC_PipelineCall universe (sharded here by description)
          ShardT, NShardsT,                     \* the tuple-output cases of the MC_MapDenote universe (sharded here)
          ShardD, NShardsD,                     \* the chain cases of the derived-MapSpec family (sharded here)
          Families                              \* which mutant families this process generates: a subset of AllFamilies

VARIABLES mut,      \* universe part: the mutant record [op, req, how] (req.prev = the valid base case, how = the public-API
                    \* operation that produces the fault after construction, if any); trace part: 0
          tid, l    \* trace part: trace id, next event; universe part: 0
allvars == <<pvars, mut, tid, l>>

M == INSTANCE MC_MapDenote WITH case <- 0, Rich <- RichM, Shard <- ShardM, NShards <- NShardsM
P == INSTANCE MC_PipelineCall WITH d <- 0, phase <- "idle", out <- "", kw <- <<>>, mode <- "call", done <- {},
                                   Rich <- RichP, Shard <- ShardP, NShards <- NShardsP

---------------------------------------------------------------------------
(* valid base requests *)
Cfg(storage, cleanup, folder) == [storage |-> storage, sdict |-> <<>>, parallel |-> FALSE, executor |-> FALSE, ekeys |-> <<>>, cleanup |-> cleanup,
                                  folder |-> folder]
NameIdx(n) == CASE n = "x" -> 1 [] n = "y" -> 2 [] n = "z" -> 3 [] n = "a" -> 4 [] n = "a2" -> 5 [] n = "b" -> 6 [] OTHER -> 7
SeqKey(ps) == LET RECURSIVE K(_)
                  K(s) == IF Len(s) = 0 THEN 0 ELSE NameIdx(Head(s)) + 7 * K(Tail(s))
              IN K(ps)
DescKey(dd) == LET RECURSIVE K(_)
                   K(i) == IF i > NF(dd) THEN 0
                           ELSE (2 * i + 1) * SeqKey(dd.funcs[i].params) + 11 * Len(dd.funcs[i].defaults)
                                + 13 * Len(dd.funcs[i].bound) + 17 * Len(dd.funcs[i].outputs) + K(i + 1)
               IN K(1)
RootInputs(dd) == LET s == SetToSeq(RootArgs(dd)) IN [k \in 1..Len(s) |-> <<s[k], P!KV(s[k])>>]
(* (a universe is switched off by Shard = NShards: no member has that residue) *)
MapBases  == {[desc |-> c.desc, inputs |-> c.inputs] : c \in M!Universe}
CallBases == {[desc |-> dd, inputs |-> RootInputs(dd)] : dd \in {x \in P!Universe : P!Valid(x) /\ DescKey(x) % NShardsP = ShardP}}
Bases == MapBases \cup CallBases

---------------------------------------------------------------------------
(* mutation operators: each maps a base [desc, inputs] to a set of [desc, inputs] (one syntactic fault each) *)
SetFunc(dd, i, fn) == [dd EXCEPT !.funcs[i] = fn]
Ren(ax, A, B) == [k \in DOMAIN ax |-> IF ax[k] = A THEN B ELSE ax[k]]

(* rename collision: the first output of function j gets the name of an output of another function *)
RenameOut(dd, j, new) ==
    LET fn == dd.funcs[j] IN
    SetFunc(dd, j, [fn EXCEPT !.outputs[1] = new,
                              !.ms.outs = [k \in DOMAIN fn.ms.outs |-> IF k = 1 THEN [fn.ms.outs[k] EXCEPT !.name = new] ELSE fn.ms.outs[k]]])
RenameCollision(b) == {[b EXCEPT !.desc = RenameOut(b.desc, j, o)] :
                           <<j, o>> \in {jo \in FIdx(b.desc) \X AllOutputs(b.desc) : jo[2] \notin OutputsOf(b.desc, jo[1])}}
(* added edge: function i additionally takes an existing output (its own: output = parameter; a downstream one: cycle; *)
(* an upstream or unrelated one: stays valid)                                                                          *)
AddParam(dd, i, o) == SetFunc(dd, i, [dd.funcs[i] EXCEPT !.params = Append(dd.funcs[i].params, o)])
AddedEdge(b) == {[b EXCEPT !.desc = AddParam(b.desc, i, o)] :
                     <<i, o>> \in {io \in FIdx(b.desc) \X AllOutputs(b.desc) : io[2] \notin ParamsOf(b.desc, io[1])}}
(* changed default: one function declares (another) default for one of its unbound root parameters *)
ChangedV == Atom("@changed")
SetDefault(dd, i, p) ==
    LET fn == dd.funcs[i]
        rest == SelectSeq(fn.defaults, LAMBDA pr : pr[1] # p)
    IN  SetFunc(dd, i, [fn EXCEPT !.defaults = Append(rest, <<p, ChangedV>>)])
ChangedDefault(b) == {[b EXCEPT !.desc = SetDefault(b.desc, i, p)] :
                          <<i, p>> \in {ip \in FIdx(b.desc) \X RootArgs(b.desc) :
                                           ip[2] \in ParamsOf(b.desc, ip[1]) /\ ~IsBound(b.desc, ip[1], ip[2])
                                           /\ ~(HasMapInputs(b.desc.funcs[ip[1]]) /\ ip[2] \in InSpecNames(b.desc.funcs[ip[1]]))}}
(* contradicting pair of defaults: two functions that both take the root argument p (unbound, not mapped) declare two   *)
(* DIFFERENT values for it.  The values include the ones that code likes to use as "nothing here" markers - None and a  *)
(* falsy 0 - next to an ordinary value, and every ORDERED pair is generated: the marker-like value is declared by the   *)
(* function listed first as well as by the one listed later.                                                            *)
DefaultValues == {NoneT, Atom("@0"), ChangedV}
SetDefaultTo(dd, i, p, v) ==
    LET fn == dd.funcs[i]
        rest == SelectSeq(fn.defaults, LAMBDA pr : pr[1] # p)
    IN  SetFunc(dd, i, [fn EXCEPT !.defaults = Append(rest, <<p, v>>)])
Declarable(dd, i, p) == p \in ParamsOf(dd, i) /\ ~IsBound(dd, i, p) /\ ~(HasMapInputs(dd.funcs[i]) /\ p \in InSpecNames(dd.funcs[i]))
DefaultPair(b) == {[b EXCEPT !.desc = SetDefaultTo(SetDefaultTo(b.desc, x[1], x[3], x[4]), x[2], x[3], x[5])] :
                       x \in {y \in FIdx(b.desc) \X FIdx(b.desc) \X RootArgs(b.desc) \X DefaultValues \X DefaultValues :
                                 y[1] < y[2] /\ y[4] # y[5] /\ Declarable(b.desc, y[1], y[3]) /\ Declarable(b.desc, y[2], y[3])}}
(* dropped / added input *)
DroppedInput(b) == {[b EXCEPT !.inputs = SelectSeq(b.inputs, LAMBDA pr : pr[1] # p)] : p \in PKeys(b.inputs)}
AddedInput(b)   == {[b EXCEPT !.inputs = Append(b.inputs, <<n, Atom("@extra")>>)] : n \in {"q_extra"} \cup AllOutputs(b.desc)}
(* resized axis: one array input grows by one slice along one of its axes (a fault iff that axis is zipped) *)
RECURSIVE GrowAlong(_, _)
GrowAlong(v, k) == IF k = 1 THEN Arr(Append(v.a, v.a[Len(v.a)]))
                   ELSE Arr([n \in DOMAIN v.a |-> GrowAlong(v.a[n], k - 1)])
ArrayRank(dd, p) == LET s == CHOOSE s \in SpecsOf(dd, p) : TRUE IN Len(s.axes)
ArrayInputs(b)  == {p \in PKeys(b.inputs) : p \in ArrayNames(b.desc) /\ IsArr(PGet(b.inputs, p))}
SetInput(b, p, v) == [b EXCEPT !.inputs = [k \in DOMAIN b.inputs |-> IF b.inputs[k][1] = p THEN <<p, v>> ELSE b.inputs[k]]]
ResizedAxis(b) == {SetInput(b, pk[1], GrowAlong(PGet(b.inputs, pk[1]), pk[2])) :
                       pk \in {q \in ArrayInputs(b) \X (1..3) : q[2] <= ArrayRank(b.desc, q[1])}}
(* changed rank: one array input loses its outer axis *)
ChangedRank(b) == {SetInput(b, p, PGet(b.inputs, p).a[1]) : p \in ArrayInputs(b)}
(* axis names in ONE consumer: an axis of a consumed upstream array is renamed throughout the consumer's MapSpec, or  *)
(* two axes of that array are swapped in the consumer's input spec                                                     *)
RenameAxisIn(dd, i, A) ==
    LET fn == dd.funcs[i] IN
    SetFunc(dd, i, [fn EXCEPT !.ms.ins  = [k \in DOMAIN fn.ms.ins  |-> [fn.ms.ins[k]  EXCEPT !.axes = Ren(fn.ms.ins[k].axes, A, "q")]],
                              !.ms.outs = [k \in DOMAIN fn.ms.outs |-> [fn.ms.outs[k] EXCEPT !.axes = Ren(fn.ms.outs[k].axes, A, "q")]]])
SwapAxesIn(dd, i, k) ==
    LET fn == dd.funcs[i]  ax == fn.ms.ins[k].axes IN
    SetFunc(dd, i, [fn EXCEPT !.ms.ins[k].axes = [m \in DOMAIN ax |-> IF m = 1 THEN ax[2] ELSE IF m = 2 THEN ax[1] ELSE ax[m]]])
ConsumedSpecs(dd) == {ik \in FIdx(dd) \X (1..3) : dd.funcs[ik[1]].has_ms /\ ik[2] \in DOMAIN dd.funcs[ik[1]].ms.ins
                                                   /\ dd.funcs[ik[1]].ms.ins[ik[2]].name \in AllOutputs(dd)}
AxisNames(b) == {[b EXCEPT !.desc = RenameAxisIn(b.desc, ik[1], A)] :
                     <<ik, A>> \in {x \in ConsumedSpecs(b.desc) \X {"i", "j", "k", "n"} :
                                       \E m \in DOMAIN b.desc.funcs[x[1][1]].ms.ins[x[1][2]].axes :
                                           b.desc.funcs[x[1][1]].ms.ins[x[1][2]].axes[m] = x[2]}}
                \cup {[b EXCEPT !.desc = SwapAxesIn(b.desc, ik[1], ik[2])] :
                     ik \in {x \in ConsumedSpecs(b.desc) : Len(b.desc.funcs[x[1]].ms.ins[x[2]].axes) >= 2}}
(* MapSpec vs signature: a MapSpec input that is no parameter; a MapSpec output that is not the function's output *)
MapSpecSignature(b) ==
    {[b EXCEPT !.desc = SetFunc(b.desc, i, [b.desc.funcs[i] EXCEPT !.ms.ins[1].name = "nope"])] :
         i \in {j \in FIdx(b.desc) : HasMapInputs(b.desc.funcs[j])}}
    \cup {[b EXCEPT !.desc = SetFunc(b.desc, i, [b.desc.funcs[i] EXCEPT !.ms.outs[1].name = "nope_out"])] :
         i \in {j \in FIdx(b.desc) : b.desc.funcs[j].has_ms}}

Ops == {"rename_collision", "added_edge", "changed_default", "default_pair", "dropped_input", "added_input", "resized_axis", "changed_rank",
        "axis_names", "mapspec_signature", "unknown_storage", "executor_without_parallel"}
Apply(op, b) == CASE op = "rename_collision"  -> RenameCollision(b)
                  [] op = "added_edge"        -> AddedEdge(b)
                  [] op = "changed_default"   -> ChangedDefault(b)
                  [] op = "default_pair"      -> DefaultPair(b)
                  [] op = "dropped_input"     -> DroppedInput(b)
                  [] op = "added_input"       -> AddedInput(b)
                  [] op = "resized_axis"      -> ResizedAxis(b)
                  [] op = "changed_rank"      -> ChangedRank(b)
                  [] op = "axis_names"        -> AxisNames(b)
                  [] op = "mapspec_signature" -> MapSpecSignature(b)
                  [] OTHER                    -> {b}
(* executor forms: a bare Executor; {"": pool}; {output name(s) of the first function: pool, "": pool} *)
ExecutorForms(b) == {<<>>, <<<<>>>>, <<b.desc.funcs[1].outputs, <<>>>>}
CfgsFor(op, b) == CASE op = "unknown_storage" -> {Cfg("nonsense", cl, fo) : cl \in BOOLEAN, fo \in BOOLEAN} \ {Cfg("nonsense", FALSE, FALSE)}
                 [] op = "executor_without_parallel" ->
                        {[Cfg("file_array", cl, TRUE) EXCEPT !.executor = TRUE, !.ekeys = ek] : cl \in BOOLEAN, ek \in ExecutorForms(b)}
                 [] OTHER -> {Cfg("file_array", cl, TRUE) : cl \in BOOLEAN}
NoHow == [kind |-> "", f |-> "", old |-> "", new |-> ""]
MapReq(m, c, b) == [desc |-> m.desc, inputs |-> m.inputs, cfg |-> c, prev |-> b, entry |-> "map", out |-> ""]
BasicMutants(b) == UNION {{[op |-> op, req |-> MapReq(m, c, b), how |-> NoHow] : m \in Apply(op, b), c \in CfgsFor(op, b)} : op \in Ops}

(* --- per-output storage dictionary with one unknown name: before / after the default entry, default storage with and   *)
(* without serialization, keyed by the output name(s) of every function (a tuple key for a tuple output) or by a name     *)
(* that is no output at all                                                                                              *)
DEntry(key, name) == [key |-> key, name |-> name]
StorageDicts(b) ==
    LET keys == {b.desc.funcs[i].outputs : i \in FIdx(b.desc)} \cup {<<"zzz">>} IN
    UNION {{<<DEntry(<<>>, "file_array"), DEntry(k, "nonsense")>>, <<DEntry(k, "nonsense"), DEntry(<<>>, "file_array")>>,
            <<DEntry(<<>>, "dict"), DEntry(k, "nonsense")>>} : k \in keys}
(* cleanup=FALSE is where purity shows; cleanup=TRUE (user code would run) only for the order any(...) does not reach *)
StorageDictMutants(b) ==
    {[op |-> "unknown_storage_in_dict", req |-> MapReq(b, [Cfg("file_array", cl, TRUE) EXCEPT !.sdict = sd], b), how |-> NoHow] :
         <<sd, cl>> \in {x \in StorageDicts(b) \X BOOLEAN : ~x[2] \/ (x[1][1].name = "file_array" /\ x[1][1].key = <<>>)}}

(* --- ill-formedness introduced after construction, through the update methods of a member function.  `how` tells the    *)
(* harness which call produces it on the valid base pipeline:  pipeline[first output of f].update_renames({old: new}) /   *)
(* .update_defaults({old: @changed}).  The request is then a map (cleanup in {TRUE, FALSE}) or, without MapSpecs, a call. *)
RenameParam(dd, i, p, new) ==
    LET fn == dd.funcs[i]  R(x) == IF x = p THEN new ELSE x IN
    SetFunc(dd, i, [fn EXCEPT !.params   = [k \in DOMAIN fn.params |-> R(fn.params[k])],
                              !.defaults = [k \in DOMAIN fn.defaults |-> <<R(fn.defaults[k][1]), fn.defaults[k][2]>>],
                              !.bound    = [k \in DOMAIN fn.bound |-> <<R(fn.bound[k][1]), fn.bound[k][2]>>],
                              !.ms.ins   = [k \in DOMAIN fn.ms.ins |-> [fn.ms.ins[k] EXCEPT !.name = R(fn.ms.ins[k].name)]]])
How(kind, fn, old, new) == [kind |-> kind, f |-> fn.name, old |-> old, new |-> new]
PostMutations(b) ==
    LET dd == b.desc IN
    (* an output renamed onto another function's output (duplicate) or onto one of the function's own parameters *)
    {[op |-> "post_rename_output", desc |-> RenameOut(dd, j, n), how |-> How("rename", dd.funcs[j], dd.funcs[j].outputs[1], n)] :
        <<j, n>> \in {jn \in FIdx(dd) \X (AllOutputs(dd) \cup AllParams(dd)) :
                         jn[2] \notin OutputsOf(dd, jn[1]) /\ (jn[2] \in AllOutputs(dd) \/ jn[2] \in ParamsOf(dd, jn[1]))}}
    \cup
    (* a parameter renamed onto an existing output: the function's own (output = parameter), a downstream one (cycle), or  *)
    (* any other (a legal re-wiring: stays valid)                                                                          *)
    {[op |-> "post_rename_param", desc |-> RenameParam(dd, i, p, n), how |-> How("rename", dd.funcs[i], p, n)] :
        <<i, p, n>> \in {ipn \in FIdx(dd) \X AllParams(dd) \X AllOutputs(dd) :
                            ipn[2] \in ParamsOf(dd, ipn[1]) /\ ipn[3] \notin ParamsOf(dd, ipn[1])}}
    \cup
    (* a default that contradicts the one another function declares for the same root argument *)
    {[op |-> "post_update_defaults", desc |-> m.desc, how |-> m.how] :
        m \in {[desc |-> SetDefault(dd, ip[1], ip[2]), how |-> How("defaults", dd.funcs[ip[1]], ip[2], "")] :
                  ip \in {x \in FIdx(dd) \X RootArgs(dd) : x[2] \in ParamsOf(dd, x[1]) /\ ~IsBound(dd, x[1], x[2])
                                                          /\ ~(HasMapInputs(dd.funcs[x[1]]) /\ x[2] \in InSpecNames(dd.funcs[x[1]]))}}}
NoMapSpecs(dd) == \A i \in FIdx(dd) : ~dd.funcs[i].has_ms
LastOut(dd)    == dd.funcs[NF(dd)].outputs[1]
(* the root arguments that the functions needed for output o read *)
ReadRoots(dd, o) == {p \in RootArgs(dd) : \E i \in Needed(dd, <<>>, o) : p \in ParamsOf(dd, i) /\ ~IsBound(dd, i, p)}
CallKw(names) == LET s == SetToSeq(names) IN [k \in 1..Len(s) |-> <<s[k], P!KV(s[k])>>]
(* the inputs of the base that are still root arguments of the changed pipeline *)
StillRoots(dd, inputs) == SelectSeq(inputs, LAMBDA pr : pr[1] \in RootArgs(dd))
(* a call-style request for output o of description dd with exactly the keywords that the functions needed for o read *)
CallFor(dd, o, e, b) == [desc |-> dd, inputs |-> CallKw(ReadRoots(dd, o)), cfg |-> Cfg("file_array", TRUE, FALSE), prev |-> b,
                         entry |-> e, out |-> o]
PostMapMutants(b) ==
    {[op |-> m.op, req |-> MapReq([desc |-> m.desc, inputs |-> StillRoots(m.desc, b.inputs)], Cfg("file_array", cl, TRUE), b),
      how |-> m.how] : m \in PostMutations(b), cl \in BOOLEAN}
(* ... followed by a call of ANY output of the changed pipeline (not only the last one: the fault may lie downstream of  *)
(* or beside the requested output, and then no evaluation ever walks into it)                                            *)
PostCallMutants(b) ==
    IF NoMapSpecs(b.desc)
    THEN UNION {{[op |-> m.op, how |-> m.how, req |-> CallFor(m.desc, o, "call", b)] : o \in AllOutputs(m.desc)} :
                    m \in PostMutations(b)}
    ELSE {}

(* --- construction-time faults met through the call side.  Every construction operator on a MapSpec-free base; the       *)
(* ill-formed pipeline is then asked for EVERY one of its outputs through EVERY call-style entry.  For an output inside  *)
(* or downstream of the fault an evaluation stumbles into it sooner or later; for one upstream of it, or in another      *)
(* component of the graph, only a check of the whole pipeline can reject the request - which is what the property asks.  *)
ConstructionOps == {"rename_collision", "added_edge", "changed_default", "default_pair"}
CallOp(op) == CASE op = "rename_collision" -> "rename_collision_call" [] op = "added_edge" -> "added_edge_call"
                [] op = "changed_default" -> "changed_default_call" [] op = "default_pair" -> "default_pair_call"
IllFormedCallMutants(b, entries) ==
    IF ~NoMapSpecs(b.desc) THEN {}
    ELSE UNION {UNION {{[op |-> CallOp(op), how |-> NoHow, req |-> CallFor(m.desc, o, e, b)] :
                            o \in AllOutputs(m.desc), e \in entries} : m \in Apply(op, b)} : op \in ConstructionOps}

(* --- faults at a non-first output of a function with several outputs.  "All outputs of a function have the same axes"  *)
(* is true of the PRODUCER's MapSpec; it says nothing about what a consumer writes, so every output name has to be        *)
(* looked at.  The universe: the C01 cases with a second output y2 and a consumer that has a MapSpec (all consumer kinds,  *)
(* also those the lean C01 universe leaves out for tuple outputs).                                                         *)
(* (written as: every well-formed single-output case with a mapped consumer, given the second output) *)
TupleCases == {[c EXCEPT !.multi = TRUE] :
                  c \in {x \in M!MapCases : ~x.multi /\ M!CaseOK(x) /\ x.cons \in {"elementwise", "partial", "zipnew"}}}
SumSizes(sz) == LET RECURSIVE S(_)
                    S(D) == IF D = {} THEN 0 ELSE LET a == CHOOSE a \in D : TRUE IN sz[a] + S(D \ {a})
                IN S(DOMAIN sz)
TupleKey(c, sz) == M!ConsIdx(c.cons) + 3 * c.ipos + 5 * Len(c.a) + 7 * Len(c.b) + 11 * Len(c.oax) + 13 * SumSizes(sz)
                   + (IF c.a[1] = ":" THEN 17 ELSE 0)
TupleBases == UNION {{[desc |-> M!DescOf(c), inputs |-> M!InputsOf(c, sz)] :
                         sz \in {z \in M!SizeMaps(c) : TupleKey(c, z) % NShardsT = ShardT}} : c \in TupleCases}
(* the valid re-wirings: a consumer of one output of a tuple reads a sibling output instead (same axes, so still valid) *)
SiblingRewirings(b) ==
    LET dd == b.desc IN
    {[b EXCEPT !.desc = RenameParam(dd, x[1], x[2], x[3])] :
        x \in {y \in FIdx(dd) \X AllOutputs(dd) \X AllOutputs(dd) :
                  /\ y[2] \in ParamsOf(dd, y[1]) /\ ~IsBound(dd, y[1], y[2])
                  /\ y[3] # y[2] /\ y[3] \notin ParamsOf(dd, y[1]) /\ FuncOf(dd, y[3]) = FuncOf(dd, y[2])}}
(* the k-th (k > 1) output spec names something that is not the k-th output *)
SignatureAtSibling(b) ==
    {[b EXCEPT !.desc = SetFunc(b.desc, ik[1], [b.desc.funcs[ik[1]] EXCEPT !.ms.outs[ik[2]].name = "nope_out"])] :
         ik \in {x \in FIdx(b.desc) \X (2..3) : b.desc.funcs[x[1]].has_ms /\ x[2] \in DOMAIN b.desc.funcs[x[1]].ms.outs}}
(* the k-th (k > 1) output gets the name of an output of another function *)
RenameOutAt(dd, j, k, new) ==
    LET fn == dd.funcs[j] IN
    SetFunc(dd, j, [fn EXCEPT !.outputs[k] = new,
                              !.ms.outs = [m \in DOMAIN fn.ms.outs |-> IF m = k THEN [fn.ms.outs[m] EXCEPT !.name = new] ELSE fn.ms.outs[m]]])
CollisionAtSibling(b) ==
    {[b EXCEPT !.desc = RenameOutAt(b.desc, x[1], x[2], x[3])] :
         x \in {y \in FIdx(b.desc) \X (2..3) \X AllOutputs(b.desc) :
                   y[2] \in DOMAIN b.desc.funcs[y[1]].outputs /\ y[3] \notin OutputsOf(b.desc, y[1])}}
TupleCfgs == {Cfg("file_array", cl, TRUE) : cl \in BOOLEAN}
TupleMutants(b) ==
    UNION {{[op |-> "axis_names_sibling", req |-> MapReq(m, c, rb), how |-> NoHow] : m \in AxisNames(rb), c \in TupleCfgs} :
              rb \in SiblingRewirings(b)}
    \cup {[op |-> "mapspec_signature_sibling", req |-> MapReq(m, c, b), how |-> NoHow] : m \in SignatureAtSibling(b), c \in TupleCfgs}
    \cup {[op |-> "rename_collision_sibling", req |-> MapReq(m, c, b), how |-> NoHow] : m \in CollisionAtSibling(b), c \in TupleCfgs}

(* --- an axis shared by THREE OR MORE arrays of one MapSpec (the C01 universe zips at most two).  One function f whose   *)
(* MapSpec lists three or four arrays (WideSpecs: all on one axis; ranks mixed; the shared axis at different positions),    *)
(* optionally with one of the arrays - the first, a middle one, the last - PRODUCED by an upstream function p from a root    *)
(* array x of the same axes (the zip then sits in the second generation).  Every root array is resized along every one of    *)
(* its axes, growing (ResizedAxis) and shrinking by one slice: the array that is out of step is the first, a middle or the   *)
(* last one of the MapSpec, longer or shorter than the others.                                                               *)
WideNames == <<"a", "b", "c", "d">>
WideSpecs == {<<<<"i">>, <<"i">>, <<"i">>>>, <<<<"i">>, <<"i">>, <<"i">>, <<"i">>>>, <<<<"i">>, <<"i", "j">>, <<"i">>>>,
              <<<<"i", "j">>, <<"j">>, <<"j", "i">>, <<"j">>>>, <<<<"j">>, <<"i", "j">>, <<"i">>, <<"i">>>>}
WideAxes(ws) == UNION {SeqToSet(ws[k]) : k \in DOMAIN ws}
WideOut(ws)  == IF "j" \in WideAxes(ws) THEN <<"i", "j">> ELSE <<"i">>
WideDesc(ws, prod) ==
    LET ins == [k \in DOMAIN ws |-> [name |-> WideNames[k], axes |-> ws[k]]]
        f   == M!MkFn("f", [k \in DOMAIN ws |-> WideNames[k]] \o <<"s">>, <<"y">>, TRUE, ins, WideOut(ws), <<>>)
        p   == M!MkFn("p", <<"x">>, <<WideNames[prod]>>, TRUE, <<[name |-> "x", axes |-> ws[prod]]>>, ws[prod], <<>>)
    IN  [funcs |-> IF prod = 0 THEN <<f>> ELSE <<p, f>>]
WideInputs(ws, prod, sz) ==
    [k \in DOMAIN ws |-> LET n == IF k = prod THEN "x" ELSE WideNames[k] IN <<n, M!InputArr(n, [m \in DOMAIN ws[k] |-> sz[ws[k][m]]])>>]
    \o <<<<"s", Atom("@s")>>>>
WideBases == UNION {{[desc |-> WideDesc(x[1], x[2]), inputs |-> WideInputs(x[1], x[2], x[3])] :
                         x \in {y \in {ws} \X (0..Len(ws)) \X [WideAxes(ws) -> 1..MaxSize] :
                                   (Len(ws) + y[2] + SumSizes(y[3])) % NShardsD = ShardD}} : ws \in WideSpecs}     \* (sharded like the next family)
(* one slice less along axis k (only where that leaves at least one) *)
RECURSIVE ShrinkAlong(_, _), SizeAlong(_, _)
ShrinkAlong(v, k) == IF k = 1 THEN Arr(SubSeq(v.a, 1, Len(v.a) - 1))
                     ELSE Arr([n \in DOMAIN v.a |-> ShrinkAlong(v.a[n], k - 1)])
SizeAlong(v, k) == IF k = 1 THEN Len(v.a) ELSE SizeAlong(v.a[1], k - 1)
ShrunkAxis(b) == {SetInput(b, pk[1], ShrinkAlong(PGet(b.inputs, pk[1]), pk[2])) :
                      pk \in {q \in ArrayInputs(b) \X (1..3) : q[2] <= ArrayRank(b.desc, q[1]) /\ SizeAlong(PGet(b.inputs, q[1]), q[2]) >= 2}}
WideMutants(b) == {[op |-> "resized_axis_wide", req |-> MapReq(m, c, b), how |-> NoHow] :
                       m \in ResizedAxis(b) \cup ShrunkAxis(b), c \in TupleCfgs}

(* --- MapSpecs that the library derived, next to a hand-written one that disagrees with them.  The chain                   *)
(*       f : a[..], b[..] -> y[yax]      e : y[yax] -> z[yax]      g : a consumer of y or of z                              *)
(* from the C01 cases (no internal axis, no reduction in f, consumer element-wise / partial / zipped with a fresh root).     *)
(*  "nest":     Pipeline([NestedPipeFunc([f, e]), g]) - y and z are mentioned by the combined MapSpec and by g only;         *)
(*  "add_axis": Pipeline([f, e]).add_mapspec_axis("a", axis="m"), then .add(g) with g written for the new axes - f and e     *)
(*              carry rewritten MapSpecs.                                                                                    *)
(* g then gets the axis-name faults (an axis renamed throughout g, two axes swapped in its input spec).  `pre` is what the    *)
(* harness builds by hand before it lets the library derive: the three functions / the two functions before the axis.        *)
ChainCases == {c \in M!MapCases : /\ ~c.multi /\ M!CaseOK(c) /\ c.ipos = 0 /\ c.cons \in {"elementwise", "partial", "zipnew"}
                                  /\ ":" \notin SeqToSet(c.a) /\ ":" \notin SeqToSet(c.b)}
PassOn(yax) == M!MkFn("e", <<"y">>, <<"z">>, TRUE, <<[name |-> "y", axes |-> yax]>>, yax, <<>>)
ChainSizes(c) == [x \in M!AxesUsed(c) |-> IF x = "j" THEN 1 ELSE MaxSize]
(* f, e and the consumer (of `target`: y or z) for output axes yax *)
Chain3(c, yax, target) ==
    LET f  == M!DescOf(c).funcs[1]
        d3 == [funcs |-> <<f, PassOn(M!YAx(c))>> \o M!Consumer(c.cons, yax)]
    IN  IF target = "z" THEN RenameParam(d3, 3, "y", "z") ELSE d3
OnlyConsumerChanged(m, b) == m.desc.funcs[1] = b.desc.funcs[1] /\ m.desc.funcs[2] = b.desc.funcs[2]
NestMutants(c) ==
    UNION {LET b3 == [desc |-> Chain3(c, M!YAx(c), target), inputs |-> M!InputsOf(c, ChainSizes(c))]
               nb == [desc |-> Nest(b3.desc, {1, 2}, "nest"), inputs |-> b3.inputs] IN
           {[op |-> "axis_names_nested", req |-> MapReq([desc |-> Nest(m.desc, {1, 2}, "nest"), inputs |-> m.inputs], cf, nb),
             how |-> [kind |-> "nest", f |-> "f", old |-> "e", new |-> ""], pre |-> m.desc] :
                m \in {x \in AxisNames(b3) : OnlyConsumerChanged(x, b3)}, cf \in TupleCfgs} : target \in {"y", "z"}}
NewAxis == "m"
AddAxisMutants(c) ==
    UNION {LET yax2 == Append(M!YAx(c), NewAxis)
               d3   == Chain3(c, yax2, target)
               pre  == [funcs |-> <<d3.funcs[1], d3.funcs[2]>>]
               d2   == AddMapspecAxis(pre, "a", NewAxis)
               inp  == SetInput([inputs |-> M!InputsOf(c, ChainSizes(c))], "a",
                                M!InputArr("a", Append(M!ShapeFor(c.a, ChainSizes(c), "p"), MaxSize))).inputs
               vb   == [desc |-> [funcs |-> d2.funcs \o <<d3.funcs[3]>>], inputs |-> inp] IN
           {[op |-> "axis_names_added_axis", req |-> MapReq(m, cf, vb),
             how |-> [kind |-> "add_axis", f |-> "g", old |-> "a", new |-> NewAxis], pre |-> pre] :
                m \in {x \in AxisNames(vb) : OnlyConsumerChanged(x, vb)}, cf \in TupleCfgs} : target \in {"y", "z"}}
DerivedKey(c) == M!ConsIdx(c.cons) + 3 * Len(c.a) + 5 * Len(c.b) + (IF c.oax[1] = "i" THEN 0 ELSE 1)
DerivedMutants == UNION {NestMutants(c) \cup AddAxisMutants(c) : c \in {x \in ChainCases : DerivedKey(x) % NShardsD = ShardD}}

(* --- the call side: pipeline(out, **kw) on the C02 descriptions; the valid base call passes every root argument that a  *)
(* needed function reads; one keyword is dropped (missing unless it has a default) or one is added (a name that no        *)
(* needed function takes: surplus; an intermediate on the path: a valid cut, stays valid)                                 *)
CallReq(dd, kw, o, b) == [desc |-> dd, inputs |-> kw, cfg |-> Cfg("file_array", TRUE, FALSE), prev |-> b, entry |-> "call", out |-> o]
CallMutants(b) ==
    IF ~NoMapSpecs(b.desc) THEN {}
    ELSE UNION {LET kw == CallKw(ReadRoots(b.desc, o))  cb == [desc |-> b.desc, inputs |-> kw] IN
                {[op |-> "call_dropped_kw", req |-> CallReq(b.desc, SelectSeq(kw, LAMBDA pr : pr[1] # p), o, cb), how |-> NoHow] :
                     p \in PKeys(kw)}
                \cup {[op |-> "call_added_kw", req |-> CallReq(b.desc, Append(kw, <<n, Atom("@extra")>>), o, cb), how |-> NoHow] :
                     n \in ({"q_extra"} \cup AllParams(b.desc) \cup AllOutputs(b.desc)) \ (PKeys(kw) \cup {o})}
                : o \in AllOutputs(b.desc)}

AllOps == Ops \cup {"unknown_storage_in_dict", "post_rename_output", "post_rename_param", "post_update_defaults",
                    "call_dropped_kw", "call_added_kw", "rename_collision_call", "added_edge_call", "changed_default_call",
                    "default_pair_call", "axis_names_sibling", "mapspec_signature_sibling", "rename_collision_sibling",
                    "resized_axis_wide", "axis_names_nested", "axis_names_added_axis"}
(* the clauses a mutation operator can break (law) *)
OpClauses(op) == CASE op = "rename_collision"  -> {"UniqueOutputs", "OutputNotOwnParam", "Acyclic"}
                   [] op = "added_edge"        -> {"OutputNotOwnParam", "Acyclic"}
                   [] op = "changed_default"   -> {"ConsistentDefaults"}
                   [] op = "default_pair"      -> {"ConsistentDefaults"}
                   [] op = "dropped_input"     -> {"CompleteInputs"}
                   [] op = "added_input"       -> {"NoSurplusInputs"}
                   [] op = "resized_axis"      -> {"ZipDimsOK"}
                   [] op = "changed_rank"      -> {"RankOK"}
                   [] op = "axis_names"        -> {"ConsistentAxes"}
                   [] op = "mapspec_signature" -> {"MapSpecMatchesSignature"}
                   [] op = "unknown_storage"   -> {"KnownStorage"}
                   [] op = "executor_without_parallel" -> {"ExecutorNeedsParallel"}
                   [] op = "unknown_storage_in_dict"   -> {"KnownStorage"}
                   [] op = "post_rename_output"   -> {"UniqueOutputs", "OutputNotOwnParam", "Acyclic", "CompleteInputs"}
                   [] op = "post_rename_param"    -> {"OutputNotOwnParam", "Acyclic", "CompleteInputs"}
                   [] op = "post_update_defaults" -> {"ConsistentDefaults"}
                   [] op = "call_dropped_kw"      -> {"CompleteInputs"}
                   [] op = "call_added_kw"        -> {"NoSurplusInputs"}
                   [] op = "rename_collision_call" -> {"UniqueOutputs", "OutputNotOwnParam", "Acyclic"}
                   [] op = "added_edge_call"       -> {"OutputNotOwnParam", "Acyclic"}
                   [] op = "changed_default_call"  -> {"ConsistentDefaults"}
                   [] op = "default_pair_call"     -> {"ConsistentDefaults"}
                   [] op = "axis_names_sibling"        -> {"ConsistentAxes"}
                   [] op = "mapspec_signature_sibling" -> {"MapSpecMatchesSignature"}
                   [] op = "rename_collision_sibling"  -> {"UniqueOutputs", "OutputNotOwnParam", "Acyclic"}
                   [] op = "resized_axis_wide"         -> {"ZipDimsOK"}
                   [] op = "axis_names_nested"         -> {"ConsistentAxes"}
                   [] op = "axis_names_added_axis"     -> {"ConsistentAxes"}

(* ("illformed_call": through pipeline(out, **kw); "illformed_run_func": the same requests through run and func) *)
AllFamilies == {"basic", "storage_dict", "post_map", "post_call", "call_kw", "illformed_call", "illformed_run_func", "tuple_output",
                "wide_zip", "derived_mapspec"}
ASSUME Families \subseteq AllFamilies
PerBaseFamilies == {"basic", "storage_dict", "post_map", "post_call", "call_kw", "illformed_call", "illformed_run_func"}
Mutants == UNION {(IF "basic" \in Families THEN BasicMutants(b) ELSE {})
                  \cup (IF "storage_dict" \in Families THEN StorageDictMutants(b) ELSE {})
                  \cup (IF "post_map" \in Families THEN PostMapMutants(b) ELSE {})
                  \cup (IF "post_call" \in Families THEN PostCallMutants(b) ELSE {})
                  \cup (IF "call_kw" \in Families THEN CallMutants(b) ELSE {})
                  \cup (IF "illformed_call" \in Families THEN IllFormedCallMutants(b, {"call"}) ELSE {})
                  \cup (IF "illformed_run_func" \in Families THEN IllFormedCallMutants(b, CallEntries \ {"call"}) ELSE {}) :
                     b \in IF Families \cap PerBaseFamilies = {} THEN {} ELSE Bases}     \* (the C01/C02 bases are not even enumerated then)
           \cup (IF "tuple_output" \in Families THEN UNION {TupleMutants(b) : b \in TupleBases} ELSE {})
           \cup (IF "wide_zip" \in Families THEN UNION {WideMutants(b) : b \in WideBases} ELSE {})
           \cup (IF "derived_mapspec" \in Families THEN DerivedMutants ELSE {})

---------------------------------------------------------------------------
(* universe part: one behaviour of the Prepare machine per mutant *)
MInit == mut \in Mutants /\ PrepareInit(mut.req) /\ tid = 0 /\ l = 0
MNext == PrepareNext /\ l' = l + 1 /\ UNCHANGED <<mut, tid>>          \* l counts the steps
MSpec == MInit /\ [][MNext]_allvars

AtSecond  == l = 1                                   \* the laws are evaluated once per mutant, by the worker threads
BaseReq   == IF mut.op \in {"call_dropped_kw", "call_added_kw"}
             THEN CallReq(mut.req.prev.desc, mut.req.prev.inputs, mut.req.out, mut.req.prev)
             ELSE MapReq(mut.req.prev, Cfg("file_array", mut.req.cfg.cleanup, TRUE), mut.req.prev)
LawBaseValid      == Valid(BaseReq)                                        \* mutation starts from valid requests
LawConj(v)        == (v = "none") <=> ValidConj(mut.req)                   \* Valid is the conjunction of the clauses
LawOpClause(v)    == v \in OpClauses(mut.op) \cup {"none"}                 \* an operator breaks only its own clauses
LawMapDenote      == LawAgreesWithMapDenote(mut.req)                       \* the shape clauses are C01's ValidMapRequest
LawEntryBlind     == ConstructionVerdictIsEntryBlind(mut.req)              \* a construction verdict belongs to the pipeline
LawAxesRole       == LawAxesByRole(mut.req.desc)                           \* every output spec of a producer counts
LawDefaultsSym    == LawDefaultsSymmetric(mut.req.desc)                    \* defaults: neither order nor the values matter
(* every array of a zip counts, in any listing order (evaluated for the resized-axis mutants) *)
LawZipAll         == mut.op \in {"resized_axis", "resized_axis_wide"} => LawZipIsAboutAllArrays(mut.req.desc, mut.req.inputs)
(* the derived MapSpecs: nesting keeps the verdict about the arrays; a fresh axis keeps a consistent pipeline consistent *)
LawDerived        == /\ mut.how.kind = "nest" => /\ LawNestKeepsAxesVerdict(mut.pre, {1, 2})
                                                 /\ Nestable(mut.pre, {1, 2}) /\ ~ConsistentAxes(mut.pre) => ~ConsistentAxes(mut.req.desc)
                     /\ mut.how.kind = "add_axis" => LawAddAxisKeepsConsistency(mut.pre, mut.how.old, mut.how.new)
Laws == AtSecond => LET v == FirstViolated(mut.req) IN LawBaseValid /\ LawConj(v) /\ LawOpClause(v) /\ LawMapDenote /\ LawEntryBlind
                                                       /\ LawAxesRole /\ LawDefaultsSym /\ LawZipAll /\ LawDerived
InvRejectIsPure       == RejectIsPure
StorageMutantsOnly    == mut.op \in {"unknown_storage", "unknown_storage_in_dict"}   \* CONSTRAINTs of the runs that look for
CallMutantsOnly       == mut.op \in {"call_dropped_kw", "call_added_kw"}            \* the implementation-shaped orderings
InvNoCodeBeforeAccept == NoCodeBeforeAccept
InvOnlyReject         == OnlyReject
InvValidAccepted      == ValidAccepted
(* end states: a request that is not valid ends rejected, a valid one returned unless it is a different run continuing  *)
(* the folder                                                                                                          *)
InvEnds == /\ pc = "rejected" => (~Valid(req) \/ ~Continues(req))
           /\ pc = "returned" => Valid(req)
Stage(v) == IF v \in ConstructionClauses THEN "construct" ELSE IF v = "none" THEN "none" ELSE "map"
Emit == ~AtSecond \/
        LET v == FirstViolated(mut.req) IN
        IF v = "none" THEN PrintT(<<"STAYED_VALID", ToJson([op |-> mut.op])>>)
        ELSE PrintT(<<"CASE", ToJson([op |-> mut.op, req |-> mut.req, how |-> mut.how, violated |-> v, stage |-> Stage(v),
                                       pre |-> IF "pre" \in DOMAIN mut THEN mut.pre ELSE [funcs |-> <<>>]])>>)

---------------------------------------------------------------------------
(* trace part: {desc, inputs, cfg, prev, ev: [{e: "outcome", outcome: "rejected"|"returned", calls: Nat, folder_changed: BOOLEAN}]} *)
Traces == IF "TRACE_FILE" \in DOMAIN IOEnv THEN ndJsonDeserialize(IOEnv.TRACE_FILE) ELSE <<>>
NT == Len(Traces)
ASSUME \A i \in 1..NT : TLCSet(i, 0)
T  == Traces[tid]
Ev == T.ev[l]
ReqOf(t) == [desc |-> t.desc, inputs |-> t.inputs, cfg |-> t.cfg, prev |-> t.prev, entry |-> t.entry, out |-> t.out]
Init == tid \in 1..NT /\ l = 1 /\ mut = 0 /\ PrepareInit(ReqOf(T))
(* the unlogged steps of the machine *)
TStep == PrepareNext /\ UNCHANGED <<mut, tid, l>>
(* the recorded outcome is the end state of the machine: same verdict; no user code ran before a rejection (a run that   *)
(* continues a complete previous run may return without calling anything: C05); a rejection left a folder opened with  *)
(* cleanup=False as it was                                                                                             *)
TOutcome == /\ l <= Len(T.ev) /\ Ev.e = "outcome" /\ l' = l + 1 /\ UNCHANGED <<mut, tid, pvars>>
            /\ pc \in {"rejected", "returned"}
            /\ Ev.outcome = pc
            /\ pc = "rejected" => Ev.calls = 0
            /\ (pc = "rejected" /\ ~req.cfg.cleanup) => ~Ev.folder_changed
Next == TStep \/ TOutcome
Spec == Init /\ [][Next]_allvars
Track == IF l > TLCGet(tid) THEN TLCSet(tid, l) ELSE TRUE
(* the verdict of the specification for a trace, printed with every rejection for the report *)
VerdictOf(i) == LET v == FirstViolated(ReqOf(Traces[i])) IN
                IF v = "none" /\ ~Continues(ReqOf(Traces[i])) THEN "NotThePreviousRun" ELSE v
Accepted == \A i \in 1..NT : (TLCGet(i) = Len(Traces[i].ev) + 1)
                              \/ (PrintT(<<"REJECT", i, TLCGet(i)>>) /\ PrintT(<<"VERDICT", i, VerdictOf(i)>>))
=============================================================================
