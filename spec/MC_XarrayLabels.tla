--------------------------- MODULE MC_XarrayLabels --------------------------
(* Mechanism A for C19: the labels of the xarray Dataset of every member of the C01 universe (MC_MapDenote)      *)
(* whose mapped inputs are 1-D or 2-D (values are pairwise distinct atoms by construction), for every selection  *)
(* of outputs the loaders offer (all outputs / one output) and load_intermediate on/off.  The laws of            *)
(* XarrayLabels are INVARIANTs per case; Emit prints the expected dataset structure of every case.               *)
(*   Mode = "universe": cases come from the TLA+-defined universe below (sharded like MC_MapDenote).              *)
(*   Mode = "file":     cases are descriptions of seeded random pipelines read from IOEnv.CASE_FILE (ndjson:      *)
(*                      {id, desc, inputs, order}); the same laws and the same export.                            *)
(*   Mode = "same":     one dummy case; SameUniverse states that the universe below IS the C01 universe           *)
(*                      restricted to inputs of rank <= 2 (evaluated once, printed by EmitSame).                  *)
EXTENDS XarrayLabels, MC_MapDenote, IOUtils
CONSTANTS MinSize, Mode

(* the C01 universe, enumerated directly per pair of input arrangements (MC_MapDenote filters a much larger product) *)
XASpecs  == {a \in ASpecs : Len(a) <= 2}
XCases   == UNION {UNION {{[a |-> aa, b |-> bb, oax |-> oo, ipos |-> ip, multi |-> mu, cons |-> co] :
                              oo \in Perms(SetToSeq(Named(aa) \cup Named(bb))), ip \in 0..4, mu \in BOOLEAN, co \in Consumers} :
                          bb \in BSpecs} : aa \in XASpecs}
XSizeMaps(c) == [AxesUsed(c) -> MinSize..MaxSize]
(* the generator cases of MC_MapDenote (there: shard 0 only); here part of every shard, they carry load_intermediate *)
GenCases == {[desc |-> GenDesc(co), inputs |-> <<<<"s", Atom("@s")>>>> \o (IF co = "zipnew" THEN <<<<"c", InputArr("c", <<2>>)>>>> ELSE <<>>)] :
                co \in {"none", "elementwise", "full", "zipnew"}}
XUniverseAll == UNION {{[desc |-> DescOf(c), inputs |-> InputsOf(c, sz)] : sz \in XSizeMaps(c)} : c \in {cc \in XCases : CaseOK(cc)}}
                \cup GenCases
XUniverse == UNION {{[desc |-> DescOf(c), inputs |-> InputsOf(c, sz)] : sz \in XSizeMaps(c)} : c \in {cc \in XCases : CaseOK(cc) /\ InShard(cc)}}
             \cup GenCases
UOrder == <<"a", "b", "c", "s", "w", "y", "y2">>          \* all names of the universe, alphabetically

(* Mode "same" (NShards = 1, Shard = 0, MinSize = 1) *)
MappedRankLE2(u) == \A i \in FIdx(u.desc) : \A k \in DOMAIN u.desc.funcs[i].ms.ins :
                        u.desc.funcs[i].ms.ins[k].name \in RootNames(u.desc) => Len(u.desc.funcs[i].ms.ins[k].axes) <= 2
SameUniverse == XUniverseAll = {u \in Universe : MappedRankLE2(u)}

FileCases == ndJsonDeserialize(IOEnv.CASE_FILE)
Cases == CASE Mode = "universe" -> {[id |-> 0, desc |-> u.desc, inputs |-> u.inputs, order |-> UOrder] : u \in XUniverse}
           [] Mode = "file"     -> {FileCases[n] : n \in DOMAIN FileCases}
           [] Mode = "same"     -> {[id |-> 0, same |-> SameUniverse]}

(* `lab` holds what is computed once per case (an operator over `case` is re-evaluated at every use):             *)
(* whether the case is in scope, its denotation and the static analysis of its description                        *)
VARIABLE lab
XInit == /\ case \in Cases
         /\ lab = LET sup == Mode # "same" /\ Supported(case.desc, case.inputs)
                  IN  IF sup THEN [sup |-> TRUE, den |-> Den, an |-> Analysis(case.desc)]
                      ELSE [sup |-> FALSE]
XSpec == XInit /\ [][UNCHANGED <<case, lab>>]_<<case, lab>>

---------------------------------------------------------------------------
D   == case.desc
Ord == case.order
Sup == lab.sup
Dn  == lab.den
An  == lab.an
(* the selections the loaders offer: every output (xarray_dataset_from_results, load_xarray_dataset()) or one *)
Selections == {An.outs} \cup {{o} : o \in An.outs}
Switches   == BOOLEAN

LawSupported   == Sup                                                  \* universe mode: every case is in scope
LawOrder       == Sup => AllOutputs(D) \cup AllParams(D) \subseteq SeqToSet(Ord)
LawDenotation  == Sup => (LawValid /\ LawShape /\ Dn = Den /\ An = Analysis(D))   \* what is exported is THE denotation
LawDimsOK      == Sup => LawDims(D, An, Dn, An.outs)
LawCoordsFit   == Sup => \A S \in Selections : \A li \in Switches : LawCoordFits(An, Dn, S, li)
LawAccepted    == Sup => \A S \in Selections : \A li \in Switches : LawCanonicalAccepted(An, S, li)
LawSwitch      == Sup => \A S \in Selections : LawIntermediate(An, S)
(* the coordinates of a one-output selection are candidate coordinates of the full selection on the same axes,    *)
(* so the selection laws below are stated for the full dataset only                                               *)
LawSingleInAll == Sup => \A o \in An.outs : \A li \in Switches : \A ax \in AxesTuples(An, {o}, li) :
                      /\ ax \in AxesTuples(An, An.outs, li)
                      /\ CandidatesOn(An, {o}, li, ax) \subseteq CandidatesOn(An, An.outs, li, ax)
LawSel         == Sup => \A li \in Switches : LawSelect(An, Dn, An.outs, li)
(* universe only: inputs distinct and no unmapped side paths; one full index per axis exists in both readings *)
LawSelExact    == \A li \in Switches : LawSelectExact(An, Dn, An.outs, li)
LawOneIndex    == \A S \in Selections : \A li \in Switches : OneIndexPerAxes(An, S, li)
LawDistinct    == \A x \in An.leaves : Cardinality(Leaves(Dn[x], Len(An.axes[x]))) = Prod(ShapeOf(Dn[x], Len(An.axes[x])))

---------------------------------------------------------------------------
(* export: one selection by value per candidate coordinate (its last entry), with what every variable then holds *)
LastIndex(shape) == [q \in DOMAIN shape |-> shape[q] - 1]
PickOf(S, li, c) ==
    LET g == SeqToSet(c.levels)  k == LastIndex(CoordShape(Dn, g, c.axes)) IN
    [coord |-> c.name, at |-> k, vals |-> [n \in DOMAIN c.levels |-> At(Dn[c.levels[n]], k)],
     vars |-> {[name |-> o, dims |-> SelDims(An.dims[o], c.axes), values |-> SelVal(An, Dn, o, c.axes, k)] : o \in S}]
ViewOf(S, li) ==
    [sel   |-> S, all |-> (S = An.outs), li |-> li,
     vars  |-> {VarOf(An, o) : o \in S},
     cands |-> CandidateCoords(An, S, li, Ord),
     canon |-> {c.name : c \in Coords(An, S, li, Ord)},
     alts  |-> Alternatives(An, S, li, Ord),
     picks |-> IF S = An.outs THEN {PickOf(S, li, c) : c \in CandidateCoords(An, S, li, Ord)} ELSE {}]
EmitLabels == PrintT(<<"CASE", ToJson(IF Sup
           THEN [id |-> case.id, supported |-> TRUE, desc |-> D, inputs |-> case.inputs, order |-> Ord,
                 den |-> [n \in An.outs \cup An.leaves |-> Dn[n]],
                 views |-> {ViewOf(S, li) : S \in Selections, li \in Switches}]
           ELSE [id |-> case.id, supported |-> FALSE])>>)
EmitSame == PrintT(<<"SAME", case.same>>)
=============================================================================
