--------------------------- MODULE MC_XarrayLabels --------------------------
(* Mechanism A for C19: the labels of the xarray Dataset of every member of the C01 universe (MC_MapDenote)      *)
(* whose mapped inputs are 1-D or 2-D (values are pairwise distinct atoms by construction), for every selection  *)
(* of outputs the loaders offer (all outputs / one output) and load_intermediate on/off.  The laws of            *)
(* XarrayLabels are INVARIANTs per case; Emit prints the expected dataset structure of every case.               *)
(*   Mode = "universe": cases come from the TLA+-defined universe below (sharded like MC_MapDenote).              *)
(*   Mode = "file":     cases are descriptions of seeded random pipelines read from IOEnv.CASE_FILE (ndjson:      *)
(*                      {id, desc, inputs, order}); the same laws and the same export.                            *)
(*   Mode = "same":     one dummy case; SameUniverse states that the universe below IS the C01 universe           *)
(*                      restricted to inputs of rank <= 2 (evaluated once, printed by EmitSame).                  *)
(*   Mode = "sources":  the multi-source family below: one axis of the last output is fed by 2-3 sources (root    *)
(*                      inputs, mapped arrays of depth 1 and 2, a rank-2 mapped array whole or reduced), listed   *)
(*                      in the MapSpec in EVERY order (XarrayLabels!LawSourceOrder is checked on them and every    *)
(*                      order is exported, so the code is run on every order).                                     *)
(*   Mode = "scoped":   members of the universe below under the RENAMINGS that scopes produce (XarrayLabels section 6):  *)
(*                      all names / the root inputs / the outputs moved into one scope, the root inputs moved into      *)
(*                      different scopes with one common last component, one input alone.  LawNaming: the analysis,    *)
(*                      denotation and coordinates of the renamed case are the renamed ones of its base case; each is   *)
(*                      exported like any other case, so the code is run with the dotted names.                          *)
EXTENDS XarrayLabels, MC_MapDenote, IOUtils
CONSTANTS MinSize, Mode,
          Thin, Phase      \* Mode "scoped": of all <<universe case, kind of renaming>> pairs, in one fixed enumeration, every Thin-th from Phase

(* the C01 universe, enumerated directly per pair of input arrangements (MC_MapDenote filters a much larger product) *)
XASpecs  == {a \in ASpecs : Len(a) <= 2}
XCases   == UNION {UNION {{[a |-> aa, b |-> bb, oax |-> oo, ipos |-> ip, multi |-> mu, cons |-> co] :
                              oo \in Perms(SetToSeq(Named(aa) \cup Named(bb))), ip \in 0..4, mu \in BOOLEAN, co \in Consumers} :
                          bb \in BSpecs} : aa \in XASpecs}
XSizeMaps(c) == [AxesUsed(c) -> MinSize..MaxSize]
(* the generator cases of MC_MapDenote (there: shard 0 only); here part of every shard, they carry load_intermediate *)
GenCases == {[desc |-> GenDesc(co), inputs |-> <<<<"s", Atom("@s")>>>> \o (IF co = "zipnew" THEN <<<<"c", InputArr("c", <<2>>)>>>> ELSE <<>>)] :
                co \in {"none", "elementwise", "full", "zipnew"}}
XUniverseAll == UNION {{[desc |-> DescOf(c), inputs |-> InputsOf(c, sz)] : sz \in XSizeMaps(c)} : c \in {cc \in XCases : CaseOK(cc)}}
                \cup GenCases
XUniverse == UNION {{[desc |-> DescOf(c), inputs |-> InputsOf(c, sz)] : sz \in XSizeMaps(c)} : c \in {cc \in XCases : CaseOK(cc) /\ InShard(cc)}}
             \cup GenCases
UOrder == <<"a", "b", "c", "s", "w", "y", "y2">>          \* all names of the universe, alphabetically

(* Mode "same" (NShards = 1, Shard = 0, MinSize = 1) *)
MappedRankLE2(u) == \A i \in FIdx(u.desc) : \A k \in DOMAIN u.desc.funcs[i].ms.ins :
                        u.desc.funcs[i].ms.ins[k].name \in RootNames(u.desc) => Len(u.desc.funcs[i].ms.ins[k].axes) <= 2
SameUniverse == XUniverseAll = {u \in Universe : MappedRankLE2(u)}

---------------------------------------------------------------------------
(* Multi-source axes.  The last function h maps over a sequence of SOURCES that all carry axis i:                 *)
(*     c[i], e[i]              root inputs                                                                        *)
(*     x[i], v[i]              mapped arrays one step from a root:   a[i] -> x[i]      b[i] -> v[i]               *)
(*     u[i]                    two steps, itself zipping a root BEFORE a mapped array:                            *)
(*                                                                   d[i] -> t[i]      g[i], t[i] -> u[i]         *)
(*     y[i, j]  or  y[i, :]    a rank-2 mapped array, whole or with j reduced:    p[i], q[j] -> y[i, j]           *)
(* A case is an injective sequence of 2..3 of these (at most one spec of y): EVERY order of every choice, so a    *)
(* root input is listed before and after a mapped array, between two of them, two mapped arrays are zipped, ...   *)
(* h's PARAMETERS are in one fixed order whatever the order in the MapSpec, so all orders of one choice denote    *)
(* the same arrays and must be labelled alike (LawOrderFree below).                                                *)
SrcI(n)   == [name |-> n, axes |-> One("i")]
YWhole    == [name |-> "y", axes |-> <<"i", "j">>]
YReduced  == [name |-> "y", axes |-> <<"i", ":">>]
SrcPool   == {SrcI("c"), SrcI("e"), SrcI("x"), SrcI("v"), SrcI("u"), YWhole, YReduced}
SrcPool3  == IF Rich THEN SrcPool ELSE {SrcI("c"), SrcI("x"), SrcI("v"), SrcI("u"), YWhole}      \* triples: 5 of the 7 unless Rich
SrcSeqs   == {s \in [1..2 -> SrcPool] \cup [1..3 -> SrcPool3] : \A k1, k2 \in DOMAIN s : k1 # k2 => s[k1].name # s[k2].name}
(* the functions that produce a source, and the root inputs (with their axis) that it brings along *)
SrcProducers(n) ==
    CASE n = "x" -> One(MkFn("fx", One("a"), One("x"), TRUE, One(SrcI("a")), One("i"), NoSeq))
      [] n = "v" -> One(MkFn("fv", One("b"), One("v"), TRUE, One(SrcI("b")), One("i"), NoSeq))
      [] n = "u" -> <<MkFn("ft", One("d"), One("t"), TRUE, One(SrcI("d")), One("i"), NoSeq),
                      MkFn("fu", <<"g", "t">>, One("u"), TRUE, <<SrcI("g"), SrcI("t")>>, One("i"), NoSeq)>>
      [] n = "y" -> One(MkFn("fy", <<"p", "q">>, One("y"), TRUE, <<SrcI("p"), [name |-> "q", axes |-> One("j")]>>, <<"i", "j">>, NoSeq))
      [] OTHER   -> NoSeq
SrcRoots(n) ==
    CASE n = "x" -> One(<<"a", "i">>) [] n = "v" -> One(<<"b", "i">>) [] n = "u" -> <<<<"d", "i">>, <<"g", "i">>>>
      [] n = "y" -> <<<<"p", "i">>, <<"q", "j">>>> [] OTHER -> One(<<n, "i">>)
RECURSIVE CatMap(_, _)                                         \* concatenation of F[s[1]], F[s[2]], ... (F a function value)
CatMap(F, s) == IF Len(s) = 0 THEN NoSeq ELSE F[Head(s)] \o CatMap(F, Tail(s))
SrcNames  == {"c", "e", "u", "v", "x", "y"}
ParamsFor(s) == SelectSeq(<<"c", "e", "u", "v", "x", "y">>, LAMBDA n : \E k \in DOMAIN s : s[k].name = n)
SrcDesc(s) ==
    LET wax == IF \E k \in DOMAIN s : s[k] = YWhole THEN <<"i", "j">> ELSE One("i")
    IN  [funcs |-> CatMap([n \in SrcNames |-> SrcProducers(n)], ParamsFor(s))
                   \o One(MkFn("h", ParamsFor(s), One("w"), TRUE, s, wax, NoSeq))]
SrcAxes(s)   == {"i"} \cup (IF \E k \in DOMAIN s : s[k].name = "y" THEN {"j"} ELSE {})
SrcInputs(s, sz) ==
    LET roots == CatMap([n \in SrcNames |-> SrcRoots(n)], ParamsFor(s))
    IN  [k \in DOMAIN roots |-> <<roots[k][1], InputArr(roots[k][1], One(sz[roots[k][2]]))>>]
(* sharded over TLC processes by position in one fixed enumeration of the source sequences *)
SrcShard    == LET q == SetToSeq(SrcSeqs) IN {q[k] : k \in {n \in DOMAIN q : n % NShards = Shard}}
SrcUniverse == UNION {{[desc |-> SrcDesc(s), inputs |-> SrcInputs(s, sz)] : sz \in [SrcAxes(s) -> MinSize..MaxSize]} : s \in SrcShard}
SOrder == <<"a", "b", "c", "d", "e", "g", "p", "q", "t", "u", "v", "w", "x", "y">>   \* all names of the family, alphabetically

---------------------------------------------------------------------------
(* Scoped names.  A KIND of renaming says which names of a universe case get which dotted name:                    *)
(*     "all"      every parameter and output into scope sc         (Pipeline(..., scope="sc"))                      *)
(*     "inputs"   the root inputs into scope sc                    (update_scope("sc", inputs="*")): >= 2 root      *)
(*                inputs - mapped arrays of equal length among them - share the prefix "sc."                       *)
(*     "outputs"  the outputs into scope sc                        (update_scope("sc", outputs="*"))                *)
(*     "leaf"     the root inputs into DIFFERENT scopes with one common last component: p.v, q.v, r.v, t.v          *)
(*     "one"      input a alone into scope sc: one name of a zipped pair is dotted, the other is not, and the       *)
(*                alphabetical order of the levels of their index changes ("a:b" becomes "b:sc.a")                  *)
(* Names that a case does not have are not renamed; a pair whose renaming is empty is not a member.                 *)
ScopeKinds == <<"all", "inputs", "outputs", "leaf", "one">>
LeafNames  == [a |-> "p.v", b |-> "q.v", c |-> "r.v", s |-> "t.v"]
RenamingOf(kind, d) ==
    CASE kind = "all"     -> ScopeRenaming("sc", NamesOf(d))
      [] kind = "inputs"  -> ScopeRenaming("sc", RootNames(d))
      [] kind = "outputs" -> ScopeRenaming("sc", AllOutputs(d))
      [] kind = "leaf"    -> [n \in RootNames(d) \cap DOMAIN LeafNames |-> LeafNames[n]]
      [] kind = "one"     -> ScopeRenaming("sc", NamesOf(d) \cap {"a"})
(* all names of a renamed case, alphabetically (TLC cannot compare strings; the harness asserts that it IS sorted):   *)
(* a common prefix keeps the order of UOrder, "sc." sorts after "s" and before "w"                                    *)
ScopedOrder(kind, r, d) == IF kind = "one" THEN SelectSeq(<<"b", "c", "s", "sc.a", "w", "y", "y2">>, LAMBDA n : n \in RenSet(r, NamesOf(d)))
                           ELSE RenSeq(r, SelectSeq(UOrder, LAMBDA n : n \in NamesOf(d)))
ScopedPairs == LET q == SetToSeq(XUniverse)  nk == Len(ScopeKinds)
               IN  UNION {{<<q[k], ScopeKinds[j]>> : j \in {jj \in 1..nk : ((k - 1) * nk + (jj - 1)) % Thin = Phase}} : k \in DOMAIN q}
ScopedCase(u, kind) == LET r == RenamingOf(kind, u.desc)
                       IN  [id |-> 0, desc |-> Renamed(u.desc, r), inputs |-> RenPairs(r, u.inputs), order |-> ScopedOrder(kind, r, u.desc),
                            base |-> u, ren |-> r, kind |-> kind]
ScopedUniverse == {ScopedCase(p[1], p[2]) : p \in {pp \in ScopedPairs : DOMAIN RenamingOf(pp[2], pp[1].desc) # {}}}

FileCases == ndJsonDeserialize(IOEnv.CASE_FILE)
Cases == CASE Mode = "universe" -> {[id |-> 0, desc |-> u.desc, inputs |-> u.inputs, order |-> UOrder] : u \in XUniverse}
           [] Mode = "file"     -> {FileCases[n] : n \in DOMAIN FileCases}
           [] Mode = "same"     -> {[id |-> 0, same |-> SameUniverse]}
           [] Mode = "sources"  -> {[id |-> 0, desc |-> u.desc, inputs |-> u.inputs, order |-> SOrder] : u \in SrcUniverse}
           [] Mode = "scoped"   -> ScopedUniverse

(* `lab` holds what is computed once per case (an operator over `case` is re-evaluated at every use):             *)
(* whether the case is in scope, its denotation and the static analysis of its description                        *)
VARIABLE lab
XInit == /\ case \in Cases
         /\ lab = LET sup == Mode # "same" /\ Supported(case.desc, case.inputs)
                  IN  IF sup THEN [sup |-> TRUE, den |-> Den, an |-> Analysis(case.desc)]
                      ELSE [sup |-> FALSE]
XSpec == XInit /\ [][UNCHANGED <<case, lab>>]_<<case, lab>>

---------------------------------------------------------------------------
D   == case.desc
Ord == case.order
Sup == lab.sup
Dn  == lab.den
An  == lab.an
(* the selections the loaders offer: every output (xarray_dataset_from_results, load_xarray_dataset()) or one *)
Selections == {An.outs} \cup {{o} : o \in An.outs}
Switches   == BOOLEAN

LawSupported   == Sup                                                  \* universe mode: every case is in scope
LawOrder       == Sup => AllOutputs(D) \cup AllParams(D) \subseteq SeqToSet(Ord)
LawDenotation  == Sup => (LawValid /\ LawShape /\ Dn = Den /\ An = Analysis(D))   \* what is exported is THE denotation
(* every axis collects the union of what its sources contribute; the order of the sources in a MapSpec is free:   *)
(* the same analysis (so the same exported views) and the same denotation for every reordering                     *)
LawUnion       == Sup => LawSources(D)
LawOrderFree   == Sup => LawSourceOrder(D, case.inputs, An, Dn)
LawDimsOK      == Sup => LawDims(D, An, Dn, An.outs)
LawCoordsFit   == Sup => \A S \in Selections : \A li \in Switches : LawCoordFits(An, Dn, S, li)
LawAccepted    == Sup => \A S \in Selections : \A li \in Switches : LawCanonicalAccepted(An, S, li)
LawSwitch      == Sup => \A S \in Selections : LawIntermediate(An, S)
(* the coordinates of a one-output selection are candidate coordinates of the full selection on the same axes,    *)
(* so the selection laws below are stated for the full dataset only                                               *)
LawSingleInAll == Sup => \A o \in An.outs : \A li \in Switches : \A ax \in AxesTuples(An, {o}, li) :
                      /\ ax \in AxesTuples(An, An.outs, li)
                      /\ CandidatesOn(An, {o}, li, ax) \subseteq CandidatesOn(An, An.outs, li, ax)
LawSel         == Sup => \A li \in Switches : LawSelect(An, Dn, An.outs, li)
(* universe only: inputs distinct and no unmapped side paths; one full index per axis exists in both readings *)
LawSelExact    == \A li \in Switches : LawSelectExact(An, Dn, An.outs, li)
LawOneIndex    == \A S \in Selections : \A li \in Switches : OneIndexPerAxes(An, S, li)
LawDistinct    == \A x \in An.leaves : Cardinality(Leaves(Dn[x], Len(An.axes[x]))) = Prod(ShapeOf(Dn[x], Len(An.axes[x])))
(* scoped mode only: names are opaque - the renamed case is analysed, denoted and labelled like its base case, renamed; *)
(* distinct names stay distinct (IsRenaming) and every level of every coordinate holds ITS OWN input's value           *)
LawNaming      == LET b == case.base  A0 == Analysis(b.desc) IN
                  /\ LawRenamedAnalysis(b.desc, b.inputs, case.ren, An, Dn)
                  /\ \A S \in {A0.outs} \cup {{o} : o \in A0.outs} : \A li \in Switches : LawRenamedCoords(b.desc, case.ren, An, S, li)
                  /\ \A k1, k2 \in DOMAIN Ord : k1 # k2 => Ord[k1] # Ord[k2]

---------------------------------------------------------------------------
(* export: one selection by value per candidate coordinate (its last entry), with what every variable then holds *)
LastIndex(shape) == [q \in DOMAIN shape |-> shape[q] - 1]
PickOf(S, li, c) ==
    LET g == SeqToSet(c.levels)  k == LastIndex(CoordShape(Dn, g, c.axes)) IN
    [coord |-> c.name, at |-> k, vals |-> [n \in DOMAIN c.levels |-> At(Dn[c.levels[n]], k)],
     vars |-> {[name |-> o, dims |-> SelDims(An.dims[o], c.axes), values |-> SelVal(An, Dn, o, c.axes, k)] : o \in S}]
ViewOf(S, li) ==
    [sel   |-> S, all |-> (S = An.outs), li |-> li,
     vars  |-> {VarOf(An, o) : o \in S},
     cands |-> CandidateCoords(An, S, li, Ord),
     canon |-> {c.name : c \in Coords(An, S, li, Ord)},
     alts  |-> Alternatives(An, S, li, Ord),
     picks |-> IF S = An.outs THEN {PickOf(S, li, c) : c \in CandidateCoords(An, S, li, Ord)} ELSE {}]
EmitLabels == PrintT(<<"CASE", ToJson(IF Sup
           THEN [id |-> case.id, supported |-> TRUE, desc |-> D, inputs |-> case.inputs, order |-> Ord,
                 renaming |-> IF Mode = "scoped" THEN case.kind ELSE "",
                 den |-> [n \in An.outs \cup An.leaves |-> Dn[n]],
                 views |-> {ViewOf(S, li) : S \in Selections, li \in Switches}]
           ELSE [id |-> case.id, supported |-> FALSE])>>)
EmitSame == PrintT(<<"SAME", case.same>>)
=============================================================================
