---------------------------- MODULE PipelineCall ----------------------------
(***************************************************************************)
(* State machine of one top-level call  pipeline(out, kwargs) / Pipeline.run   *)
(* / Pipeline.func(out)(kwargs)  (pipefunc/_pipeline/_base.py: run, _run,   *)
(* _get_func_args, _execute_func) on a description d (PipelineStatic).     *)
(* The property (C02) fixes WHAT is executed (exactly Needed, each once,   *)
(* after its dependencies, with the resolved arguments) and the returned   *)
(* value (Eval); it does not fix the depth-first order of _run, so any     *)
(* dependency-respecting order of Call steps is a behaviour.               *)
(***************************************************************************)
EXTENDS PipelineStatic

VARIABLES d,       \* the description (changes only through Mutate steps, C09)
          phase,   \* "idle" | "running"
          out, kw, mode,   \* the current call: requested output, supplied keywords, "call" | "full"
          done     \* functions executed so far in the current call
cvars == <<d, phase, out, kw, mode, done>>

CallInit(desc) == d = desc /\ phase = "idle" /\ out = "" /\ kw = <<>> /\ mode = "call" /\ done = {}

Begin(o, k, m) == /\ phase = "idle"
                  /\ phase' = "running" /\ out' = o /\ kw' = k /\ mode' = m /\ done' = {}
                  /\ UNCHANGED d

(* the user function of d.funcs[i] is invoked with exactly the resolved arguments `args` *)
Call(i, args) == /\ phase = "running"
                 /\ i \in Needed(d, kw, out) \ done            \* needed, at most once
                 /\ DirectDeps(d, kw, i) \subseteq done         \* after its dependencies
                 /\ \A p \in ParamsOf(d, i) : Source(d, kw, i, p) # "missing"
                 /\ args = ArgsOf(d, kw, i)                     \* bound > keyword > upstream > default
                 /\ done' = done \cup {i}
                 /\ UNCHANGED <<d, phase, out, kw, mode>>

Finish == phase' = "idle" /\ out' = "" /\ kw' = <<>> /\ mode' = "call" /\ done' = {} /\ UNCHANGED d

(* successful return: everything needed ran, nothing else, the value is the denotation *)
Return(v) == /\ phase = "running" /\ mode = "call"
             /\ Defined(d, kw, out) /\ StrictSurplus(d, kw, out) = {}
             /\ done = Needed(d, kw, out)
             /\ v = Eval(d, kw, out)
             /\ Finish
ReturnFull(pairs) == /\ phase = "running" /\ mode = "full"
                     /\ Defined(d, kw, out) /\ StrictSurplus(d, kw, out) = {}
                     /\ done = Needed(d, kw, out)
                     /\ pairs = {<<n, ValOf(d, kw, n)>> : n \in FullOutputNames(d, kw, out)}
                     /\ Finish
(* surplus keywords are rejected (the code detects them after running the needed functions) *)
RaiseUnused == /\ phase = "running" /\ Surplus(d, kw, out) # {} /\ Defined(d, kw, out) /\ Finish
(* an argument without any source *)
RaiseMissing == /\ phase = "running" /\ ~Defined(d, kw, out) /\ Finish
(* the requested output may not be supplied itself *)
RaiseOutputSupplied == /\ phase = "running" /\ PHas(kw, out) /\ done = {} /\ Finish

DoneOnlyNeeded == phase = "running" => done \subseteq Needed(d, kw, out)
=============================================================================
