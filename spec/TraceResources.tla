--------------------------- MODULE TraceResources ---------------------------
(* Trace validation for Resources (property C20, side-effect freedom as a history property).       *)
(* Each line of the ndjson file is one recorded history of real pipefunc `Resources` objects:      *)
(*   {start: [obj,...], ev: [{op, a, kw, raised, snap}]}                                           *)
(* op/a/kw = the combinator call (operand ids are positions in the object list), raised = 1 iff it *)
(* raised, snap = the tokenised value of EVERY object alive after the call (the new one last).     *)
(* An event is explained iff every object that existed before is unchanged (ExistingUnchanged),    *)
(* exactly one object was added unless the call raised, and the new object / the raise is an       *)
(* allowed outcome of the operator in Resources.tla (ResultOK / Raises).                           *)
(* An OBSERVATION event (op = "slurm": to_slurm_options of object a[1]) carries `opts`, the tokens   *)
(* of the returned string ([flag, val] records, Resources!Tok); it creates nothing, changes nothing *)
(* and its tokens must satisfy Resources!SlurmOK for the current value of that object.             *)
(* Objects use the JSON shape of MC_Resources!Enc: extra_args as [key, value] pairs.               *)
EXTENDS Resources, Json, IOUtils, TLCExt
Traces == ndJsonDeserialize(IOEnv.TRACE_FILE)
NT == Len(Traces)
ASSUME \A i \in 1..NT : TLCSet(i, 0)

VARIABLES tid, l, objs
T  == Traces[tid]
Ev == T.ev[l]

ExtraOf(ps) == LET S == {ps[i] : i \in DOMAIN ps}
               IN  [k \in {p[1] : p \in S} |-> (CHOOSE p \in S : p[1] = k)[2]]
Dec(j) == [cpus |-> j.cpus, gpus |-> j.gpus, nodes |-> j.nodes, cpus_per_node |-> j.cpus_per_node,
           memory |-> j.memory, time |-> j.time, partition |-> j.partition, extra |-> ExtraOf(j.extra),
           mode |-> j.mode]
DecAll(js) == [i \in DOMAIN js |-> Dec(js[i])]
DecKw(kw)  == [i \in DOMAIN kw |-> IF kw[i][1] = "extra_args" THEN <<kw[i][1], ExtraOf(kw[i][2])>> ELSE kw[i]]

Init == /\ tid \in 1..NT /\ l = 1
        /\ objs = DecAll(T.start)

Step == /\ l <= Len(T.ev)
        /\ LET o    == [op |-> Ev.op, a |-> Ev.a, kw |-> DecKw(Ev.kw)]
               snap == DecAll(Ev.snap)
           IN  /\ ExistingUnchanged(objs, snap)
               /\ IF Ev.op = "slurm"
                  THEN Ev.raised = 0 /\ Len(snap) = Len(objs) /\ ObservationOK(objs, o, Ev.opts)
                  ELSE IF Ev.raised = 1
                  THEN Len(snap) = Len(objs) /\ Raises(objs, o)
                  ELSE Len(snap) = Len(objs) + 1 /\ ResultOK(objs, o, snap[Len(snap)])
               /\ objs' = snap
        /\ l' = l + 1 /\ UNCHANGED tid

Spec == Init /\ [][Step]_<<tid, l, objs>>

Track == IF l > TLCGet(tid) THEN TLCSet(tid, l) ELSE TRUE
InvValid == \A i \in DOMAIN objs : Valid(objs[i])
Accepted == \A i \in 1..NT : (TLCGet(i) = Len(Traces[i].ev) + 1) \/ PrintT(<<"REJECT", i, TLCGet(i)>>)
=============================================================================
