------------------------------ MODULE Validity ------------------------------
(***************************************************************************)
(* C12 - ill-formed pipelines and inputs are rejected before any user code *)
(* runs, and without altering a run folder opened with cleanup=False.      *)
(*                                                                         *)
(* A REQUEST is  r = [desc, inputs, cfg, prev, entry, out]  with           *)
(*   desc    a pipeline description (PipelineStatic / MapDenote) - the     *)
(*           pipeline AS IT IS when the request arrives, whether it was    *)
(*           constructed like that or a member function was changed later  *)
(*           (update_renames / update_defaults on pipeline[name]),         *)
(*   inputs  pairs name -> value (arrays are nested "#arr" terms); the     *)
(*           keyword arguments when entry = "call",                        *)
(*   cfg     [storage : STRING, sdict : Seq([key : Seq(STRING), name :     *)
(*            STRING]), parallel, executor, cleanup, folder : BOOLEAN]     *)
(*            (sdict = the per-output storage dictionary in insertion      *)
(*            order, key <<>> = the default entry "", empty = `storage`    *)
(*            is the single name; executor = "an Executor is passed", bare *)
(*            or as a dictionary; ekeys = the keys of the dictionary form  *)
(*            ({"": pool}, {"y": pool, "": pool}), <<>> = a bare Executor; *)
(*            folder = "a run folder is given"),                           *)
(*   prev    [desc, inputs]: the (valid, completed) run whose results the  *)
(*            run folder holds when the request arrives,                   *)
(*   entry   "map" (Pipeline.map) | one of the call-style entries "call"   *)
(*           (pipeline(out, **kw)), "run" (pipeline.run(out, kwargs=kw,    *)
(*           full_output=True)), "func" (pipeline.func(out) called with kw), *)
(*   out     the requested output of a call ("" for map).  ANY output may  *)
(*           be requested, also one that the ill-formed part of the        *)
(*           pipeline does not reach (upstream of a cycle, unrelated to a  *)
(*           duplicate): the construction-time clauses speak about the     *)
(*           pipeline, not about the part an evaluation would visit.       *)
(* Valid(r) is the conjunction of the NAMED clauses below, in the order in *)
(* which the code can evaluate them (PipeFunc/Pipeline construction, then  *)
(* pipefunc/map/_prepare.py prepare_run, then _run_info.py RunInfo.create).*)
(* A later clause is only meaningful when the earlier ones hold, so        *)
(* FirstViolated(r) names the first clause that fails ("none" = valid).    *)
(*                                                                         *)
(* The Prepare state machine replays prepare_run / RunInfo.create as one   *)
(* sub-action per step with an abstract run folder `disk`; the invariant   *)
(* RejectIsPure says that a rejected request ran no user code and left a   *)
(* folder opened with cleanup=False untouched.  Where the unknown-storage  *)
(* check sits is a switch: "early" (required: every name resolved first),  *)
(* "late" (InitStore, after DumpRunInfo - the pinned commit) or "any" (the *)
(* string resolved first, a dictionary through any(...) that stops at the  *)
(* first storage that requires serialization).  Where a call looks at its  *)
(* keywords is the switch KwargCheck: "early" (required) or "late" (a      *)
(* missing argument when the evaluation reaches it, surplus keywords after *)
(* everything ran).                                                        *)
(***************************************************************************)
EXTENDS MapDenote, SequencesExt

KnownStorages == {"dict", "file_array", "shared_memory_dict"}

---------------------------------------------------------------------------
(* Construction-time clauses (PipeFunc.__init__, Pipeline.add / _validate). *)

(* no output name is produced twice (validate_unique_output_names) *)
UniqueOutputs(dd) ==
    /\ \A i \in FIdx(dd) : \A k1, k2 \in DOMAIN dd.funcs[i].outputs : k1 # k2 => dd.funcs[i].outputs[k1] # dd.funcs[i].outputs[k2]
    /\ \A i, j \in FIdx(dd) : i # j => OutputsOf(dd, i) \cap OutputsOf(dd, j) = {}
(* an output is not named like one of the function's own parameters (PipeFunc._validate_names) *)
OutputNotOwnParam(dd) == \A i \in FIdx(dd) : OutputsOf(dd, i) \cap ParamsOf(dd, i) = {}
(* Acyclic: PipelineStatic!Acyclic (networkx refuses to sort a cyclic graph) *)
(* shared root arguments carry one default value (validate_consistent_defaults) *)
(* A default is a VALUE like any other: None, 0, "" and the empty tuple are values, not "no default".  Which function  *)
(* declares which value, and in which order the functions are listed, is immaterial: two declarations agree iff the    *)
(* values are equal.                                                                                                   *)
Declares(dd, i, p)      == PHas(dd.funcs[i].defaults, p) /\ ~IsBound(dd, i, p)
DeclaredDefaults(dd, p) == {PGet(dd.funcs[i].defaults, p) : i \in {j \in FIdx(dd) : Declares(dd, j, p)}}
ConsistentDefaults(dd) == \A p \in AllParams(dd) \ AllOutputs(dd) : Cardinality(DeclaredDefaults(dd, p)) <= 1
(* the same clause said pair by pair, and two symmetries of it (laws, checked by TLC for every case):                  *)
ConsistentDefaultsPairwise(dd) ==
    \A p \in AllParams(dd) \ AllOutputs(dd) : \A i, j \in FIdx(dd) :
        (Declares(dd, i, p) /\ Declares(dd, j, p)) => PGet(dd.funcs[i].defaults, p) = PGet(dd.funcs[j].defaults, p)
ReverseFuncs(dd) == [dd EXCEPT !.funcs = [k \in 1..NF(dd) |-> dd.funcs[NF(dd) + 1 - k]]]
(* every declared default that equals v1 becomes v2 and vice versa (None <-> 3, 0 <-> "x", ...) *)
SwapDefaultValues(dd, v1, v2) ==
    [dd EXCEPT !.funcs = [k \in 1..NF(dd) |-> [dd.funcs[k] EXCEPT !.defaults =
        [m \in DOMAIN dd.funcs[k].defaults |->
            LET pr == dd.funcs[k].defaults[m] IN <<pr[1], IF pr[2] = v1 THEN v2 ELSE IF pr[2] = v2 THEN v1 ELSE pr[2]>>]]]]
AllDeclaredDefaults(dd) == UNION {{dd.funcs[i].defaults[m][2] : m \in DOMAIN dd.funcs[i].defaults} : i \in FIdx(dd)}
LawDefaultsSymmetric(dd) ==
    /\ ConsistentDefaults(dd) <=> ConsistentDefaultsPairwise(dd)
    /\ ConsistentDefaults(ReverseFuncs(dd)) <=> ConsistentDefaults(dd)                    \* listing order
    /\ \A v1, v2 \in AllDeclaredDefaults(dd) :                                            \* which value is which
           ConsistentDefaults(SwapDefaultValues(dd, v1, v2)) <=> ConsistentDefaults(dd)
(* a MapSpec speaks about the function it is attached to: its inputs are parameters (none of them bound), its outputs   *)
(* are exactly the function's outputs (PipeFunc._validate_mapspec, Pipeline._validate_mapspec)                          *)
MapSpecMatchesSignature(dd) ==
    \A i \in FIdx(dd) : LET fn == dd.funcs[i] IN fn.has_ms =>
        /\ {fn.ms.ins[k].name : k \in DOMAIN fn.ms.ins} \subseteq ParamsOf(dd, i)
        /\ \A k \in DOMAIN fn.ms.ins : ~IsBound(dd, i, fn.ms.ins[k].name)
        /\ [k \in DOMAIN fn.ms.outs |-> fn.ms.outs[k].name] = fn.outputs
(* all MapSpecs agree about every array: same rank, same axis name at the same position (':' matches anything)          *)
(* (validate_consistent_axes)                                                                                           *)
SpecsOf(dd, n) == UNION {{fn.ms.ins[k] : k \in {m \in DOMAIN fn.ms.ins : fn.ms.ins[m].name = n}}
                         \cup {fn.ms.outs[k] : k \in {m \in DOMAIN fn.ms.outs : fn.ms.outs[m].name = n}}
                         : fn \in {dd.funcs[i] : i \in {j \in FIdx(dd) : dd.funcs[j].has_ms}}}
ArrayNames(dd) == UNION {{fn.ms.ins[k].name : k \in DOMAIN fn.ms.ins} \cup {fn.ms.outs[k].name : k \in DOMAIN fn.ms.outs}
                         : fn \in {dd.funcs[i] : i \in {j \in FIdx(dd) : dd.funcs[j].has_ms}}}
SameAxes(s1, s2) ==
    /\ Len(s1.axes) = Len(s2.axes)
    /\ \A k \in DOMAIN s1.axes : (s1.axes[k] # ":" /\ s2.axes[k] # ":") => s1.axes[k] = s2.axes[k]
ConsistentAxes(dd) == \A n \in ArrayNames(dd) : \A s1, s2 \in SpecsOf(dd, n) : SameAxes(s1, s2)
(* The same clause said by ROLE.  An array has at most one producer - function i, which lists it at SOME position k of  *)
(* its output specs (a function with a tuple output has one output spec per name, and every one of them counts, not    *)
(* only the first) - and any number of consumers.  The producer agrees with every consumer, and the consumers agree    *)
(* with each other (root arrays have consumers only).                                                                  *)
MSFuncs(dd) == {i \in FIdx(dd) : dd.funcs[i].has_ms}
ProducerConsumerAgree(dd) ==
    \A i \in MSFuncs(dd) : \A k \in DOMAIN dd.funcs[i].ms.outs :
        \A j \in MSFuncs(dd) : \A m \in DOMAIN dd.funcs[j].ms.ins :
            dd.funcs[j].ms.ins[m].name = dd.funcs[i].ms.outs[k].name => SameAxes(dd.funcs[i].ms.outs[k], dd.funcs[j].ms.ins[m])
ConsumersAgree(dd) ==
    \A i, j \in MSFuncs(dd) : \A k \in DOMAIN dd.funcs[i].ms.ins : \A m \in DOMAIN dd.funcs[j].ms.ins :
        dd.funcs[i].ms.ins[k].name = dd.funcs[j].ms.ins[m].name => SameAxes(dd.funcs[i].ms.ins[k], dd.funcs[j].ms.ins[m])
LawAxesByRole(dd) == UniqueOutputs(dd) => (ConsistentAxes(dd) <=> (ProducerConsumerAgree(dd) /\ ConsumersAgree(dd)))

(* the construction clauses that do not compare MapSpecs with each other *)
ConstructOK0(dd) == UniqueOutputs(dd) /\ OutputNotOwnParam(dd) /\ Acyclic(dd) /\ ConsistentDefaults(dd) /\ MapSpecMatchesSignature(dd)

---------------------------------------------------------------------------
(* MapSpecs that the LIBRARY derives.  A description says which MapSpec every function carries; it has no field for WHO  *)
(* wrote it.  ConsistentAxes therefore speaks about hand-written MapSpecs and about the ones pipefunc derives itself in  *)
(* exactly the same way: the combined MapSpec of a NestedPipeFunc (NestedPipeFunc._combine_mapspecs) and the MapSpecs    *)
(* rewritten by Pipeline.add_mapspec_axis (_pipeline/_mapspec.py add_mapspec_axis).  The two derivations are operators  *)
(* on descriptions; "consistent by construction" is a LAW about them (below), it holds for the derived MapSpecs among    *)
(* each other - not for a hand-written MapSpec that is put next to them afterwards.                                      *)
SpecsIn(dd, S, n) == UNION {{fn.ms.ins[k] : k \in {m \in DOMAIN fn.ms.ins : fn.ms.ins[m].name = n}}
                            \cup {fn.ms.outs[k] : k \in {m \in DOMAIN fn.ms.outs : fn.ms.outs[m].name = n}}
                            : fn \in {dd.funcs[i] : i \in {j \in S : dd.funcs[j].has_ms}}}
ArrayNamesIn(dd, S) == {n \in ArrayNames(dd) : SpecsIn(dd, S, n) # {}}
(* mapspec_axes: what the MapSpecs of the functions in S say together about array n - at every position the name that    *)
(* some mention gives; a position that every mention reduces (':') is called unnamed_<position>                          *)
MergedAxes(dd, S, n) ==
    LET ms == SpecsIn(dd, S, n)  r == Len((CHOOSE s \in ms : TRUE).axes) IN
    [k \in 1..r |-> IF \E s \in ms : s.axes[k] # ":" THEN (CHOOSE s \in ms : s.axes[k] # ":").axes[k]
                    ELSE "unnamed_" \o ToString(k - 1)]
SubDesc(dd, S) == LET ks == SelectSeq([k \in FIdx(dd) |-> k], LAMBDA k : k \in S) IN [funcs |-> [m \in DOMAIN ks |-> dd.funcs[ks[m]]]]
IndexNames(specs) == UNION {SeqToSet(specs[k].axes) : k \in DOMAIN specs} \ {":"}
(* what NestedPipeFunc asks of the functions it combines: at least two, a well-formed pipeline of their own with a single *)
(* leaf, MapSpecs on all of them or on none, all over the same indices, none reducing                                     *)
Nestable(dd, S) ==
    /\ S \subseteq FIdx(dd) /\ Cardinality(S) >= 2 /\ ConstructOK0(SubDesc(dd, S))
    /\ Cardinality({i \in S : \A j \in S : OutputsOf(dd, i) \cap ParamsOf(dd, j) = {}}) = 1
    /\ \/ \A i \in S : ~dd.funcs[i].has_ms
       \/ \A i, j \in S : /\ dd.funcs[i].has_ms
                          /\ IndexNames(dd.funcs[i].ms.ins) = IndexNames(dd.funcs[i].ms.outs)
                          /\ IndexNames(dd.funcs[i].ms.ins) = IndexNames(dd.funcs[j].ms.ins)
                          /\ \A k \in DOMAIN dd.funcs[i].ms.ins : ":" \notin SeqToSet(dd.funcs[i].ms.ins[k].axes)
(* the function that stands for the functions S: every output of theirs, the parameters that none of them produces; its   *)
(* MapSpec lists the array parameters and all outputs with the merged axes                                                *)
NestedFn(dd, S, name) ==
    LET outs   == SetToSeq(UNION {OutputsOf(dd, i) : i \in S})
        pars   == SetToSeq((UNION {{p \in ParamsOf(dd, i) : ~IsBound(dd, i, p)} : i \in S}) \ SeqToSet(outs))
        mapped == SelectSeq(pars, LAMBDA p : p \in ArrayNamesIn(dd, S))
        dflt   == SelectSeq(pars, LAMBDA p : HasDefault(SubDesc(dd, S), p))
    IN  [name |-> name, params |-> pars, outputs |-> outs,
         defaults |-> [k \in DOMAIN dflt |-> <<dflt[k], DefaultOf(SubDesc(dd, S), dflt[k])>>], bound |-> <<>>,
         has_ms |-> \E i \in S : dd.funcs[i].has_ms,
         ms |-> [ins  |-> [k \in DOMAIN mapped |-> [name |-> mapped[k], axes |-> MergedAxes(dd, S, mapped[k])]],
                 outs |-> IF \E i \in S : dd.funcs[i].has_ms
                          THEN [k \in DOMAIN outs |-> [name |-> outs[k], axes |-> MergedAxes(dd, S, outs[k])]] ELSE <<>>],
         internal |-> <<>>, cache |-> FALSE]
(* Pipeline([NestedPipeFunc([functions S]), the other functions ...]) *)
Nest(dd, S, name) ==
    LET rest == SelectSeq([k \in FIdx(dd) |-> k], LAMBDA k : k \notin S) IN
    [funcs |-> <<NestedFn(dd, S, name)>> \o [m \in DOMAIN rest |-> dd.funcs[rest[m]]]]
(* nesting changes nothing about what the pipeline says about an array that is visible from outside *)
LawNestKeepsAxesVerdict(dd, S) ==
    (Nestable(dd, S) /\ UniqueOutputs(dd)) => (ConsistentAxes(Nest(dd, S, "nest")) <=> ConsistentAxes(dd))

(* Pipeline.add_mapspec_axis(p, axis=ax): every function that takes p (unbound) maps over it along ax as well - the axis   *)
(* is appended to p's input spec (a spec  p[:, ..., ax]  of p's rank r is added when the function took p whole; a function *)
(* without a MapSpec gets  p[:, ..., ax] -> out[ax]) and to every output spec of the function, and the same then happens   *)
(* downstream for each of these outputs.                                                                                  *)
AxesFromDims(r, ax) == [k \in 1..r |-> IF k = r THEN ax ELSE ":"]
WithAxis(axes, ax)  == IF ax \in SeqToSet(axes) THEN axes ELSE Append(axes, ax)
AddAxisFn(fn, p, r, ax) ==
    LET nin  == IF ~fn.has_ms THEN <<[name |-> p, axes |-> AxesFromDims(r, ax)]>>
                ELSE IF \E k \in DOMAIN fn.ms.ins : fn.ms.ins[k].name = p
                     THEN [k \in DOMAIN fn.ms.ins |-> IF fn.ms.ins[k].name = p THEN [fn.ms.ins[k] EXCEPT !.axes = WithAxis(@, ax)]
                                                      ELSE fn.ms.ins[k]]
                     ELSE Append(fn.ms.ins, [name |-> p, axes |-> AxesFromDims(r, ax)])
        nout == IF ~fn.has_ms THEN [k \in DOMAIN fn.outputs |-> [name |-> fn.outputs[k], axes |-> <<ax>>]]
                ELSE [k \in DOMAIN fn.ms.outs |-> [fn.ms.outs[k] EXCEPT !.axes = WithAxis(@, ax)]]
    IN  [fn EXCEPT !.has_ms = TRUE, !.ms = [ins |-> nin, outs |-> nout]]
RECURSIVE AddAxisFrom(_, _, _, _), AddAxisOver(_, _, _)
AddAxisFrom(dd, p, r, ax) ==
    LET users == {i \in FIdx(dd) : p \in ParamsOf(dd, i) /\ ~IsBound(dd, i, p)}
        d1    == [dd EXCEPT !.funcs = [i \in FIdx(dd) |-> IF i \in users THEN AddAxisFn(dd.funcs[i], p, r, ax) ELSE dd.funcs[i]]]
    IN  AddAxisOver(d1, UNION {OutputsOf(dd, i) : i \in users}, ax)
AddAxisOver(dd, names, ax) ==
    IF names = {} THEN dd
    ELSE LET o == CHOOSE o \in names : TRUE
             r == Len(dd.funcs[FuncOf(dd, o)].ms.outs[1].axes)
         IN  AddAxisOver(AddAxisFrom(dd, o, r, ax), names \ {o}, ax)
AddMapspecAxis(dd, p, ax) == AddAxisFrom(dd, p, 1, ax)
AllAxisNames(dd) == UNION {IndexNames(dd.funcs[i].ms.ins) \cup IndexNames(dd.funcs[i].ms.outs) : i \in FIdx(dd)}
(* "consistent by construction": a fresh axis added to a consistent acyclic pipeline leaves it consistent, and every      *)
(* function downstream of p maps over the new axis                                                                        *)
LawAddAxisKeepsConsistency(dd, p, ax) ==
    (ConstructOK0(dd) /\ ConsistentAxes(dd) /\ ax \notin AllAxisNames(dd)) =>
        LET d2 == AddMapspecAxis(dd, p, ax) IN
        /\ ConsistentAxes(d2) /\ MapSpecMatchesSignature(d2)
        /\ \A i \in FIdx(dd) : (p \in ParamsOf(dd, i) /\ ~IsBound(dd, i, p)) => ax \in IndexNames(d2.funcs[i].ms.outs)

ConstructOK(dd) == /\ UniqueOutputs(dd) /\ OutputNotOwnParam(dd) /\ Acyclic(dd) /\ ConsistentDefaults(dd)
                   /\ MapSpecMatchesSignature(dd) /\ ConsistentAxes(dd)

---------------------------------------------------------------------------
(* Clauses of the start of map (prepare_run). *)
(* an executor in either documented form - a bare Executor or a dictionary output name(s) / "" -> Executor (c.ekeys) - *)
(* needs parallel=True (first statement of prepare_run)                                                                *)
ExecutorNeedsParallel(c) == (c.executor \/ c.ekeys # <<>>) => c.parallel
(* the root arguments: parameters that no function produces and that some function takes unbound *)
RootArgs(dd) == {p \in AllParams(dd) \ AllOutputs(dd) : \E i \in FIdx(dd) : p \in ParamsOf(dd, i) /\ ~IsBound(dd, i, p)}
CompleteInputs(dd, inputs)  == \A p \in RootArgs(dd) : PHas(inputs, p) \/ HasDefault(dd, p)
NoSurplusInputs(dd, inputs) == PKeys(inputs) \subseteq RootArgs(dd)
(* every storage name that the request mentions is registered: the single name, or every value of the dictionary *)
StorageNames(c) == IF c.sdict = <<>> THEN <<c.storage>> ELSE [k \in DOMAIN c.sdict |-> c.sdict[k].name]
KnownStorage(c) == \A k \in DOMAIN StorageNames(c) : StorageNames(c)[k] \in KnownStorages

(* Clauses of the start of a call  pipeline(out, **kw) / Pipeline.run  (PipelineStatic): every argument of every needed *)
(* function has a source; no keyword names something that no needed function takes.                                   *)
CallEntries == {"call", "run", "func"}         \* the three spellings of Pipeline.run; they differ in the code, not in the law
Entries     == {"map"} \cup CallEntries
IsCall(r) == r.entry \in CallEntries
CallComplete(r)  == Defined(r.desc, r.inputs, r.out)
CallNoSurplus(r) == StrictSurplus(r.desc, r.inputs, r.out) = {}

(* array shapes, generation by generation as MapDenote!ValidUpTo: the first generation with a fault decides *)
RankFault(dd, env, i) == HasMapInputs(dd.funcs[i]) /\ ~MappedRankOK(dd, env, i)
ZipFault(dd, env, i)  == HasMapInputs(dd.funcs[i]) /\ MappedRankOK(dd, env, i) /\ ~ZipDimsOK(dd, env, i)
RECURSIVE ShapeFault(_, _, _)      \* "none" | "rank" | "zip": fault of the first faulty generation >= g
ShapeFault(dd, inputs, g) ==
    IF g > MaxGen(dd) THEN "none"
    ELSE LET env == EnvGen(dd, inputs, FIdx(dd), g - 1)
             fs  == {i \in FIdx(dd) : GenOf(dd, i) = g}
         IN  IF \E i \in fs : RankFault(dd, env, i) THEN "rank"
             ELSE IF \E i \in fs : ZipFault(dd, env, i) THEN "zip"
             ELSE ShapeFault(dd, inputs, g + 1)
(* mapped arguments are arrays of (at least) the rank their MapSpec says (array_shape / _check_inputs / MapSpec.shape) *)
RankOK(dd, inputs)    == ShapeFault(dd, inputs, 1) # "rank"
(* arrays zipped along a shared axis name have the same size there (MapSpec.shape); this is the clause "ZipDimsOK"   *)
(* (MapDenote!ZipDimsOK is the test for one function)                                                                  *)
ZipOK(dd, inputs) == ShapeFault(dd, inputs, 1) # "zip"

(* The zip clause said per AXIS NAME: all the arrays of one MapSpec that carry the name - however many there are and in    *)
(* whatever order the MapSpec lists them - have ONE size there.  (Comparing some of them - each with its neighbour's        *)
(* neighbour, the first with the last - is not the clause.)                                                                 *)
AxisSizesOf(dd, env, i, a) ==
    LET fn == dd.funcs[i] IN
    {ShapeOf(BoundOrEnv(dd, env, i, fn.ms.ins[km[1]].name), Len(fn.ms.ins[km[1]].axes))[km[2]] :
        km \in {x \in (DOMAIN fn.ms.ins) \X (1..4) : x[2] \in DOMAIN fn.ms.ins[x[1]].axes /\ fn.ms.ins[x[1]].axes[x[2]] = a}}
ZipByAxis(dd, env, i) == \A a \in InputAxisNames(dd.funcs[i]) : Cardinality(AxisSizesOf(dd, env, i, a)) <= 1
(* the listing orders of n MapSpec inputs that the law tries: every rotation and the reversal *)
ListingOrders(n) == {[k \in 1..n |-> ((k + r - 1) % n) + 1] : r \in 0..(n - 1)} \cup {[k \in 1..n |-> n + 1 - k]}
PermuteIns(dd, i, perm) == [dd EXCEPT !.funcs[i].ms.ins = [k \in DOMAIN @ |-> @[perm[k]]]]
RECURSIVE FirstFaultGen(_, _, _)         \* the first generation >= g with a shape fault (MaxGen + 1: none)
FirstFaultGen(dd, inputs, g) ==
    IF g > MaxGen(dd) THEN g
    ELSE LET env == EnvGen(dd, inputs, FIdx(dd), g - 1) IN
         IF \E i \in {j \in FIdx(dd) : GenOf(dd, j) = g} : RankFault(dd, env, i) \/ ZipFault(dd, env, i) THEN g
         ELSE FirstFaultGen(dd, inputs, g + 1)
LawZipIsAboutAllArrays(dd, inputs) ==
    \A i \in {j \in FIdx(dd) : HasMapInputs(dd.funcs[j])} :
        /\ \A perm \in ListingOrders(Len(dd.funcs[i].ms.ins)) :                       \* the listing order is immaterial
               ShapeFault(PermuteIns(dd, i, perm), inputs, 1) = ShapeFault(dd, inputs, 1)
        /\ GenOf(dd, i) <= FirstFaultGen(dd, inputs, 1) =>                            \* (the earlier generations are sound)
               LET env == EnvGen(dd, inputs, FIdx(dd), GenOf(dd, i) - 1) IN
               MappedRankOK(dd, env, i) => (ZipDimsOK(dd, env, i) <=> ZipByAxis(dd, env, i))

ClauseOrder == <<"UniqueOutputs", "OutputNotOwnParam", "Acyclic", "ConsistentDefaults", "MapSpecMatchesSignature",
                 "ConsistentAxes", "ExecutorNeedsParallel", "CompleteInputs", "NoSurplusInputs", "KnownStorage", "RankOK",
                 "ZipDimsOK">>
Holds(r, clause) ==
    CASE clause = "UniqueOutputs"           -> UniqueOutputs(r.desc)
      [] clause = "OutputNotOwnParam"       -> OutputNotOwnParam(r.desc)
      [] clause = "Acyclic"                 -> Acyclic(r.desc)
      [] clause = "ConsistentDefaults"      -> ConsistentDefaults(r.desc)
      [] clause = "MapSpecMatchesSignature" -> MapSpecMatchesSignature(r.desc)
      [] clause = "ConsistentAxes"          -> ConsistentAxes(r.desc)
      [] clause = "ExecutorNeedsParallel"   -> IsCall(r) \/ ExecutorNeedsParallel(r.cfg)
      [] clause = "CompleteInputs"          -> IF IsCall(r) THEN CallComplete(r) ELSE CompleteInputs(r.desc, r.inputs)
      [] clause = "NoSurplusInputs"         -> IF IsCall(r) THEN CallNoSurplus(r) ELSE NoSurplusInputs(r.desc, r.inputs)
      [] clause = "KnownStorage"            -> IsCall(r) \/ KnownStorage(r.cfg)
      [] clause = "RankOK"                  -> IsCall(r) \/ RankOK(r.desc, r.inputs)
      [] clause = "ZipDimsOK"               -> IsCall(r) \/ ZipOK(r.desc, r.inputs)
(* the first clause (in ClauseOrder) that fails; later clauses presuppose the earlier ones *)
RECURSIVE FirstFrom(_, _)
FirstFrom(r, k) == IF k > Len(ClauseOrder) THEN "none"
                   ELSE IF ~Holds(r, ClauseOrder[k]) THEN ClauseOrder[k] ELSE FirstFrom(r, k + 1)
FirstViolated(r) == FirstFrom(r, 1)
Valid(r) == FirstViolated(r) = "none"
(* Valid is the conjunction of the named clauses *)
ValidConj(r) ==
    /\ UniqueOutputs(r.desc) /\ OutputNotOwnParam(r.desc) /\ Acyclic(r.desc) /\ ConsistentDefaults(r.desc)
    /\ MapSpecMatchesSignature(r.desc) /\ ConsistentAxes(r.desc)
    /\ IF IsCall(r) THEN CallComplete(r) /\ CallNoSurplus(r)
       ELSE /\ ExecutorNeedsParallel(r.cfg) /\ CompleteInputs(r.desc, r.inputs) /\ NoSurplusInputs(r.desc, r.inputs)
            /\ KnownStorage(r.cfg) /\ RankOK(r.desc, r.inputs) /\ ZipOK(r.desc, r.inputs)
ConstructionClauses == {"UniqueOutputs", "OutputNotOwnParam", "Acyclic", "ConsistentDefaults", "MapSpecMatchesSignature",
                        "ConsistentAxes"}
(* The verdict of a construction-time clause belongs to the PIPELINE: it is the same whichever entry is used, whichever   *)
(* output is requested and whatever keywords / inputs / configuration come with the request.  (pipefunc has no separate   *)
(* "is the graph acyclic" step: a cycle is noticed where some code happens to sort the graph topologically - while the    *)
(* MapSpec axes are generated at construction, in mapspec_names at the start of run, in prepare_run at the start of map.  *)
(* The law says that the rejection may not depend on which of these places a request happens to pass: not on the presence *)
(* of MapSpecs, not on the entry, not on the requested output lying inside, downstream, upstream or beside the fault.)    *)
ConstructionVerdictIsEntryBlind(r) ==
    FirstViolated(r) \in ConstructionClauses =>
        \A e \in Entries : \A o \in AllOutputs(r.desc) \cup {""} : \A kw \in {r.inputs, <<>>} :
            FirstViolated([r EXCEPT !.entry = e, !.out = o, !.inputs = kw]) = FirstViolated(r)
(* for a request that passes the earlier clauses this coincides with the C01 notion of a valid map request *)
LawAgreesWithMapDenote(r) ==
    (~IsCall(r) /\ ConstructOK(r.desc) /\ CompleteInputs(r.desc, r.inputs) /\ NoSurplusInputs(r.desc, r.inputs)
     /\ \A i \in FIdx(r.desc) : InternalOK(r.desc.funcs[i]))
    => ((RankOK(r.desc, r.inputs) /\ ZipOK(r.desc, r.inputs)) <=> ValidMapRequest(r.desc, r.inputs))

---------------------------------------------------------------------------
(* The Prepare state machine: one request against an existing run folder. *)
CONSTANTS StorageCheck,        \* "early": required;  "late": in InitStore (pinned commit);  "any": see the header
          KwargCheck           \* "early": required;  "late": while / after evaluating, as implemented
VARIABLES req,     \* the request (constant during a behaviour)
          pc,      \* next step, or "rejected" / "returned"
          disk,    \* abstract run folder: [run_info, inputs, defaults, outputs] each "prev" | "absent" | "new"
          calls    \* number of user-function invocations so far
pvars == <<req, pc, disk, calls>>

PrevDisk   == [run_info |-> "prev", inputs |-> "prev", defaults |-> "prev", outputs |-> "prev"]
AbsentDisk == [run_info |-> "absent", inputs |-> "absent", defaults |-> "absent", outputs |-> "absent"]

PrepareInit(r) == req = r /\ pc = "Construct" /\ disk = PrevDisk /\ calls = 0

(* one step: the clauses it checks; if one fails the request is rejected there, otherwise the effect happens *)
Step(name, ok, next, newDisk) ==
    /\ pc = name
    /\ IF ok THEN pc' = next /\ disk' = newDisk ELSE pc' = "rejected" /\ disk' = disk
    /\ UNCHANGED <<req, calls>>

MapSpecsOf(dd)  == [i \in FIdx(dd) |-> <<dd.funcs[i].has_ms, dd.funcs[i].ms, dd.funcs[i].internal>>]
DefaultsOf(dd)  == {<<p, DefaultOf(dd, p)>> : p \in {q \in AllParams(dd) : HasDefault(dd, q)}}
SameRun(r)      == /\ SeqToSet(r.inputs) = SeqToSet(r.prev.inputs)
                   /\ MapSpecsOf(r.desc) = MapSpecsOf(r.prev.desc)
                   /\ DefaultsOf(r.desc) = DefaultsOf(r.prev.desc)
Identical(r)    == r.desc = r.prev.desc /\ SeqToSet(r.inputs) = SeqToSet(r.prev.inputs)
Continues(r)    == r.cfg.cleanup \/ ~r.cfg.folder \/ Identical(r)    \* cannot be refused for being a different run
(* Where the IMPLEMENTATION looks at storage names.  _requires_serialization resolves the single name, or the values   *)
(* of the dictionary in insertion order until the first one that requires serialization (any(...)); RunInfo.init_store *)
(* resolves the name of every output that gets a storage array: the entry keyed by the function's output name(s), else *)
(* the default entry.  An unknown name that neither place reaches is never noticed.                                    *)
RequiresSerialization(n) == n \in {"file_array", "shared_memory_dict"}
SeenByAny(c) == LET ns == StorageNames(c) IN
    \E k \in DOMAIN ns : ns[k] \notin KnownStorages
                          /\ \A j \in 1..(k - 1) : ns[j] \in KnownStorages /\ ~RequiresSerialization(ns[j])
StorageNameFor(c, outs) ==
    IF c.sdict = <<>> THEN c.storage
    ELSE IF \E k \in DOMAIN c.sdict : c.sdict[k].key = outs THEN c.sdict[CHOOSE k \in DOMAIN c.sdict : c.sdict[k].key = outs].name
    ELSE IF \E k \in DOMAIN c.sdict : c.sdict[k].key = <<>> THEN c.sdict[CHOOSE k \in DOMAIN c.sdict : c.sdict[k].key = <<>>].name
    ELSE "dict"
SeenAtInitStore(r) == \E i \in FIdx(r.desc) : HasMapInputs(r.desc.funcs[i])
                                               /\ StorageNameFor(r.cfg, r.desc.funcs[i].outputs) \notin KnownStorages
StorageOKAtCheck(r) == CASE StorageCheck = "early" -> KnownStorage(r.cfg)
                         [] StorageCheck = "any"   -> ~SeenByAny(r.cfg)
                         [] StorageCheck = "late"  -> r.cfg.folder \/ ~SeenByAny(r.cfg)   \* only without a run folder
StorageOKAtInitStore(r) == StorageCheck = "early" \/ ~SeenAtInitStore(r)

(* Construct: the construction-time clauses.  For a pipeline whose member was changed after construction this is the  *)
(* re-validation that has to happen at the latest when the next call / run / map starts.                               *)
Construct      == Step("Construct", ConstructOK(req.desc), IF IsCall(req) THEN "CheckKwargs" ELSE "CheckExecutorParallel", disk)
(* the call side: keywords are checked before anything is evaluated ("early"); the implementation ("late") finds a      *)
(* missing argument when the depth-first evaluation reaches it and surplus keywords after everything ran              *)
NeededOf(r)    == Needed(r.desc, r.inputs, r.out)
MayRunBeforeRejection(r) ==
    IF CallComplete(r) THEN NeededOf(r)
    ELSE {i \in NeededOf(r) : \A j \in Closure(r.desc, r.inputs, {i}) : \A q \in ParamsOf(r.desc, j) : Source(r.desc, r.inputs, j, q) # "missing"}
CheckKwargs    == Step("CheckKwargs", KwargCheck = "late" \/ (CallComplete(req) /\ CallNoSurplus(req)), "RunCall", disk)
RunCall        == /\ pc = "RunCall" /\ UNCHANGED <<req, disk>>
                  /\ IF CallComplete(req) /\ CallNoSurplus(req)
                     THEN pc' = "returned" /\ calls' = calls + Cardinality(NeededOf(req))
                     ELSE pc' = "rejected" /\ \E n \in 0..Cardinality(MayRunBeforeRejection(req)) : calls' = calls + n
CheckExecutorParallel == Step("CheckExecutorParallel", ExecutorNeedsParallel(req.cfg), "Subpipeline", disk)
Subpipeline    == Step("Subpipeline", TRUE, "ValidateInputs", disk)                 \* no output selection here (C11)
ValidateInputs == Step("ValidateInputs", CompleteInputs(req.desc, req.inputs) /\ NoSurplusInputs(req.desc, req.inputs),
                       "ValidateFixed", disk)
ValidateFixed  == Step("ValidateFixed", TRUE, "CheckStorage", disk)                 \* no fixed_indices here (C06)
(* RunInfo.create *)
CheckStorage   == Step("CheckStorage", StorageOKAtCheck(req),
                       IF ~req.cfg.folder THEN "CheckShapes" ELSE IF req.cfg.cleanup THEN "Cleanup" ELSE "CompareToPrevious", disk)
Cleanup        == Step("Cleanup", TRUE, "CheckShapes", AbsentDisk)
(* cleanup=False continues the previous run: the new shapes must be computable and MapSpecs, shapes, inputs and        *)
(* defaults must be those of the run in the folder (_compare_to_previous_run_info); a different request is refused     *)
(* here - that is not a clause of Valid, but it is a rejection and has to be pure as well.  The identical request must *)
(* pass; one that differs in inputs / MapSpecs / defaults must not; any other different pipeline MAY be refused        *)
(* (the code compares the topologically sorted MapSpec strings, which an extra edge can reorder): don't-care.          *)
CompareToPrevious == \/ Step("CompareToPrevious", ShapeFault(req.desc, req.inputs, 1) = "none" /\ SameRun(req), "CheckShapes", disk)
                     \/ (~Identical(req) /\ Step("CompareToPrevious", FALSE, "CheckShapes", disk))
CheckShapes    == Step("CheckShapes", ShapeFault(req.desc, req.inputs, 1) = "none",
                       IF req.cfg.folder THEN "DumpRunInfo" ELSE "InitStore", disk)
DumpRunInfo    == Step("DumpRunInfo", TRUE, "DumpInputs", [disk EXCEPT !.run_info = "new"])
DumpInputs     == Step("DumpInputs", TRUE, "DumpDefaults", [disk EXCEPT !.inputs = "new"])
DumpDefaults   == Step("DumpDefaults", TRUE, "InitStore", [disk EXCEPT !.defaults = "new"])
InitStore      == Step("InitStore", StorageOKAtInitStore(req), "Run",
                       IF req.cfg.folder THEN [disk EXCEPT !.outputs = IF req.cfg.cleanup THEN "new" ELSE disk.outputs] ELSE disk)
Run            == /\ pc = "Run" /\ pc' = "returned" /\ calls' = calls + NF(req.desc)
                  /\ disk' = IF req.cfg.folder THEN [disk EXCEPT !.outputs = "new"] ELSE disk
                  /\ UNCHANGED req

PrepareNext == \/ Construct \/ CheckKwargs \/ RunCall \/ CheckExecutorParallel \/ Subpipeline \/ ValidateInputs \/ ValidateFixed \/ CheckStorage
               \/ Cleanup \/ CompareToPrevious \/ CheckShapes \/ DumpRunInfo \/ DumpInputs \/ DumpDefaults \/ InitStore \/ Run

(* invariants *)
RejectIsPure  == pc = "rejected" => (calls = 0 /\ (~req.cfg.cleanup => disk = PrevDisk))
NoCodeBeforeAccept == calls > 0 => pc = "returned"
(* an invalid request never reaches user code (written as the contrapositive so that TLC evaluates Valid only there) *)
OnlyReject    == (pc = "returned" \/ pc = "Run") => Valid(req)
(* a valid request (that is not a different run continuing a folder) is not rejected *)
ValidAccepted == pc = "rejected" => ~(Valid(req) /\ Continues(req))
=============================================================================
