--------------------------- MODULE PipelineStatic ---------------------------
(***************************************************************************)
(* Static semantics of a pipefunc Pipeline given as a *description*        *)
(* (DESIGN.md 3.2): output -> function, dependency structure, argument     *)
(* resolution, the denotation Eval of pipeline(output, **kwargs), the set  *)
(* of functions an evaluation needs, valid argument cuts.                  *)
(*                                                                         *)
(* Values are terms [f |-> String, a |-> Seq(term)]; user functions are    *)
(* free constructors: output `o` of a call is the term o(arg values in     *)
(* parameter order).  Maps (kwargs, defaults, bound) are sequences of      *)
(* <<name, value>> pairs.                                                   *)
(*                                                                         *)
(* d.funcs[i] = [name, params, outputs, defaults, bound, has_ms, ms,       *)
(*               internal, cache]                                          *)
(***************************************************************************)
EXTENDS Naturals, Integers, Sequences, FiniteSets, TLC

Term(n, args) == [f |-> n, a |-> args]
Atom(s)       == [f |-> s, a |-> <<>>]
Arr(xs)       == [f |-> "#arr", a |-> xs]
MissingV      == Atom("#missing")          \* "Missing value for argument" (evaluation undefined)
NoneT         == Atom("#none")

SeqToSet(s)   == {s[i] : i \in DOMAIN s}
PHas(ps, k)   == \E i \in DOMAIN ps : ps[i][1] = k
PGet(ps, k)   == ps[CHOOSE i \in DOMAIN ps : ps[i][1] = k][2]
PKeys(ps)     == {ps[i][1] : i \in DOMAIN ps}

---------------------------------------------------------------------------
NF(d)            == Len(d.funcs)
FIdx(d)          == 1..NF(d)
OutputsOf(d, i)  == SeqToSet(d.funcs[i].outputs)
ParamsOf(d, i)   == SeqToSet(d.funcs[i].params)
AllOutputs(d)    == UNION {OutputsOf(d, i) : i \in FIdx(d)}
AllParams(d)     == UNION {ParamsOf(d, i) : i \in FIdx(d)}
RootNames(d)     == AllParams(d) \ AllOutputs(d)
(* the function producing name n (0 if n is not an output) *)
FuncOf(d, n)     == IF n \in AllOutputs(d) THEN CHOOSE i \in FIdx(d) : n \in OutputsOf(d, i) ELSE 0
IsBound(d, i, p) == PHas(d.funcs[i].bound, p)
(* pipeline-level defaults: union of the functions' defaults, except for bound parameters and outputs *)
HasDefault(d, p) == p \notin AllOutputs(d) /\ \E i \in FIdx(d) : PHas(d.funcs[i].defaults, p) /\ ~IsBound(d, i, p)
DefaultOf(d, p)  == LET i == CHOOSE j \in FIdx(d) : PHas(d.funcs[j].defaults, p) /\ ~IsBound(d, j, p)
                    IN  PGet(d.funcs[i].defaults, p)

(* where does parameter p of function i get its value from, given supplied keywords kw *)
Source(d, kw, i, p) ==
    IF IsBound(d, i, p)        THEN "bound"
    ELSE IF PHas(kw, p)        THEN "kw"
    ELSE IF p \in AllOutputs(d) THEN "up"
    ELSE IF HasDefault(d, p)   THEN "default"
    ELSE "missing"

(* upstream functions that function i needs executed under kw *)
DirectDeps(d, kw, i) == {FuncOf(d, p) : p \in {q \in ParamsOf(d, i) : Source(d, kw, i, q) = "up"}}

(* functions executed to obtain output `out`: backward closure from its producer, stopping at supplied names *)
RECURSIVE Closure(_, _, _)
Closure(d, kw, S) == LET S2 == S \cup UNION {DirectDeps(d, kw, i) : i \in S}
                     IN  IF S2 = S THEN S ELSE Closure(d, kw, S2)
Needed(d, kw, out) == IF PHas(kw, out) \/ FuncOf(d, out) = 0 THEN {} ELSE Closure(d, kw, {FuncOf(d, out)})
NeededFor(d, kw, outs) == UNION {Needed(d, kw, o) : o \in outs}

(* acyclicity of the description (every function's transitive dependencies exclude itself) *)
StaticDeps(d, i) == {FuncOf(d, p) : p \in {q \in ParamsOf(d, i) : q \in AllOutputs(d) /\ ~IsBound(d, i, q)}}
RECURSIVE SClosure(_, _)
SClosure(d, S) == LET S2 == S \cup UNION {StaticDeps(d, i) : i \in S} IN IF S2 = S THEN S ELSE SClosure(d, S2)
Acyclic(d) == \A i \in FIdx(d) : i \notin SClosure(d, StaticDeps(d, i))

---------------------------------------------------------------------------
(* The denotation.  ValOf: value of a name; ArgVal: value delivered to parameter p of function i.  *)
RECURSIVE ValOf(_, _, _), ArgVal(_, _, _, _)
ArgVal(d, kw, i, p) ==
    LET s == Source(d, kw, i, p) IN
    CASE s = "bound"   -> PGet(d.funcs[i].bound, p)
      [] s = "kw"      -> PGet(kw, p)
      [] s = "up"      -> ValOf(d, kw, p)
      [] s = "default" -> DefaultOf(d, p)
      [] s = "missing" -> MissingV
(* a function may be declared to return None whatever its arguments (optional field `retnone`): None is an ordinary value *)
ReturnsNone(d, i) == "retnone" \in DOMAIN d.funcs[i] /\ d.funcs[i].retnone
ValOf(d, kw, n) ==
    IF PHas(kw, n) THEN PGet(kw, n)
    ELSE LET i == FuncOf(d, n)  ps == d.funcs[i].params
         IN  IF ReturnsNone(d, i) THEN NoneT
             ELSE Term(n, [k \in 1..Len(ps) |-> ArgVal(d, kw, i, ps[k])])

ArgsOf(d, kw, i) == LET ps == d.funcs[i].params IN [k \in 1..Len(ps) |-> <<ps[k], ArgVal(d, kw, i, ps[k])>>]

(* evaluation is defined iff no needed function has a missing argument *)
Defined(d, kw, out) == \A i \in Needed(d, kw, out) : \A p \in ParamsOf(d, i) : Source(d, kw, i, p) # "missing"
Eval(d, kw, out)    == ValOf(d, kw, out)

(* names consulted by the evaluation of `out` under kw (keywords that are actually used) *)
Consulted(d, kw, out) == {p \in PKeys(kw) : \E i \in Needed(d, kw, out) : p \in ParamsOf(d, i) /\ Source(d, kw, i, p) = "kw"}
Surplus(d, kw, out)   == PKeys(kw) \ Consulted(d, kw, out)
(* Don't-care: a keyword naming a parameter of an executed function that is shadowed there by a bound value.   *)
(* The evaluation ignores it; the property does not say whether such a keyword counts as "surplus", the code   *)
(* accepts it silently.  StrictSurplus = keywords that name no parameter of any executed function.             *)
StrictSurplus(d, kw, out) == PKeys(kw) \ UNION {ParamsOf(d, i) : i \in Needed(d, kw, out)}

(* full_output: the supplied keywords plus every output (each name of a tuple output) of every executed function *)
FullOutputNames(d, kw, out) == PKeys(kw) \cup UNION {OutputsOf(d, i) : i \in Needed(d, kw, out)}

(* A set C of names is a valid argument cut for `out`: giving values for exactly C makes the evaluation defined and *)
(* every name of C is consulted (none is surplus).                                                              *)
ValidCut(d, C, out) ==
    LET kw == [k \in 1..Cardinality(C) |-> <<(CHOOSE f \in [1..Cardinality(C) -> C] : \A a, b \in 1..Cardinality(C) : a # b => f[a] # f[b])[k], Atom("@x")>>]
    IN  out \notin C /\ Defined(d, kw, out) /\ Surplus(d, kw, out) = {}

(* topological generations (as in Pipeline.topological_generations): gen 0 = root names; a function is in the   *)
(* first generation after all functions it statically depends on                                                *)
RECURSIVE GenOf(_, _)
GenOf(d, i) == IF StaticDeps(d, i) = {} THEN 1
               ELSE 1 + (CHOOSE m \in {GenOf(d, j) : j \in StaticDeps(d, i)} : \A x \in {GenOf(d, j) : j \in StaticDeps(d, i)} : x <= m)
=============================================================================
