---------------------------- MODULE MC_Rewrites ----------------------------
(* Model-checking instance of Rewrites (C10).  Initial states: one fresh object per description of the TLA+-defined *)
(* universe of MC_PipelineCall (2-3 functions, defaults, bound values, a bound value shadowing an upstream output,   *)
(* a tuple-output producer).  Behaviours: compositions of at most MaxRw rewrites applied along a chain (`cur` is the *)
(* object the next rewrite applies to: the result of the previous one) plus at most MaxMut in-place mutations of ANY *)
(* live object at any point.  Checked on every reachable store:                                                    *)
(*   PropNoAliasing         an action changes no object but its target(s) and removes none                         *)
(*   InvStoreOK             every object is a constructible pipeline with an injective renaming                    *)
(*   InvRewritePreserves    the model's own rewrite operators preserve Eval/MapDenote: renaming commutes with Eval, *)
(*                          the observation through `ren` is the evaluation of `sem`, scope removal inverts scope   *)
(*                          addition, a split component evaluates like the whole, join operands keep their values,  *)
(*                          add_mapspec_axis lifts pointwise (WithAxis)                                            *)
EXTENDS Rewrites
CONSTANTS N, Rich, Shard, NShards,     \* universe selection (as in MC_PipelineCall)
          MaxRw, MaxMut,               \* bounds on the composition
          WithAxis                     \* include add_mapspec_axis and the map-mode laws

U == INSTANCE MC_PipelineCall WITH d <- 0, phase <- 0, out <- 0, kw <- 0, mode <- 0, done <- 0
Universe == LET s == SetToSeq({dd \in U!Universe : U!Valid(dd)})
            IN  {s[i] : i \in {j \in DOMAIN s : j % NShards = Shard}}

VARIABLES nrw, nmut, cur
mvars == <<rvars, nrw, nmut, cur>>

Init == /\ \E dd \in Universe : objs = (1 :> Fresh(dd))
        /\ last = [kind |-> "new", tgt |-> {1}]
        /\ nrw = 0 /\ nmut = 0 /\ cur = 1

NextId == Cardinality(Live) + 1
O == objs[cur]
First(S) == SetToSeq(S)[1]
NoneSel == [all |-> FALSE, names |-> << >>]
MkF(name, ps, outs) == [name |-> name, params |-> ps, outputs |-> outs, defaults |-> << >>, bound |-> << >>,
                        has_ms |-> FALSE, ms |-> [ins |-> << >>, outs |-> << >>], internal |-> << >>, cache |-> FALSE]

(* a join partner built in the current naming of O: either consumes a retained output, or produces a root argument *)
PartnerDescs == {[funcs |-> <<MkF("fj", <<n, "q">>, <<"j">>)>>] : n \in O.outs}
                \cup {[funcs |-> <<MkF("fq", <<"q">>, <<r>>)>>] : r \in FreeRoots(O.sem)}
PartnerObj(pd) == [Fresh(pd) EXCEPT !.ren = ForceFn([n \in DescNames(pd) |-> IF n \in DOMAIN O.ren THEN O.ren[n] ELSE Plain(n)])]

RenChoices(o) == LET rs == CurSet(o, FreeRoots(o.sem) \cap Visible(o))  os == CurSet(o, o.outs) IN
    (IF rs = {} THEN {} ELSE {<< <<First(rs), NameRec("", "n9")>> >>, << <<First(rs), NameRec("t", "n9")>> >>})
    \cup (IF os = {} THEN {} ELSE {<< <<First(os), NameRec("", "o9")>> >>})

Rw == nrw < MaxRw /\ nrw' = nrw + 1 /\ nmut' = nmut
RwCopy    == Rw /\ Copy(cur, NextId) /\ cur' = NextId
RwPickle  == Rw /\ PickleRoundTrip(cur, NextId) /\ cur' = NextId
RwJoin    == Rw /\ \E b \in Live \ {cur} : Join(cur, b, NextId) /\ cur' = NextId
RwJoinNew == Rw /\ \E pd \in PartnerDescs : LET q == PartnerObj(pd) IN
                /\ ObjOK(q) /\ JoinDefined(O, q, NextId + 1)
                /\ Step("join", {NextId, NextId + 1}, (NextId :> q) @@ ((NextId + 1) :> JoinObj(O, q, NextId + 1)) @@ objs)
                /\ cur' = NextId + 1
RwRename  == Rw /\ \E r \in RenChoices(O) : UpdateRenames(cur, r) /\ cur' = cur
(* overwrite=True with an empty update: every name goes back to its built spelling *)
RwOverwrite == Rw /\ \E r \in {<< >>} \cup {<<x>> : x \in {<<c, NameRec("", "m8")>> : c \in CurSet(O, O.outs)}} :
                  OverwriteRenames(cur, r) /\ cur' = cur
RwScope   == Rw /\ \E sel \in {<<AllSel, AllSel>>, <<AllSel, NoneSel>>, <<NoneSel, AllSel>>} :
                UpdateScope(cur, "s", sel[1], sel[2], << >>) /\ cur' = cur
RwUnscope == Rw /\ (\E n \in DOMAIN O.ren : O.ren[n].scope # "") /\ RemoveScope(cur, AllSel, AllSel, << >>) /\ cur' = cur
RwNest    == Rw /\ \E F \in SUBSET FIdx(O.sem) : LET S == {OutputsOf(O.sem, i) : i \in F} IN
                \E Nn \in {{}} \cup {OutputsOf(O.sem, i) : i \in F} :
                    NestMustAccept(O, S, Nn) /\ NestFuncs(cur, S, Nn) /\ cur' = cur
RwSimplify == Rw /\ \E o \in O.outs : /\ SimplifyMustAccept(O, o)
                 /\ \E newouts \in {O.outs, O.outs \ OutputsOfSet(O.sem, Anc(O.sem, FuncOf(O.sem, o)))} :
                        Simplified(cur, o, NextId, newouts) /\ cur' = NextId
RwSplit   == /\ Rw /\ SplitMustAccept(O)
             /\ LET comps == SetToSeq(Components(O.sem))
                    ids   == [k \in DOMAIN comps |-> NextId + k - 1]
                    parts == [k \in DOMAIN comps |-> O.outs \cap OutputsOfSet(O.sem, comps[k])]
                IN  SplitDisconnected(cur, ids, parts) /\ \E k \in DOMAIN ids : cur' = ids[k]
RwAxis    == Rw /\ WithAxis /\ \E p \in FreeRoots(O.sem) : AddMapspecAxis(cur, p, "k") /\ cur' = cur

Mu == nmut < MaxMut /\ nmut' = nmut + 1 /\ nrw' = nrw /\ cur' = cur
MuDefaults == Mu /\ \E a \in Live : LET rs == FreeRoots(objs[a].sem) IN rs # {} /\ MutateDefaults(a, First(rs), Atom("@m_d"))
MuBound    == Mu /\ \E a \in Live : \E i \in FIdx(objs[a].sem) : Len(objs[a].sem.funcs[i].params) > 0
                 /\ MutateBound(a, i, objs[a].sem.funcs[i].params[1], Atom("@m_b"))
MuRenames  == Mu /\ \E a \in Live : objs[a].outs # {}
                 /\ MutateRenames(a, << <<First(CurSet(objs[a], objs[a].outs)), NameRec("", "m9")>> >>)

Next == RwCopy \/ RwPickle \/ RwJoin \/ RwJoinNew \/ RwRename \/ RwOverwrite \/ RwScope \/ RwUnscope \/ RwNest \/ RwSimplify
        \/ RwSplit \/ RwAxis \/ MuDefaults \/ MuBound \/ MuRenames
Spec == Init /\ [][Next]_mvars
(* copy and pickle round trip are the same transition of the model: identify their successor states *)
View == <<objs, last.tgt, nrw, nmut, cur>>

---------------------------------------------------------------------------
KV(n)  == Atom("@k_" \o n)
KV2(n) == Arr(<<Atom("@k_" \o n \o "_0"), Atom("@k_" \o n \o "_1")>>)
(* keyword sets the laws are evaluated on: every root argument; and the root arguments that have no default *)
TestKws(d) == {KwOfSet(FreeRoots(d), KV), KwOfSet({r \in FreeRoots(d) : ~HasDefault(d, r)}, KV)}
(* map inputs: array-valued for the root arguments a MapSpec mentions *)
MapInp(d)  == LET s == SetToSeq(FreeRoots(d)) IN ForceSeq([k \in 1..Len(s) |-> <<s[k], IF s[k] \in InSpecNamesOf(d) THEN KV2(s[k]) ELSE KV(s[k])>>])

LawsCall(o) == LET cd == CurDesc(o)  cm == CurMap(o) IN
               \A kw \in TestKws(o.sem) : LET ckw == RenKw(o, kw) IN
                  /\ \A out \in AllOutputs(o.sem) :
                        LET v == Eval(o.sem, kw, out) IN
                        /\ (SpellingsDistinct(o) => Eval(cd, ckw, cm[out]) = RenTerm(v, cm))   \* LawRenameCall
                        /\ (out \in o.outs => EvalObs(o, cm[out], ckw, "call") = RenTerm(v, o.heads)) \* LawObsCall
                  /\ LawSplit(o, kw)
LawsMap(o)  == ValidMapRequest(o.sem, MapInp(o.sem)) => (LawRenameMap(o, MapInp(o.sem)) /\ LawDenoteE(o.sem, MapInp(o.sem)))
LawsAxis(o) == \A p \in FreeRoots(o.sem) : AddAxisWellFormed(o, p, "k") =>
                  LawAddAxis(o.sem, p, "k", MapInp(o.sem), <<Atom("@v0"), Atom("@v1")>>)
LawsJoin(a) == \A b \in Live \ {a} : JoinDefined(objs[a], objs[b], 99) =>
                  LawJoin(objs[a], objs[b], 99, KwOfSet(FreeRoots(objs[a].sem), KV))

PropNoAliasing == NoAliasing
InvStoreOK    == \A a \in last.tgt \cap Live : ObjOK(objs[a])
(* evaluated on the objects the last action created or changed (the others were checked when they were) *)
InvRewritePreserves ==
    \A a \in last.tgt \cap Live : LET o == objs[a] IN
        /\ (IF HasAnyMs(o.sem) THEN LawsMap(o) ELSE LawsCall(o))
        /\ LawScopeInverse(o, "s")
        /\ LawsJoin(a)
        /\ (WithAxis => LawsAxis(o))
=============================================================================
