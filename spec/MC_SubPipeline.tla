--------------------------- MODULE MC_SubPipeline ---------------------------
(* Model-checking instances for C11 (SubPipeline.tla).                                                               *)
(*  Part 1 (USpec, mechanism A): the universe of MC_PipelineCall (same generators; options extended here with        *)
(*          all-bound and all-defaults functions) x every non-empty S x every cut I; laws of SubPipeline per case;    *)
(*          every case exported as (desc, S, I, inputs, computable, needed, ...).                                     *)
(*  Part 2 (BSpec): every behaviour of a request under the run rule (SubBegin / MapRun Call, Ret, Return / SubReject) *)
(*          with deadlock checking: a request that must be served can always be completed, runs only needed functions.*)
(*  Part 3 (Spec, mechanism C): trace validation of recorded runs of the real code (events of TraceMapRun + the       *)
(*          request: begin carries S, reject carries S and the names its message mentions).                            *)
EXTENDS SubPipeline, Json, IOUtils, TLCExt
CONSTANTS N,        \* number of functions of the universe (2 or 3)
          Rich,     \* as in MC_PipelineCall: reversed parameter orders and more options
          Shard, NShards

VARIABLES case,     \* Part 1/2: the case [desc, S, I]; Part 3: unused (0)
          tid, l    \* Part 3: trace id and next event; Part 1/2: unused (0)
allvars == <<mvars, case, tid, l>>

(* the universe generators of C02 (its state variables are irrelevant for the generators) *)
U == INSTANCE MC_PipelineCall WITH d <- d, phase <- phase, out <- "", kw <- <<>>, mode <- "call", done <- {}

---------------------------------------------------------------------------
(* Options: those of MC_PipelineCall (for N = 2 without the ones that only touch fc) plus                            *)
(*   bound_b_first  fb's first parameter bound (an all-bound function when fb has one parameter)                      *)
(*   bound_b_all    every parameter of fb bound (all-bound function; fb needs nothing upstream)                       *)
(*   default_all_a  every parameter of fa has a default (all-defaults function)                                       *)
COnly   == {"bound_c_up", "multi_a_bound_c_up"}
MyOpts  == (IF N = 2 THEN U!Opts \ COnly ELSE U!Opts) \cup {"bound_b_first", "bound_b_all", "default_all_a"}
BaseOpt(opt) == IF opt \in {"bound_b_all", "default_all_a"} THEN "none" ELSE opt
MyDesc(pa, pb, pc, opt) ==
    LET b  == U!Desc(pa, pb, pc, BaseOpt(opt))
        fa == b.funcs[1]
        fb == b.funcs[2]
        fa2 == IF opt = "default_all_a" THEN [fa EXCEPT !.defaults = [k \in DOMAIN pa |-> <<pa[k], U!DV(pa[k])>>]] ELSE fa
        fb2 == IF opt = "bound_b_all"   THEN [fb EXCEPT !.bound    = [k \in DOMAIN pb |-> <<pb[k], U!BV(pb[k])>>]] ELSE fb
    IN  [funcs |-> [k \in DOMAIN b.funcs |-> IF k = 1 THEN fa2 ELSE IF k = 2 THEN fb2 ELSE b.funcs[k]]]

NameIdx(n) == CASE n = "x" -> 1 [] n = "y" -> 2 [] n = "z" -> 3 [] n = "a" -> 4 [] n = "a2" -> 5 [] n = "b" -> 6 [] OTHER -> 7
SeqKey(ps) == LET RECURSIVE K(_)
                  K(s) == IF Len(s) = 0 THEN 0 ELSE NameIdx(Head(s)) + 7 * K(Tail(s))
              IN K(ps)
InShard(pa, pb, pc, opt) == (SeqKey(pa) + 59 * SeqKey(pb) + 3481 * SeqKey(pc) + 7 * Len(opt)) % NShards = Shard

Tuples == {t \in U!PSeqs(U!Roots) \X (UNION {U!PSeqs(U!AvB(o)) : o \in U!Opts})
                 \X (IF N = 2 THEN {<<>>} ELSE UNION {U!PSeqs(U!AvC(o)) : o \in U!Opts}) \X MyOpts : TRUE}
Descs(all) == {dd \in {MyDesc(t[1], t[2], t[3], t[4]) : t \in {u \in Tuples : all \/ InShard(u[1], u[2], u[3], u[4])}} :
                  U!Valid(dd)}
(* the universe contains the whole C02 universe (checked by ASSUME for the small instance) *)
ContainsC02Universe == {dd \in U!Universe : U!Valid(dd)} \subseteq Descs(TRUE)
ASSUME (N = 2 /\ NShards = 1) => ContainsC02Universe

Names(dd)   == AllParams(dd) \cup AllOutputs(dd)
InputsFor(I) == LET s == SetToSeq(I) IN [k \in 1..Len(s) |-> <<s[k], U!KV(s[k])>>]
Requests(dd) == {[desc |-> dd, S |-> S, I |-> I] : <<S, I>> \in {si \in (SUBSET AllOutputs(dd)) \X (SUBSET Names(dd)) :
                                                                   si[1] # {} /\ si[2] \cap si[1] = {}}}
Cases == UNION {Requests(dd) : dd \in Descs(FALSE)}

(* inputs that let the WHOLE pipeline run and extend the provided ones: a value for every other root without default *)
FullInputs(dd, I) == InputsFor(I) \o InputsFor({r \in RootNames(dd) \ I : ~HasDefault(dd, r)})

RECURSIVE HasMissing(_)
HasMissing(v) == v.f = "#missing" \/ \E k \in DOMAIN v.a : HasMissing(v.a[k])

CutKind(dd, I) == IF I \subseteq RootNames(dd) THEN "root-only"
                  ELSE IF I \cap RootNames(dd) = {} THEN "interior-only" ELSE "mixed"
FNames(dd, X)  == {dd.funcs[i].name : i \in X}
Must(dd, S, I) == IF MustServe(dd, S, I) THEN "serve" ELSE IF MustReject(dd, S, I) THEN "reject" ELSE "either"

---------------------------------------------------------------------------
(* Part 1: universe export; one state per case *)
UInit == /\ case \in Cases
         /\ MapInit(case.desc, InputsFor(case.I))
         /\ tid = 0 /\ l = 0
UNext == l = 0 /\ l' = 1 /\ UNCHANGED <<mvars, case, tid>>      \* one step, so that the laws are evaluated by all workers
Chk(law) == l = 1 => law
USpec == UInit /\ [][UNext]_allvars

InvLeast        == Chk(LawLeast(case.desc, case.S, case.I))
InvCutOff       == Chk(LawCutOff(case.desc, case.S, case.I))
InvComputableSources == Chk(LawComputableSources(case.desc, case.S, case.I))
InvComputableDefined == Chk(LawComputableDefined(case.desc, case.S, case.I))
(* Computable <=> the denotation is defined: the call denotation of every requested output contains no missing      *)
(* argument, and the map request over the needed functions is valid                                                  *)
InvDenotationDefined == Chk(
    /\ Computable(case.desc, case.S, case.I) <=> \A o \in case.S : ~HasMissing(Eval(case.desc, InputsFor(case.I), o))
    /\ Computable(case.desc, case.S, case.I) <=> ValidSubRequest(case.desc, inp, NeededSet(case.desc, case.S, case.I)))
(* the map denotation over the needed functions = the call denotation (no MapSpecs in this universe) *)
InvMapEqualsCall == Chk(
    Computable(case.desc, case.S, case.I) =>
        LET den0 == MapDenoteF(case.desc, inp, NeededSet(case.desc, case.S, case.I)) IN
        \A o \in case.S : den0[o] = Eval(case.desc, inp, o))
InvSubstitution == Chk(LawSubstitution(case.desc, case.S, inp, FullInputs(case.desc, case.I)))
(* the three classes partition the well-formed requests; a request over all root names is computable *)
InvClasses == Chk(/\ WellFormedRequest(case.desc, case.S, case.I)
                  /\ ~(MustServe(case.desc, case.S, case.I) /\ MustReject(case.desc, case.S, case.I))
                  /\ RootNames(case.desc) \subseteq case.I => Computable(case.desc, case.S, case.I))
Emit == l = 0 \/ PrintT(<<"CASE", ToJson([desc |-> case.desc, S |-> SetToSeq(case.S), I |-> SetToSeq(case.I), inputs |-> inp,
                                 computable |-> Computable(case.desc, case.S, case.I),
                                 needed |-> SetToSeq(FNames(case.desc, NeededSet(case.desc, case.S, case.I))),
                                 missing |-> SetToSeq(MissingNames(case.desc, case.S, case.I)),
                                 surplus |-> SetToSeq(SurplusNames(case.desc, case.S, case.I)),
                                 shadowed |-> ShadowedSibling(case.desc, case.S, case.I),
                                 must |-> Must(case.desc, case.S, case.I),
                                 cut |-> CutKind(case.desc, case.I)])>>)

---------------------------------------------------------------------------
(* Part 2: behaviours of one request under the run rule *)
CfgFor(S) == [F |-> NeededSet(d, S, PKeys(inp)), cleanup |-> TRUE, fixed |-> <<>>]
ResultsOf == LET s == SetToSeq(UNION {OutputsOf(d, i) : i \in cfg.F}) IN [k \in 1..Len(s) |-> <<s[k], den[s[k]]>>]
BNext == /\ UNCHANGED <<case, tid, l>>
         /\ \/ SubBegin(CfgFor(case.S), case.S)
            \/ \E i \in FIdx(d) : Call(i, <<>>, ElemKwargs(d, den, i, <<>>))
            \/ \E i \in FIdx(d) : Ret(i, <<>>)
            \/ Return(ResultsOf, <<>>)
            \/ SubReject(case.S, MissingNames(d, case.S, PKeys(inp)))
BSpec == UInit /\ [][BNext]_allvars
InvOnlyNeeded    == \A e \in called : e[1] \in NeededSet(d, case.S, PKeys(inp))
InvServeEnabled  == (phase = "idle" /\ MustServe(d, case.S, PKeys(inp))) => ENABLED SubBegin(CfgFor(case.S), case.S)
InvRejectOnlyIfAllowed == (phase = "idle" /\ MustServe(d, case.S, PKeys(inp))) => ~ENABLED SubReject(case.S, {})
InvReturnExact   == (phase = "running" /\ ENABLED Return(ResultsOf, <<>>)) =>
                        {e[1] : e \in called} = NeededSet(d, case.S, PKeys(inp))
InvTypeOK == TypeOK

---------------------------------------------------------------------------
(* Part 3: trace validation.  One ndjson line = {desc, inputs, ev: [...]}; events as in TraceMapRun plus               *)
(*   begin:  S (requested outputs), F (names of the needed functions as exported by Part 1, or <<"*">>)                *)
(*   reject: S, named (names of the description that the error message mentions)                                      *)
Traces == IF "TRACE_FILE" \in DOMAIN IOEnv THEN ndJsonDeserialize(IOEnv.TRACE_FILE) ELSE <<>>
NT == Len(Traces)
ASSUME \A i \in 1..NT : TLCSet(i, 0)
T  == Traces[tid]
Ev == T.ev[l]
IsEvent(e) == l <= Len(T.ev) /\ Ev.e = e /\ l' = l + 1 /\ UNCHANGED <<tid, case>>

Init == tid \in 1..NT /\ l = 1 /\ case = 0 /\ MapInit(T.desc, T.inputs)

FByName(n)  == CHOOSE i \in FIdx(d) : d.funcs[i].name = n
FSet(names) == {FByName(names[k]) : k \in DOMAIN names}
SOf(e)      == SeqToSet(e.S)

TBegin  == /\ IsEvent("begin")
           /\ LET S == SOf(Ev)  F == NeededSet(d, S, PKeys(inp)) IN
              /\ (IF Ev.F = <<"*">> THEN TRUE ELSE FSet(Ev.F) = F)      \* the exported needed set is the spec's
              /\ SubBegin([F |-> F, cleanup |-> Ev.cleanup, fixed |-> Ev.fixed], S)
TCall   == IsEvent("call") /\ (LET i == FByName(Ev.f) IN \E t \in CallPositions(i) : Call(i, t, Ev.kwargs))
TRet    == IsEvent("ret")  /\ (LET i == FByName(Ev.f) IN
              \E t \in CallPositions(i) : ElemKwargs(d, den, i, t) = Ev.kwargs /\ Ret(i, t))
(* the run returns: MapRun!Return (every needed function complete, nothing else called, every output of a function   *)
(* that ran reported with the denoted value) and every requested output is reported                                   *)
TReturn == /\ IsEvent("return") /\ Return(Ev.results, Ev.loaded)
           /\ \A o \in SOf(Ev) : PHas(Ev.results, o)
TReject == IsEvent("reject") /\ SubReject(SOf(Ev), SeqToSet(Ev.named))

Next == TBegin \/ TCall \/ TRet \/ TReturn \/ TReject
Spec == Init /\ [][Next]_allvars

Track == IF l > TLCGet(tid) THEN TLCSet(tid, l) ELSE TRUE
InvDoneStored == DoneStored
Accepted == \A i \in 1..NT : (TLCGet(i) = Len(Traces[i].ev) + 1) \/ PrintT(<<"REJECT", i, TLCGet(i)>>)
=============================================================================
