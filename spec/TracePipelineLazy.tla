------------------------- MODULE TracePipelineLazy --------------------------
(* Trace validation for PipelineLazy (batch convention of TracePipelineCall / tracekit.py).                 *)
(* One ndjson line = one history on one description in one listing order, recorded from a lazy Pipeline      *)
(* and its eager twin built from the same description:                                                       *)
(*   {desc, ev: [{e, ...}]}   an event carries the fields its action reads (out, kw, mode, dag | f, kwargs |     *)
(*   val, n | pairs, n | cls, n | nodes, edges); a field has one encoding wherever it occurs                   *)
(* eager twin :  begin | call* | return / returnfull / raise                (PipelineCall actions)           *)
(* lazy       :  lbegin | call* (any call here is refused) | build / raise                                  *)
(*               | graph? | evalbegin | call* | evaluate / evaluatefull                                      *)
(*               | call* (refused) | reevaluate / reevaluatefull | graph? | lend                             *)
(*               (ldrop instead of lend: the next lbegin happens inside the same construct_dag() block)      *)
(* with a fault plan (desc.faults): an invocation that raised is a `callfail` event, the exception leaving the call /  *)
(* evaluate() a `raise` event (cls = the class the harness functions raise, val = its message naming the function);     *)
(* an evaluate() that follows evaluate() calls that raised is again  evalbegin | call* | evaluate / callfail raise        *)
(* construct_dag() blocks: every `begin` / `lbegin` carries `active` (lazy.task_graph() is not None when the call is made),   *)
(* and `bleft` reports that a with construct_dag() statement was left (exc: through an exception that the refused call, an      *)
(* evaluate() or the body itself raised; active: task_graph() is not None afterwards); after an exceptional exit the history   *)
(* goes on with calls outside any block, which the same actions judge                                                          *)
(* assembled pipelines: desc.asm / desc.easm state how the harness put the lazy pipeline / its eager twin together (parts joined   *)
(* by join or |, copies; PipelineLazy: assembly).  Nothing else changes: `lbegin` is a call on the pipeline assembled per desc.asm *)
(* (LBegin is enabled only if that assembly yields a lazy pipeline - and then the call must behave like one: a user function that  *)
(* runs while the "handle" is built meets phase "building"), `begin` a call on the one assembled per desc.easm                     *)
(* `call` events are the user-function invocations in log order, so an invocation that happens while the     *)
(* handle is built, or during a second evaluate(), meets a state in which no Call step is enabled.           *)
EXTENDS PipelineLazy, Json, IOUtils, TLCExt
Traces == ndJsonDeserialize(IOEnv.TRACE_FILE)
NT == Len(Traces)
ASSUME \A i \in 1..NT : TLCSet(i, 0)

VARIABLES tid, l
T  == Traces[tid]
Ev == T.ev[l]
IsEvent(e) == l <= Len(T.ev) /\ Ev.e = e /\ l' = l + 1 /\ UNCHANGED tid

Init == tid \in 1..NT /\ l = 1 /\ LazyInit(T.desc)

FIdxByName(n) == CHOOSE i \in FIdx(d) : d.funcs[i].name = n

(* eager twin *)
TBegin      == IsEvent("begin") /\ EagerBeginObs(Ev.out, Ev.kw, Ev.mode, Ev.active)
TReturn     == IsEvent("return") /\ Eager(Return(Ev.val))
TReturnFull == IsEvent("returnfull") /\ Eager(ReturnFull(SeqToSet(Ev.pairs)))
(* shared *)
TCall       == IsEvent("call") /\ (\E i \in FIdx(d) : d.funcs[i].name = Ev.f) /\
               IF lazy THEN LCall(FIdxByName(Ev.f), Ev.kwargs) ELSE ECall(FIdxByName(Ev.f), Ev.kwargs)
(* an invocation that raised *)
TCallFail   == IsEvent("callfail") /\ (\E i \in FIdx(d) : d.funcs[i].name = Ev.f) /\
               IF lazy THEN LCallFail(FIdxByName(Ev.f), Ev.kwargs) ELSE ECallFail(FIdxByName(Ev.f), Ev.kwargs)
(* the exception of the harness function named n: class and message *)
FaultCls    == "HarnessError"
FaultMsg(n) == Atom("#msg:fault in " \o n)
TRaise      == IsEvent("raise") /\
               IF phase = "failed"
               THEN /\ Ev.cls = FaultCls /\ Ev.val = FaultMsg(d.funcs[bad].name)
                    /\ IF lazy THEN EvalRaise(bad) ELSE ERaise(bad)
               ELSE IF lazy THEN \/ (Ev.cls = "UnusedParametersError" /\ BuildRaiseUnused)
                                 \/ (Ev.cls = "ValueError" /\ (BuildRaiseMissing \/ BuildRaiseOutputSupplied))
               ELSE \/ (Ev.cls = "UnusedParametersError" /\ Eager(RaiseUnused))
                    \/ (Ev.cls = "ValueError" /\ Eager(RaiseMissing \/ RaiseOutputSupplied))
(* lazy *)
TLBegin     == IsEvent("lbegin") /\ LBeginObs(Ev.out, Ev.kw, Ev.mode, Ev.dag, Ev.active)
(* the handle is deferred (cls) and the call log did not grow while it was built (n) *)
TBuild      == IsEvent("build") /\ Ev.cls = "deferred" /\ Ev.n = 0 /\ Build
TEvalBegin  == IsEvent("evalbegin") /\ EvalBegin
TEvaluate   == IsEvent("evaluate") /\ EvalReturn(Ev.val)
TEvaluateFull   == IsEvent("evaluatefull") /\ EvalReturnFull(SeqToSet(Ev.pairs))
TReEvaluate     == IsEvent("reevaluate") /\ Ev.n = 0 /\ ReEvaluate(Ev.val)
TReEvaluateFull == IsEvent("reevaluatefull") /\ Ev.n = 0 /\ ReEvaluateFull(SeqToSet(Ev.pairs))
TGraph      == IsEvent("graph") /\ Graph([nodes |-> SeqToSet(Ev.nodes), edges |-> SeqToSet(Ev.edges)])
TLEnd       == IsEvent("lend") /\ LEnd
TLDrop      == IsEvent("ldrop") /\ LDropKeep        \* handle dropped, the construct_dag() block stays open for the next lbegin
TBLeft      == IsEvent("bleft") /\ BlockLeft(Ev.active)   \* the with statement was left (normally or by an exception)

Next == TBegin \/ TCall \/ TCallFail \/ TReturn \/ TReturnFull \/ TRaise
        \/ TLBegin \/ TBuild \/ TEvalBegin \/ TEvaluate \/ TEvaluateFull \/ TReEvaluate \/ TReEvaluateFull \/ TGraph \/ TLEnd \/ TLDrop \/ TBLeft
Spec == Init /\ [][Next]_<<allvars, tid, l>>

Track == IF l > TLCGet(tid) THEN TLCSet(tid, l) ELSE TRUE
InvNothingBeforeEvaluate == NothingBeforeEvaluate
InvAtMostOncePerNode     == AtMostOncePerNode
InvExactlyOnceNeeded     == ExactlyOnceNeeded
InvValueIsEval           == ValueIsEval
InvFailuresAccounted     == FailuresAccounted
InvNoValueFromFailure    == NoValueFromFailure
InvGraphIsOK             == GraphIsOK
InvDoneOnlyNeeded        == DoneOnlyNeeded
Accepted == \A i \in 1..NT : (TLCGet(i) = Len(Traces[i].ev) + 1) \/ PrintT(<<"REJECT", i, TLCGet(i)>>)
=============================================================================
