------------------------------ MODULE MC_Sweep ------------------------------
(***************************************************************************)
(* Model-checking instance of Sweep (mechanism A, universe export).        *)
(*                                                                         *)
(* The universe of cases is written here, in TLA+.  Every case is one      *)
(* initial state <<case, out>>: `out` is what the specification requires   *)
(* of the real code for `case`; the laws of Sweep.tla are invariants       *)
(* evaluated per case; the invariant Emit prints case and out as one JSON  *)
(* line which pfverif/props/c17.py replays on pipefunc.sweep.              *)
(*                                                                         *)
(* Mode = "single" : one Sweep          -> list / iteration / generate_sweep / len             *)
(*        "multi"  : NOps sweeps with pairwise disjoint keys -> product, +, MultiSweep         *)
(*        "filter" : one Sweep without constants/exclude, a key set -> filtered_sweep           *)
(*        "count"  : one Sweep, a pipeline of a fixed family -> count_sweep                     *)
(*        "hist"   : three Sweep objects and a history of <= MaxSteps sums formed step by step   *)
(*                   (x + y / x.combine(y) / MultiSweep(..) over operands AND earlier results);  *)
(*                   here Next is a real action (one more step) and every reachable state is a   *)
(*                   case: the objects and what each of them must enumerate after the history    *)
(*        "phist"  : three Sweep objects that carry constants / derivers and a history of        *)
(*                   <= MaxSteps steps x.product(y[, z]) / x.add_derivers(..) / x + y over        *)
(*                   operands AND earlier results (NextPHist); every reachable state is a case   *)
(*                   (MaxKeys >= 4 adds an operand triple with a two-key zipped operand)          *)
(* In mode "single" a sweep with derivers is also required to be what add_derivers makes of the  *)
(* same sweep without them (out.added, InvAddDerivers).                                          *)
(* In mode "multi" every case is also evaluated through every sum expression of SumExprs(NOps)  *)
(* (nestings / spellings of +, combine, MultiSweep over the operands in order; ShapeSet = "all" *)
(* or "uniform", see SumExprs), exported once per run as a "SHAPES" line.                       *)
(* In mode "hist" only MaxSteps, MaxEmpty (0: one operand triple, else two) and the shards (of  *)
(* the first step) matter.                                                                      *)
(*                                                                         *)
(* Universe parameters: MinKeys..MaxKeys item keys (in total over the      *)
(* operands of a case); value lists of length 0..MaxLen over NVals values  *)
(* per key, at most MaxEmpty of them empty; either all such lists          *)
(* (Lists = "all") or one representative per renaming of the values within *)
(* a key (Lists = "canon": sweep.py never inspects a value); dims = None   *)
(* and every ordered set partition of the keys, singleton groups written   *)
(* "k" or ("k",); constants / derivers / exclude per Opts ("none", "two",  *)
(* "few", "some", "full", "ders2", "ders": see OptTriples).                *)
(* Shard/NShards split the universe over processes.                        *)
(***************************************************************************)
EXTENDS Sweep, Json
CONSTANTS Mode, MinKeys, MaxKeys, MaxLen, MaxEmpty, NVals, Lists, Opts, NOps, Shard, NShards, MaxSteps, ShapeSet
VARIABLES case, out
vars == <<case, out>>

KeyPool   == <<"a", "b", "c", "d">>
XName     == <<"x1", "x2", "x3">>            \* constant key of operand 1, 2, 3
YName     == <<"y1", "y2", "y3">>            \* first derived key
ZName     == <<"z1", "z2", "z3">>            \* second derived key
NameOrder == <<"a", "b", "c", "d", "p", "q", "r", "x1", "x2", "x3", "y1", "y2", "y3", "z1", "z2", "z3">>  \* sorted
ConstV    == 7

---------------------------------------------------------------------------
(* value lists *)
Growth(f) == \A i \in DOMAIN f : f[i] <= 1 + Max({0} \cup {f[j] : j \in 1..(i - 1)})   \* first-appearance numbering
AbsLists  == UNION {IF Lists = "all" THEN [1..m -> 1..NVals] ELSE {f \in [1..m -> 1..NVals] : Growth(f)} : m \in 0..MaxLen}
(* the values of the key at pool position g are 10g+1, 10g+2, .. : no two keys share a value *)
Conc(l, g) == [j \in DOMAIN l |-> 10 * g + l[j]]
(* at most MaxEmpty keys have an empty list (an empty list anywhere makes the whole sweep empty) *)
ItemDicts(off, n) == {[i \in 1..n |-> [k |-> KeyPool[off + i], v |-> Conc(f[i], off + i)]]
                      : f \in {h \in [1..n -> AbsLists] : Cardinality({i \in 1..n : h[i] = <<>>}) <= MaxEmpty}}

(* dims: None, or an ordered partition of the keys; inside a group the keys stand in item order *)
RECURSIVE OrdParts(_)
OrdParts(K) == IF K = {} THEN {<<>>}
               ELSE UNION {{<<G>> \o p : p \in OrdParts(K \ G)} : G \in (SUBSET K) \ {{}}}
PoolSeq(G)  == SelectSeq(KeyPool, LAMBDA k : \E i \in G : KeyPool[i] = k)
AllDims     == [n \in 0..4 |-> [off \in 0..4 |->
                  IF off + n > 4 THEN {} ELSE
                  {NoDims} \cup (IF n = 0 THEN {} ELSE {[g \in DOMAIN p |-> PoolSeq(p[g])] : p \in OrdParts((off + 1)..(off + n))})]]
DimsOpts(off, n) == AllDims[n][off]
(* how singleton groups are written in Python: TRUE = "k", FALSE = ("k",) -- no meaning in the specification *)
SstrOpts(dims) == IF dims # NoDims /\ \E g \in DOMAIN dims : Len(dims[g]) = 1 THEN {TRUE, FALSE} ELSE {FALSE}

---------------------------------------------------------------------------
(* constants / derivers / exclude of one sweep; ix = operand number (names stay disjoint across operands) *)
K1(items) == items[1].k
KL(items) == items[Len(items)].k
FirstOr(items, k, dflt) == IF ValuesOf(items, k) = <<>> THEN dflt ELSE ValuesOf(items, k)[1]
LastOr(items, k, dflt)  == IF ValuesOf(items, k) = <<>> THEN dflt ELSE ValuesOf(items, k)[Len(ValuesOf(items, k))]

CNone     == <<>>
CFresh(ix)    == <<[k |-> XName[ix], v |-> ConstV]>>
CShadow(items) == <<[k |-> K1(items), v |-> ConstV]>>           \* never visible: the item wins
DCopy(items, ix)  == <<[k |-> YName[ix], f |-> "copy", a |-> <<K1(items)>>]>>
DPair(items, ix)  == <<[k |-> YName[ix], f |-> "pair", a |-> <<K1(items), KL(items)>>]>>
DOver(items)      == <<[k |-> K1(items), f |-> "pair", a |-> <<K1(items), K1(items)>>]>>     \* overwrites an item key
DChain(items, ix) == <<[k |-> YName[ix], f |-> "copy", a |-> <<K1(items)>>],
                       [k |-> ZName[ix], f |-> "pair", a |-> <<YName[ix], KL(items)>>]>>
DConst(items, ix) == <<[k |-> YName[ix], f |-> "pair", a |-> <<XName[ix], K1(items)>>]>>     \* reads the constant
EFirst(items) == <<[k |-> K1(items), v |-> FirstOr(items, K1(items), 0)]>>                   \* exclude k = first value
ELast(items)  == <<[k |-> KL(items), v |-> LastOr(items, KL(items), 0)]>>

O(c, d, e) == [consts |-> c, ders |-> d, excl |-> e]
OptTriples(items, ix) ==
    IF items = <<>> \/ Opts = "none" THEN {O(<<>>, <<>>, <<>>)}
    ELSE IF Opts = "two" THEN
        {O(<<>>, <<>>, <<>>), O(CFresh(ix), DConst(items, ix), EFirst(items))}
    ELSE IF Opts = "few" THEN
        {O(<<>>, <<>>, <<>>), O(CFresh(ix), <<>>, <<>>), O(<<>>, DCopy(items, ix), <<>>), O(<<>>, <<>>, EFirst(items)),
         O(CFresh(ix), DConst(items, ix), ELast(items))}
    ELSE IF Opts = "some" THEN
        {O(<<>>, <<>>, <<>>),
         O(CFresh(ix), <<>>, <<>>), O(CShadow(items), <<>>, <<>>),
         O(<<>>, DCopy(items, ix), <<>>), O(<<>>, DPair(items, ix), <<>>), O(<<>>, DOver(items), <<>>), O(<<>>, DChain(items, ix), <<>>),
         O(<<>>, <<>>, EFirst(items)), O(<<>>, <<>>, ELast(items)),
         O(CFresh(ix), DConst(items, ix), EFirst(items)), O(CFresh(ix), DChain(items, ix), ELast(items)),
         O(CShadow(items), DOver(items), EFirst(items))}
    ELSE IF Opts = "ders2" THEN          \* filtered_sweep is claimed without constants and exclude
        {O(<<>>, <<>>, <<>>), O(<<>>, DChain(items, ix), <<>>)}
    ELSE IF Opts = "ders" THEN
        {O(<<>>, d, <<>>) : d \in {<<>>, DCopy(items, ix), DPair(items, ix), DOver(items), DChain(items, ix)}}
    ELSE \* "full"
        ({O(c, d, e) : c \in {<<>>, CFresh(ix), CShadow(items)},
                       d \in {<<>>, DCopy(items, ix), DPair(items, ix), DOver(items), DChain(items, ix), DConst(items, ix)},
                       e \in {<<>>, EFirst(items), ELast(items)}}
         \ {O(c, DConst(items, ix), e) : c \in {<<>>, CShadow(items)}, e \in {<<>>, EFirst(items), ELast(items)}})

Mk(items, dims, sstr, o) == [items |-> items, dims |-> dims, sstr |-> sstr, consts |-> o.consts, ders |-> o.ders, excl |-> o.excl]

(* sharding by the item dicts of a case: a polynomial hash of their lengths and values *)
RECURSIVE Mix(_, _)
Mix(h, s)   == IF s = <<>> THEN h ELSE Mix((h * 31 + Head(s)) % 1000003, Tail(s))
Hash(items) == Mix(17, FlatSeq([i \in DOMAIN items |-> <<100 + Len(items[i].v)>> \o items[i].v]))
InShard(n)  == (n % NShards) = Shard

---------------------------------------------------------------------------
(* the sum expressions of a multi case: exactly the leaves lo..hi in order, inner nodes nested at most d deep; *)
(* binary nodes are spelled by one of `sps` ("+", "combine", "MultiSweep"), ternary and - when `unary` - unary  *)
(* nodes "MultiSweep".  ShapeSet = "all": every mixture of spellings, with unary nodes; "uniform": the binary  *)
(* nodes of one expression are all spelled the same way, no unary nodes.                                       *)
RECURSIVE SeqProd(_)             \* all sequences that pick one element from each set of a sequence of sets
SeqProd(sets) == IF sets = <<>> THEN {<<>>} ELSE {<<x>> \o r : x \in Head(sets), r \in SeqProd(Tail(sets))}
RECURSIVE Cuts(_, _, _)          \* lo..hi cut into m consecutive non-empty intervals <<lo_j, hi_j>>
Cuts(lo, hi, m) == IF m = 1 THEN {<< <<lo, hi>> >>}
                   ELSE UNION {{<< <<lo, c>> >> \o r : r \in Cuts(c + 1, hi, m - 1)} : c \in lo..(hi - m + 1)}
BinarySpellings == {"+", "combine", "MultiSweep"}
RECURSIVE SumExprsOn(_, _, _, _, _)
SumExprsOn(d, lo, hi, sps, unary) ==
    (IF lo = hi THEN {Leaf(lo)} ELSE {}) \cup
    (IF d = 0 THEN {} ELSE
     UNION {UNION {{Node(op, ch) : op \in (IF m = 2 THEN sps ELSE {"MultiSweep"}),
                                   ch \in SeqProd([j \in 1..m |-> SumExprsOn(d - 1, cut[j][1], cut[j][2], sps, unary)])}
                   : cut \in Cuts(lo, hi, m)}
            : m \in (IF unary THEN 1 ELSE 2)..(IF hi - lo + 1 < 3 THEN hi - lo + 1 ELSE 3)})
SumExprs(n) == (IF ShapeSet = "all" THEN SumExprsOn(2, 1, n, BinarySpellings, TRUE)
                ELSE UNION {SumExprsOn(2, 1, n, {sp}, FALSE) : sp \in BinarySpellings}) \ {Leaf(1)}
Shapes      == SumExprs(NOps)                  \* constant: evaluated once per run

(* the operands of the histories (the sums never look inside an operand): a triple of a plain, an option-   *)
(* carrying zipped-singleton and a one-combination operand; with MaxEmpty >= 1 also a triple with operands   *)
(* that enumerate nothing (an empty value list, no items at all) next to an option-carrying one              *)
It(k, v)    == <<[k |-> k, v |-> v]>>
Two(items, ix) == O(CFresh(ix), DConst(items, ix), EFirst(items))
HistTriples ==
    {<<Mk(It("a", <<11, 12>>), NoDims, FALSE, O(<<>>, <<>>, <<>>)),
       Mk(It("b", <<21, 22>>), << <<"b">> >>, FALSE, Two(It("b", <<21, 22>>), 2)),
       Mk(It("c", <<31>>), << <<"c">> >>, TRUE, O(<<>>, <<>>, <<>>))>>} \cup
    (IF MaxEmpty = 0 THEN {} ELSE
     {<<Mk(It("a", <<>>), NoDims, FALSE, O(<<>>, <<>>, <<>>)),
        Mk(<<>>, NoDims, FALSE, O(<<>>, <<>>, <<>>)),
        Mk(It("c", <<31, 32>>), NoDims, FALSE, Two(It("c", <<31, 32>>), 3))>>})
(* the steps possible with n objects *)
SumOps(n)   == {[f |-> "sum", a |-> <<x, y>>] : x, y \in 1..n}
MultiOps(n) == {[f |-> "multi", a |-> a] : a \in UNION {[1..m -> 1..n] : m \in 0..2}}
OpId(op, n) == IF op.f = "sum" THEN (op.a[1] - 1) * n + (op.a[2] - 1)               \* numbers the steps 0, 1, ..
               ELSE n * n + (IF Len(op.a) = 0 THEN 0 ELSE IF Len(op.a) = 1 THEN op.a[1]
                             ELSE n + (op.a[1] - 1) * n + op.a[2])

(* histories with products and add_derivers (Sweep.tla: PStep).  The operands: the classes of history that need  *)
(* state kept across calls are those where SEVERAL operands of one product carry constants, or several carry     *)
(* derivers (their dicts have to be merged for the product and must not be merged INTO an operand), and where a  *)
(* sweep that carries constants / an exclude / dims gets derivers added.  Hence a triple with constants on every *)
(* operand (the middle one with a deriver reading its constant and an exclude), one with derivers on every       *)
(* operand, and - MaxKeys >= 4 - one with a two-key zipped operand (all dims written out: with dims = None on    *)
(* the first operand of a product and a zip later on, known finding F21 would answer).                           *)
PHistTriples ==
    {<<Mk(It("a", <<11, 12>>), NoDims, FALSE, O(CFresh(1), <<>>, <<>>)),
       Mk(It("b", <<21, 22>>), << <<"b">> >>, FALSE, Two(It("b", <<21, 22>>), 2)),
       Mk(It("c", <<31>>), << <<"c">> >>, TRUE, O(CFresh(3), <<>>, <<>>))>>,
     <<Mk(It("a", <<11, 12>>), NoDims, FALSE, O(<<>>, DCopy(It("a", <<11, 12>>), 1), <<>>)),
       Mk(It("b", <<21, 22>>), << <<"b">> >>, FALSE, O(<<>>, DCopy(It("b", <<21, 22>>), 2), ELast(It("b", <<21, 22>>)))),
       Mk(It("c", <<31>>), NoDims, FALSE, O(CFresh(3), DConst(It("c", <<31>>), 3), <<>>))>>} \cup
    (IF MaxKeys < 4 THEN {} ELSE
     LET ab == It("a", <<11, 12>>) \o It("b", <<21, 22>>) IN
     {<<Mk(ab, << <<"a", "b">> >>, FALSE, O(CFresh(1), <<>>, EFirst(ab))),
        Mk(It("c", <<31, 32>>), << <<"c">> >>, FALSE, O(CFresh(2), <<>>, <<>>)),
        Mk(It("d", <<41>>), << <<"d">> >>, TRUE, O(<<>>, DCopy(It("d", <<41>>), 3), <<>>))>>})
(* the derivers a derive step may add to sweep sw; w = the new key (named after the number of the new object):  *)
(* a function of two item keys, and - when sw has constants - one that reads the last constant                   *)
WName == <<"w1", "w2", "w3", "w4", "w5", "w6", "w7", "w8">>
StepDerivers(sw, w) ==
    {<<[k |-> w, f |-> "pair", a |-> <<K1(sw.items), KL(sw.items)>>]>>} \cup
    (IF sw.consts = <<>> THEN {} ELSE {<<[k |-> w, f |-> "pair", a |-> <<sw.consts[Len(sw.consts)].k, K1(sw.items)>>]>>})
(* the steps possible in store st: Sweep!PStepOk picks the meaningful ones *)
POp(f, a, d) == [f |-> f, a |-> a, d |-> d]
Injective(a) == \A i, j \in DOMAIN a : i # j => a[i] # a[j]
PSteps(st) ==
    LET n == Len(st)
        sw1 == {x \in 1..n : st[x].kind = "sweep" /\ st[x].sw.items # <<>>}
        cand == {POp("product", a, <<>>) : a \in {b \in UNION {[1..m -> sw1] : m \in 2..3} : Injective(b)}} \cup
                UNION {{POp("derive", <<x>>, d) : d \in StepDerivers(st[x].sw, WName[n + 1])} : x \in sw1} \cup
                {POp("sum", <<x, y>>, <<>>) : x, y \in 1..n}
    IN  {op \in cand : PStepOk(st, op)}
POpHash(op) == Mix(IF op.f = "product" THEN 3 ELSE IF op.f = "derive" THEN 5 ELSE 7, op.a \o <<Len(op.d)>>)

---------------------------------------------------------------------------
(* expected results *)
OutSingle(s) == LET e == ErrorOf(s) IN
    [err |-> e, ordered |-> OrderFixedOf(s),
     combos |-> IF e = "" THEN CombosOf(s) ELSE <<>>,
     \* Sweep(items, dims, exclude, constants).add_derivers(derivers).list()  (keyword arguments)
     added  |-> IF e = "" /\ s.ders # <<>> THEN CombosOf(AddDerivers(WithoutDerivers(s), s.ders)) ELSE <<>>,
     len |-> IF e = "" THEN LenOf(s) ELSE 0]          \* len of a sweep whose list() raises: no claim

OutMulti(ss) ==
    [pdc     |-> ProductDontCare(ss),
     product |-> IF ProductDontCare(ss) THEN <<>> ELSE Product(ss),
     concat  |-> Concat(ss), clen |-> ConcatLen(ss),
     fneed   |-> [i \in DOMAIN ss |-> LET n == FilterNeed(ss[i]) IN
                     [keys |-> SelectSeq(NameOrder, LAMBDA k : k \in n.keys), proj |-> n.proj]],
     ordered |-> \A i \in DOMAIN ss : OrderFixedOf(ss[i])]

KeySeqs(s) == {SelectSeq(NameOrder, LAMBDA k : k \in K) : K \in (SUBSET AllKeys(s)) \ {{}}}
OutFilter(s, keys) == [filtered |-> Filtered(s, Range(keys))]

(* the pipeline family of count_sweep: outputs p, q, r; root arguments are sweep keys *)
F(o, ps) == [out |-> o, params |-> ps]
Pipelines ==
    {[funcs |-> <<F("p", <<"a", "b">>), F("q", <<"b", "p", "c">>), F("r", <<"p", "q", "c">>)>>, target |-> "r"],   \* tests/test_sweep.py
     [funcs |-> <<F("p", <<"a">>), F("q", <<"p", "b">>)>>, target |-> "q"],
     [funcs |-> <<F("r", <<"p", "q", "y1">>), F("q", <<"x1">>), F("p", <<"b", "a">>)>>, target |-> "r"],
     [funcs |-> <<F("p", <<"a">>)>>, target |-> "p"],
     [funcs |-> <<F("p", <<"a">>), F("q", <<"p">>), F("r", <<"q", "b">>)>>, target |-> "r"]}
OutCount(s, pl) == LET deps == Deps(pl.funcs, pl.target, NameOrder) IN
    [deps |-> deps, counts |-> Count(CombosOf(s), deps)]

(* a history: the store - what every object (operands 1..n, then one result per step) enumerates, and its len *)
HistOut(ss, st) == [objs |-> st, ordered |-> \A i \in DOMAIN ss : OrderFixedOf(ss[i])]
OutHist(c) == HistOut(c.ss, RunStore(StoreInit(c.ss), c.ops))

OutPHist(c) == HistOut(c.ss, RunPStore(PStoreInit(c.ss), c.ops))

OutOf(c) == CASE c.kind = "single" -> OutSingle(c.s)
              [] c.kind = "multi"  -> OutMulti(c.ss)
              [] c.kind = "filter" -> OutFilter(c.s, c.keys)
              [] c.kind = "count"  -> OutCount(c.s, c.pl)
              [] c.kind = "hist"   -> OutHist(c)
              [] c.kind = "phist"  -> OutPHist(c)

---------------------------------------------------------------------------
(* the universes *)
Set(c) == case = c /\ out = OutOf(c)

(* every sweep over the given items; all = FALSE keeps only those whose enumeration does not raise *)
SweepsOn(items, off, n, ix, all) ==
    UNION {{Mk(items, dims, sstr, o) : sstr \in SstrOpts(dims), o \in OptTriples(items, ix)}
           : dims \in {d \in DimsOpts(off, n) : all \/ Error(items, d) = ""}}

InitSingle ==
    \E n \in MinKeys..MaxKeys : \E items \in ItemDicts(0, n) : InShard(Hash(items)) /\
    \E s \in SweepsOn(items, 0, n, 1, TRUE) : Set([kind |-> "single", s |-> s])

(* operands of products / sums: error-free sweeps with pairwise disjoint keys.  Key counts per operand: *)
(* a Sweep({}) operand (don't-care for product) is combined with operands of <= 1 key only.            *)
Sizes == {t \in [1..NOps -> 0..MaxKeys] :
            /\ SumNat(t) <= MaxKeys /\ SumNat(t) >= MinKeys
            /\ (\E i \in 1..NOps : t[i] = 0) => \A i \in 1..NOps : t[i] <= 1}
InitMulti ==
    \E t \in Sizes : \E i1 \in ItemDicts(0, t[1]) : \E i2 \in ItemDicts(t[1], t[2]) :
       IF NOps = 2
       THEN InShard(Hash(i1 \o i2)) /\
            \E s1 \in SweepsOn(i1, 0, t[1], 1, FALSE) : \E s2 \in SweepsOn(i2, t[1], t[2], 2, FALSE) :
               Set([kind |-> "multi", ss |-> <<s1, s2>>])
       ELSE \E i3 \in ItemDicts(t[1] + t[2], t[3]) : InShard(Hash(i1 \o i2 \o i3)) /\
            \E s1 \in SweepsOn(i1, 0, t[1], 1, FALSE) : \E s2 \in SweepsOn(i2, t[1], t[2], 2, FALSE) :
            \E s3 \in SweepsOn(i3, t[1] + t[2], t[3], 3, FALSE) : Set([kind |-> "multi", ss |-> <<s1, s2, s3>>])

InitFilter ==
    \E n \in MinKeys..MaxKeys : \E items \in ItemDicts(0, n) : InShard(Hash(items)) /\
    \E s \in SweepsOn(items, 0, n, 1, FALSE) : \E keys \in KeySeqs(s) : Set([kind |-> "filter", s |-> s, keys |-> keys])

InitCount ==
    \E n \in MinKeys..MaxKeys : \E items \in ItemDicts(0, n) : InShard(Hash(items)) /\
    \E s \in SweepsOn(items, 0, n, 1, FALSE) :
        \E pl \in Pipelines : RootSet(pl.funcs, pl.target) \subseteq AllKeys(s) /\ Set([kind |-> "count", s |-> s, pl |-> pl])

(* histories: the initial states hold the three operands only; NextHist forms one more sum from objects that  *)
(* exist.  From the second step on a step takes at least one earlier result as an argument (a step over        *)
(* operands only is what some first step does already).  sp = how "sum" steps are spelled in this history.    *)
(* Shards split the first step.                                                                                *)
InitHist ==
    \E ss \in HistTriples : \E sp \in {"+", "combine"} : Set([kind |-> "hist", ss |-> ss, sp |-> sp, ops |-> <<>>])
NextHist ==
    /\ Len(case.ops) < MaxSteps
    /\ LET n == Len(case.ss) + Len(case.ops) IN
       \E op \in SumOps(n) \cup MultiOps(n) :
          /\ IF case.ops = <<>> THEN InShard(OpId(op, n)) ELSE \E j \in DOMAIN op.a : op.a[j] > Len(case.ss)
          /\ case' = [case EXCEPT !.ops = Append(@, op)]
          /\ out' = [out EXCEPT !.objs = StepStore(@, op)]

(* histories with products / add_derivers: as above; sums are spelled +.  A state is a case: the operands, the  *)
(* steps so far, and the store - what EVERY object must enumerate now.                                           *)
InitPHist == \E ss \in PHistTriples : Set([kind |-> "phist", ss |-> ss, sp |-> "+", ops |-> <<>>])
NextPHist ==
    /\ Len(case.ops) < MaxSteps
    /\ \E op \in PSteps(out.objs) :
          /\ IF case.ops = <<>> THEN InShard(POpHash(op)) ELSE \E j \in DOMAIN op.a : op.a[j] > Len(case.ss)
          /\ case' = [case EXCEPT !.ops = Append(@, op)]
          /\ out' = [out EXCEPT !.objs = PStep(@, op)]

Init == CASE Mode = "single" -> InitSingle
          [] Mode = "multi"  -> InitMulti
          [] Mode = "filter" -> InitFilter
          [] Mode = "count"  -> InitCount
          [] Mode = "hist"   -> InitHist
          [] Mode = "phist"  -> InitPHist
Next == IF Mode = "hist" THEN NextHist ELSE IF Mode = "phist" THEN NextPHist ELSE UNCHANGED vars
Spec == Init /\ [][Next]_vars

---------------------------------------------------------------------------
(* invariants: the laws per case *)
SweepsOf(c) == IF c.kind \in {"multi", "hist", "phist"} THEN Range(c.ss) ELSE {c.s}
InvWellFormed  == \A s \in SweepsOf(case) : WellFormed(s.items, s.dims)
InvOut         == out = OutOf(case)
InvExactlyOnce == \A s \in SweepsOf(case) : LawExactlyOnce(s.items, s.dims)
InvRowMajor    == \A s \in SweepsOf(case) : LawRowMajor(s.items, s.dims)
InvFinish      == \A s \in SweepsOf(case) : LawFinish(s)
InvOrderFree   == \A s \in SweepsOf(case) : LawOrderFree(s)
InvLen         == \A s \in SweepsOf(case) : LawLen(s)
InvProduct     == case.kind = "multi" => DisjointKeys(case.ss) /\ LawProduct(case.ss)
                                          /\ (~ProductDontCare(case.ss) => LawLen(Merge(case.ss)))
InvConcat      == case.kind = "multi" => LawConcat(case.ss)
InvFilterSum   == case.kind = "multi" => \A i \in DOMAIN case.ss : LawFilteredSumCoversLeaf(case.ss[i])
InvSums        == case.kind = "multi" =>          \* every sum expression over the operands in order is the concatenation
                     LET L == OperandLists(case.ss)  N == OperandLens(case.ss) IN
                     \A e \in Shapes : EvalSum(e, L) = out.concat /\ LenSum(e, N) = out.clen
InvHistory     == case.kind = "hist" => LawHistory(case.ss, case.ops, case.sp, out.objs)
InvObjHistory  == case.kind = "phist" => LawObjHistory(case.ss, case.ops, out.objs)
InvAddDerivers == case.kind = "single" =>         \* a sweep with derivers = add_derivers on the sweep without them
                     /\ LawAddDerivers(WithoutDerivers(case.s), case.s.ders)
                     /\ (out.err = "" /\ case.s.ders # <<>>) => out.added = out.combos
InvFiltered    == case.kind = "filter" => case.s.consts = <<>> /\ case.s.excl = <<>> /\ LawFiltered(case.s, Range(case.keys))
InvCount       == case.kind = "count" => LawCount(CombosOf(case.s), out.deps)

(* the sum expressions every multi case of this run is evaluated through *)
ASSUME IF Mode = "multi" THEN PrintT(<<"SHAPES", ToJson(Shapes)>>) ELSE TRUE
ASSUME Mode = "multi" => \A e \in Shapes : Leaves(e) = [i \in 1..NOps |-> i]      \* the operands, in order

Emit == PrintT(<<"CASE", ToJson([c |-> case, out |-> out])>>)
=============================================================================
