---------------------------- MODULE XarrayLabels ----------------------------
(***************************************************************************)
(* What the xarray Dataset of a map run must look like (C19):              *)
(*   pipefunc/map/xarray.py  xarray_dataset_from_results, load_xarray_...  *)
(*   pipefunc/map/_mapspec.py mapspec_axes, trace_dependencies             *)
(*                                                                         *)
(* For a description d (A = Analysis(d)), inputs inp (den = MapDenote(d,   *)
(* inp)), a set S of selected outputs and the switch li (load_intermediate):*)
(*                                                                         *)
(*  VARIABLES    every selected output is a data variable (unless the      *)
(*               dataset has a coordinate of that name, see below) whose   *)
(*               dimensions Dims(o) are its MapSpec output axes in order   *)
(*               (none for an output without MapSpec) and whose values are *)
(*               den[o].                                                   *)
(*  COORDINATES  belong to dataset dimensions.  An INPUT-LIKE array x (a   *)
(*               root input that some MapSpec maps over; with li also the  *)
(*               output of a generator "... -> x[n]") labels the axes      *)
(*               tuple FullAxes(x) iff that whole tuple is CARRIED         *)
(*               element-wise (never ':') into some selected output.       *)
(*               One-dimensional inputs that share their axis are combined *)
(*               into ONE index named "a:b" (names in alphabetical order)  *)
(*               whose k-th entry is the tuple <<a[k], b[k]>>; inputs of   *)
(*               rank >= 2 are plain coordinates of their own (a pandas    *)
(*               MultiIndex is one-dimensional).                           *)
(*  SOURCES      an axis of one output may be fed by SEVERAL sources: root  *)
(*               inputs listed directly in the MapSpec and mapped arrays    *)
(*               that carry root inputs from further up (trace_dependencies *)
(*               walks them recursively).  What labels the axis is the      *)
(*               UNION over all sources; the order in which a MapSpec lists *)
(*               its inputs carries no meaning (LawSources, LawSourceOrder: *)
(*               "c[i], x[i] -> y[i]" labels y exactly like                 *)
(*               "x[i], c[i] -> y[i]", nothing collected from one source is *)
(*               lost when the next one is traced).                         *)
(*  LAW          selecting the entry of a coordinate that holds value v of *)
(*               input x yields, in every variable that x labels, only     *)
(*               elements whose term contains v at parameter x (LawSelect) *)
(*               - and all of them when input values are pairwise distinct *)
(*               and x reaches the variable on no other path               *)
(*               (LawSelectExact).                                         *)
(*                                                                         *)
(*  NAMES        parameter and output names are opaque identities: scopes   *)
(*               ("sc.x") and renames change names and nothing else, two   *)
(*               different names are two arrays however much text they     *)
(*               share (section 6: Renamed, LawRenamedAnalysis,            *)
(*               LawRenamedCoords) - a coordinate of the dataset that is   *)
(*               read back from the run folder carries the values of ITS   *)
(*               OWN input.                                                *)
(*                                                                         *)
(* Don't-care (both readings of "zipped inputs are combined" accepted, see *)
(* AcceptableOn): the implementation builds the index per VARIABLE and     *)
(* merges, so next to "a:c" (variable w zips a with c) the dataset may     *)
(* also keep "a" (variable y only sees a); the per-dataset-axis reading    *)
(* (CanonicalOn: exactly one index per axis) is the other accepted         *)
(* outcome.  Required in both: every group of inputs that some variable    *)
(* sees zipped is contained in one coordinate.                             *)
(***************************************************************************)
EXTENDS MapDenote

---------------------------------------------------------------------------
(* 1. Arrays named by MapSpecs and their axes (mapspec_axes).               *)
SpecFuncs(d)     == {i \in FIdx(d) : d.funcs[i].has_ms}
InSpecs(d)       == UNION {SeqToSet(d.funcs[i].ms.ins) : i \in SpecFuncs(d)}
OutSpecs(d)      == UNION {SeqToSet(d.funcs[i].ms.outs) : i \in SpecFuncs(d)}
SpecsNamed(d, n) == {sp \in InSpecs(d) \cup OutSpecs(d) : sp.name = n}
ArrayNames(d)    == {sp.name : sp \in InSpecs(d) \cup OutSpecs(d)}
RankOf(d, n)     == Len((CHOOSE sp \in SpecsNamed(d, n) : TRUE).axes)
NamesAt(d, n, k) == {sp.axes[k] : sp \in SpecsNamed(d, n)} \ {":"}
(* validate_consistent_axes: one rank per array, at most one name per position *)
AxesConsistent(d) == \A n \in ArrayNames(d) :
    /\ \A sp \in SpecsNamed(d, n) : Len(sp.axes) = RankOf(d, n)
    /\ \A k \in 1..RankOf(d, n) : Cardinality(NamesAt(d, n, k)) <= 1
(* A position that every MapSpec reduces (':') has no name: the array keeps its rank, the position gets a      *)
(* placeholder that no MapSpec axis can equal, so such an array never labels anything (finding F33: the code    *)
(* dropped the position and crashed or attached a 2-D input as a 1-D coordinate).                                *)
Unnamed(k)     == "unnamed_" \o ToString(k - 1)
FullAxes(d, n) == [k \in 1..RankOf(d, n) |-> IF NamesAt(d, n, k) = {} THEN Unnamed(k)
                                             ELSE CHOOSE a \in NamesAt(d, n, k) : TRUE]

(* dimensions of the variable of output o: its MapSpec output axes in order; none without a MapSpec *)
HasSpecOutput(d, o) == o \in AllOutputs(d) /\ d.funcs[FuncOf(d, o)].has_ms
Dims(d, o) == IF HasSpecOutput(d, o)
              THEN (CHOOSE sp \in SeqToSet(d.funcs[FuncOf(d, o)].ms.outs) : sp.name = o).axes
              ELSE << >>

---------------------------------------------------------------------------
(* 2. Which arrays label which outputs (trace_dependencies).                *)
IsMappedOutput(d, n) == n \in AllOutputs(d) /\ HasMapInputs(d.funcs[FuncOf(d, n)])
(* arrays that are mapped over but not themselves computed element-wise: root inputs and generator outputs *)
LeafArrays(d)    == {sp.name : sp \in InSpecs(d)} \ {n \in AllOutputs(d) : IsMappedOutput(d, n)}

(* the whole axes tuple of x reaches output o element-wise: some mapped input of o's function is x itself with  *)
(* every axis named, or a mapped output that carries x and is consumed without reducing any axis of x           *)
RECURSIVE Carried(_, _, _)
Carried(d, o, x) ==
    LET fn == d.funcs[FuncOf(d, o)]  ax == FullAxes(d, x) IN
    \E k \in DOMAIN fn.ms.ins : LET sp == fn.ms.ins[k] IN
        \/ sp.name = x /\ sp.axes = ax
        \/ IsMappedOutput(d, sp.name) /\ SeqToSet(ax) \subseteq SeqToSet(sp.axes) /\ Carried(d, sp.name, x)

(* the implementation traces axis by axis: x feeds o along axis a *)
RECURSIVE Feeds(_, _, _)
Feeds(d, o, a) ==
    LET fn == d.funcs[FuncOf(d, o)] IN
    UNION {IF a \notin SeqToSet(sp.axes) THEN {}
           ELSE IF IsMappedOutput(d, sp.name) THEN Feeds(d, sp.name, a) ELSE {sp.name} : sp \in SeqToSet(fn.ms.ins)}
CarriedAxiswise(d, o, x) == \A k \in DOMAIN FullAxes(d, x) : x \in Feeds(d, o, FullAxes(d, x)[k])
(* Don't-care: a 2-D input reduced along different axes on two paths that are recombined (x[i,:] -> y[i],        *)
(* x[:,j] -> z[j], y[i], z[j] -> w[i,j]) is carried axis-wise but no element of w is computed from x[i,j] alone. *)
(* The property is claimed for descriptions where the two notions coincide.                                      *)
Unambiguous(d) == \A o \in {n \in AllOutputs(d) : IsMappedOutput(d, n)} : \A x \in LeafArrays(d) :
                      Carried(d, o, x) <=> CarriedAxiswise(d, o, x)
(* every array that is mapped over is either a root input or produced with a MapSpec (a generator) *)
LeavesAreArrays(d) == \A x \in LeafArrays(d) : x \in AllOutputs(d) => HasSpecOutput(d, x)
Supported(d, inp) == /\ AxesConsistent(d) /\ LeavesAreArrays(d) /\ Unambiguous(d)
                     /\ ValidMapRequest(d, inp)
                     /\ LeafArrays(d) \ AllOutputs(d) \subseteq PKeys(inp)

(* What one source (an input spec sp of the MapSpec of o's function) contributes to axis a of o: nothing when it *)
(* does not carry a, itself when it is a leaf, and EVERYTHING that feeds it along a when it is a mapped output.    *)
Contribution(d, sp, a) == IF a \notin SeqToSet(sp.axes) THEN {}
                          ELSE IF IsMappedOutput(d, sp.name) THEN Feeds(d, sp.name, a) ELSE {sp.name}
(* Feeds is the union over the sources, i.e. every source's contribution is kept whichever sources were traced    *)
(* before or after it, and nothing else is added (trace_dependencies: `dependencies[axis].update(...)` / `.add`)  *)
LawSources(d) == \A o \in {n \in AllOutputs(d) : IsMappedOutput(d, n)} :
    LET ins == d.funcs[FuncOf(d, o)].ms.ins IN
    \A a \in SeqToSet(Dims(d, o)) :
        /\ \A k \in DOMAIN ins : Contribution(d, ins[k], a) \subseteq Feeds(d, o, a)
        /\ \A x \in Feeds(d, o, a) : \E k \in DOMAIN ins : x \in Contribution(d, ins[k], a)

---------------------------------------------------------------------------
(* The static analysis of a description, computed once: everything below is stated on it.                        *)
Analysis(d) ==
    LET outs   == AllOutputs(d)
        mapped == {o \in outs : IsMappedOutput(d, o)}
        leaves == LeafArrays(d)
    IN  [outs    |-> outs, mapped |-> mapped, leaves |-> leaves,
         axes    |-> [n \in ArrayNames(d) |-> FullAxes(d, n)],          \* mapspec_axes
         dims    |-> [o \in outs |-> Dims(d, o)],
         params  |-> [o \in outs |-> d.funcs[FuncOf(d, o)].params],
         carried |-> {p \in mapped \X leaves : Carried(d, p[1], p[2])}]  \* <<output, input-like array>>

(* The order of the inputs of a MapSpec carries no meaning: listing them in another order changes neither the     *)
(* analysis (hence no variable, coordinate or acceptable coordinate set below) nor the denotation.                 *)
Orders(n)          == {p \in [1..n -> 1..n] : \A k1, k2 \in 1..n : k1 # k2 => p[k1] # p[k2]}
Reordered(d, i, p) == [d EXCEPT !.funcs[i].ms.ins = [k \in DOMAIN @ |-> @[p[k]]]]
Reorderings(d)     == UNION {{Reordered(d, i, p) : p \in Orders(Len(d.funcs[i].ms.ins))} : i \in SpecFuncs(d)}   \* one function at a time
LawSourceOrder(d, inp, A, den) == \A d2 \in Reorderings(d) : Analysis(d2) = A /\ MapDenote(d2, inp) = den

---------------------------------------------------------------------------
(* 3. The dataset of the selected outputs S (A = Analysis(d), li = load_intermediate).                           *)
InputLike(A, li)        == {x \in A.leaves : x \notin A.outs \/ li}
Labelled(A, S)          == S \cap A.mapped
Group(A, o, li, ax)     == {x \in InputLike(A, li) : A.axes[x] = ax /\ <<o, x>> \in A.carried}
AxisGroup(A, S, li, ax) == UNION {Group(A, o, li, ax) : o \in Labelled(A, S)}
AxesTuples(A, S, li)    == {A.axes[p[2]] : p \in {q \in A.carried : q[1] \in S /\ q[2] \in InputLike(A, li)}}

Singletons(G) == {{x} : x \in G}
(* groups of inputs that one variable sees zipped on ax (rank >= 2: never combined) *)
VarGroups(A, S, li, ax) == IF Len(ax) = 1 THEN {Group(A, o, li, ax) : o \in Labelled(A, S)} \ {{}}
                           ELSE Singletons(AxisGroup(A, S, li, ax))
(* the per-dataset-axis reading: ONE index per axis *)
CanonicalOn(A, S, li, ax)  == IF Len(ax) = 1 THEN {AxisGroup(A, S, li, ax)} ELSE Singletons(AxisGroup(A, S, li, ax))
CandidatesOn(A, S, li, ax) == VarGroups(A, S, li, ax) \cup CanonicalOn(A, S, li, ax)
(* acceptable sets of coordinates (as groups of level names) on ax *)
AcceptableOn(A, S, li, ax) == {C \in SUBSET CandidatesOn(A, S, li, ax) :
                                  \A g \in VarGroups(A, S, li, ax) : \E c \in C : g \subseteq c}

(* a coordinate: levels in alphabetical order (ord = all names in alphabetical order: TLC cannot compare strings), *)
(* name = levels joined with ':'; the value of level x is den[x] (input or generator output), laid out on axes  *)
RECURSIVE JoinNames(_)
JoinNames(s) == IF Len(s) = 1 THEN s[1] ELSE s[1] \o ":" \o JoinNames(Tail(s))
CoordOf(ord, g, ax) == LET lv == SelectSeq(ord, LAMBDA n : n \in g)
                       IN  [name |-> JoinNames(lv), levels |-> lv, axes |-> ax]
CandidateCoords(A, S, li, ord) == UNION {{CoordOf(ord, g, ax) : g \in CandidatesOn(A, S, li, ax)} : ax \in AxesTuples(A, S, li)}
Coords(A, S, li, ord)          == UNION {{CoordOf(ord, g, ax) : g \in CanonicalOn(A, S, li, ax)} : ax \in AxesTuples(A, S, li)}
Alternatives(A, S, li, ord)    == {[axes |-> ax, ok |-> {{CoordOf(ord, g, ax).name : g \in C} : C \in AcceptableOn(A, S, li, ax)}] :
                                      ax \in AxesTuples(A, S, li)}

(* data variables: a selected output is a variable unless the dataset has a coordinate of that name (a dataset    *)
(* cannot hold both; only a generator output that stands alone on its axis can be such a coordinate)             *)
DataVarNames(S, coordnames) == S \ coordnames
VarOf(A, o)                 == [name |-> o, dims |-> A.dims[o]]

---------------------------------------------------------------------------
(* 4. Selection.                                                            *)
(* term T contains value v at parameter x: some application inside T of a function with parameter x got v there *)
RECURSIVE ContainsAt(_, _, _, _)
ContainsAt(A, T, x, v) ==
    \/ T.f \in A.outs /\ LET ps == A.params[T.f] IN \E k \in DOMAIN ps : ps[k] = x /\ k <= Len(T.a) /\ T.a[k] = v
    \/ \E k \in DOMAIN T.a : ContainsAt(A, T.a[k], x, v)

VarShape(A, den, o) == ShapeOf(den[o], Len(A.dims[o]))
RECURSIVE Indices(_)                           \* all index tuples of an array of this shape (= IndexSet, enumerated directly)
Indices(shape) == IF Len(shape) = 0 THEN {<< >>}
                  ELSE {<<n>> \o t : n \in 0..(Head(shape) - 1), t \in Indices(Tail(shape))}
(* key into a variable with dimensions dims for "coordinate on ax at index k": the dimensions of ax that the      *)
(* variable has are fixed, the others stay whole                                                                  *)
SelKey(dims, ax, k) == [p \in DOMAIN dims |-> IF \E q \in DOMAIN ax : ax[q] = dims[p] THEN k[PosIn(ax, dims[p])] ELSE ALL]
SelDims(dims, ax)   == SelectSeq(dims, LAMBDA a : \A q \in DOMAIN ax : ax[q] # a)
SelVal(A, den, o, ax, k) == At(den[o], SelKey(A.dims[o], ax, k))
Agrees(dims, ax, k, t)   == \A p \in DOMAIN dims : \A q \in DOMAIN ax : ax[q] = dims[p] => t[p] = k[q]

(* the variables a group g on ax labels: those into which every level is carried *)
LabelledBy(A, S, li, g, ax) == {o \in Labelled(A, S) : g \subseteq Group(A, o, li, ax)}
CoordShape(den, g, ax)      == ShapeOf(den[CHOOSE x \in g : TRUE], Len(ax))

---------------------------------------------------------------------------
(* 5. Laws (checked by TLC per case in MC_XarrayLabels).                     *)
(* variables have the rank of their dimensions; dimensions are the array's axes, pairwise different *)
LawDims(d, A, den, S) == \A o \in S :
    /\ HasSpecOutput(d, o) => (A.dims[o] = A.axes[o] /\ HasShape(den[o], VarShape(A, den, o)))
    /\ \A k1, k2 \in DOMAIN A.dims[o] : k1 # k2 => A.dims[o][k1] # A.dims[o][k2]
(* a coordinate fits every variable it labels: same size along each of its axes, all levels the same shape *)
LawCoordFits(A, den, S, li) == \A ax \in AxesTuples(A, S, li) : \A g \in CandidatesOn(A, S, li, ax) :
    LET sh == CoordShape(den, g, ax) IN
    /\ \A x \in g : HasShape(den[x], sh) /\ Len(A.axes[x]) = Len(ax)
    /\ \A o \in LabelledBy(A, S, li, g, ax) : \A q \in DOMAIN ax :
           \E p \in DOMAIN A.dims[o] : A.dims[o][p] = ax[q] /\ VarShape(A, den, o)[p] = sh[q]
(* the canonical reading is one of the accepted outcomes; so is "one coordinate per variable group" *)
LawCanonicalAccepted(A, S, li) == \A ax \in AxesTuples(A, S, li) :
    /\ CanonicalOn(A, S, li, ax) \in AcceptableOn(A, S, li, ax)
    /\ VarGroups(A, S, li, ax) \in AcceptableOn(A, S, li, ax)
(* where every variable group on an axis is contained in one variable's group, the two readings name the same   *)
(* full index                                                                                                     *)
OneIndexPerAxes(A, S, li) == \A ax \in AxesTuples(A, S, li) : CanonicalOn(A, S, li, ax) \subseteq VarGroups(A, S, li, ax)
(* switching load_intermediate off removes exactly the levels that are pipeline outputs *)
LawIntermediate(A, S) == \A ax \in AxesTuples(A, S, TRUE) :
    /\ AxisGroup(A, S, FALSE, ax) = AxisGroup(A, S, TRUE, ax) \ A.outs
    /\ AxisGroup(A, S, FALSE, ax) \cap A.outs = {}
(* selection by coordinate value: the elements selected in a labelled variable contain that value at that parameter *)
LawSelect(A, den, S, li) == \A ax \in AxesTuples(A, S, li) : \A g \in CandidatesOn(A, S, li, ax) :
    \A o \in LabelledBy(A, S, li, g, ax) : \A k \in Indices(CoordShape(den, g, ax)) :
        \A t \in Indices(VarShape(A, den, o)) : Agrees(A.dims[o], ax, k, t) =>
            \A x \in g : ContainsAt(A, At(den[o], t), x, At(den[x], k))
(* ... and (inputs with pairwise distinct values, no unmapped side path) no other element does *)
LawSelectExact(A, den, S, li) == \A ax \in AxesTuples(A, S, li) : \A g \in CandidatesOn(A, S, li, ax) :
    \A o \in LabelledBy(A, S, li, g, ax) : \A k \in Indices(CoordShape(den, g, ax)) :
        \A t \in Indices(VarShape(A, den, o)) : ~Agrees(A.dims[o], ax, k, t) =>
            \A x \in g : ~ContainsAt(A, At(den[o], t), x, At(den[x], k))

---------------------------------------------------------------------------
(* 6. Names are opaque (scopes).                                             *)
(* A parameter or output name is nothing but an identity: `Pipeline.update_scope("sc", ...)` / `scope=` / `renames` *)
(* replace names (x -> "sc.x") and change NOTHING else.  So for every injective renaming r of the names of a         *)
(* description the dataset of the renamed pipeline is the renamed dataset: the same dimensions, every coordinate      *)
(* on the same axes with the values of ITS OWN input (the input that carries the new name), every variable with the   *)
(* renamed terms.  In particular two names stay two arrays however much text they share: a common scope prefix        *)
(* ("sc.a", "sc.b"), a common last component ("p.v", "q.v"), one name being the other plus a scope.  Whatever the      *)
(* implementation derives from a name (a file in the run folder's inputs/ or outputs/ directory, a key of            *)
(* RunInfo, an index level) must therefore be injective in the WHOLE name.                                            *)
(* What may change is only the ORDER of the levels inside one combined index "a:b" - it is alphabetical in the names  *)
(* as they are (`ord` of CoordOf), so "a:c" may become "c:sc.a".                                                      *)
Ren(r, n)        == IF n \in DOMAIN r THEN r[n] ELSE n
RenSet(r, S)     == {Ren(r, n) : n \in S}
RenSeq(r, s)     == [k \in DOMAIN s |-> Ren(r, s[k])]
RenPairs(r, ps)  == [k \in DOMAIN ps |-> <<Ren(r, ps[k][1]), ps[k][2]>>]          \* inputs, defaults, bound: name -> value
RenSpecs(r, sps) == [k \in DOMAIN sps |-> [name |-> Ren(r, sps[k].name), axes |-> sps[k].axes]]   \* axis names are not names
RenFunc(r, fn)   == [fn EXCEPT !.params = RenSeq(r, @), !.outputs = RenSeq(r, @), !.defaults = RenPairs(r, @),
                               !.bound = RenPairs(r, @), !.ms = [ins |-> RenSpecs(r, @.ins), outs |-> RenSpecs(r, @.outs)]]
Renamed(d, r)    == [d EXCEPT !.funcs = [i \in DOMAIN @ |-> RenFunc(r, @[i])]]
(* values: the head of an application is the name of the output it computes (PipelineStatic), input atoms stay     *)
RECURSIVE RenTerm(_, _)
RenTerm(r, T)    == [f |-> Ren(r, T.f), a |-> [k \in DOMAIN T.a |-> RenTerm(r, T.a[k])]]
NamesOf(d)       == AllOutputs(d) \cup AllParams(d)
(* r renames names of d to NEW names, one to one *)
IsRenaming(d, r) == /\ DOMAIN r \subseteq NamesOf(d)
                    /\ \A n1, n2 \in DOMAIN r : n1 # n2 => r[n1] # r[n2]
                    /\ \A n \in DOMAIN r : r[n] \notin NamesOf(d)
(* `Pipeline.update_scope(scope, ...)` on the names in `sel` *)
ScopeRenaming(scope, sel) == [n \in sel |-> scope \o "." \o n]

(* the analysis of the renamed description is the renamed analysis, its denotation the renamed denotation *)
LawRenamedAnalysis(d, inp, r, A2, den2) ==
    LET A == Analysis(d)  den == MapDenote(d, inp) IN
    /\ IsRenaming(d, r)
    /\ A2.outs = RenSet(r, A.outs) /\ A2.mapped = RenSet(r, A.mapped) /\ A2.leaves = RenSet(r, A.leaves)
    /\ DOMAIN A2.axes = RenSet(r, DOMAIN A.axes) /\ \A n \in DOMAIN A.axes : A2.axes[Ren(r, n)] = A.axes[n]
    /\ \A o \in A.outs : A2.dims[Ren(r, o)] = A.dims[o] /\ A2.params[Ren(r, o)] = RenSeq(r, A.params[o])
    /\ A2.carried = {<<Ren(r, p[1]), Ren(r, p[2])>> : p \in A.carried}
    /\ DOMAIN den2 = RenSet(r, DOMAIN den) /\ \A n \in DOMAIN den : den2[Ren(r, n)] = RenTerm(r, den[n])
(* ... hence the same coordinates: per selection and switch the same axes tuples, the renamed candidate groups and   *)
(* the renamed acceptable sets; every level of a coordinate holds the value of the input that now carries its name   *)
LawRenamedCoords(d, r, A2, S, li) ==
    LET A == Analysis(d)  S2 == RenSet(r, S) IN
    /\ AxesTuples(A2, S2, li) = AxesTuples(A, S, li)
    /\ \A ax \in AxesTuples(A, S, li) :
           /\ CandidatesOn(A2, S2, li, ax) = {RenSet(r, g) : g \in CandidatesOn(A, S, li, ax)}
           /\ AcceptableOn(A2, S2, li, ax) = {{RenSet(r, g) : g \in C} : C \in AcceptableOn(A, S, li, ax)}
=============================================================================
