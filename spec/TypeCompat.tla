----------------------------- MODULE TypeCompat -----------------------------
(***************************************************************************)
(* Property C16: pipefunc's type-annotation validation                      *)
(*   pipefunc/typing.py            is_type_compatible(incoming, required)   *)
(*   pipefunc/_pipeline/_validation.py  validate_consistent_type_annotations*)
(* agrees with subtype compatibility: "every value of type A is acceptable  *)
(* where B is required, under covariant generics".                          *)
(*                                                                         *)
(* This module is purely definitional (no VARIABLES).  It gives            *)
(*   1. the annotation grammar (records), including WHAT KIND OF OBJECT the *)
(*      metadata of an Annotated is (hashable or not),                      *)
(*   2. the reference relation  Sub(A, B, f)  by structural rules, where    *)
(*      the flag record f decides the three DON'T-CARE classes,             *)
(*   3. the verdict  Verdict(A, B) \in {"yes", "no", "either"},             *)
(*   4. the laws the relation has to obey (checked by TLC in MC_TypeCompat),*)
(*   5. the pipeline rule: EdgeVerdict / Construct.                         *)
(*   6. how an edge arises from two functions (MapSpecs -> via, names),     *)
(*   7. a consumer with several array inputs: every input is judged by its  *)
(*      own MapSpec entry (locality laws).                                  *)
(*   8. how else a parameter may get a value (defaults, bound values): a    *)
(*      default never cuts an edge, a bound value cuts its own edge only.   *)
(***************************************************************************)
EXTENDS Naturals, Sequences, FiniteSets

---------------------------------------------------------------------------
(* 1. GRAMMAR.  An annotation is a record [k |-> kind, a |-> <<arguments>>] *)
(* (one record shape everywhere: TLC cannot compare a record with a string).*)
(*                                                                         *)
(*   kind      arguments   Python                                           *)
(*   int bool float str bytes None     <<>>   the classes (None = NoneType) *)
(*   Any       <<>>        typing.Any                                       *)
(*   NoAnn     <<>>        no annotation at all (pipefunc.typing.NoAnnotation) *)
(*   list set  <<>> | <<T>>       list / list[T], set / set[T]              *)
(*   dict      <<>> | <<K, V>>    dict / dict[K, V]                         *)
(*   tuple     <<>> | <<T1..Tn>>  tuple / tuple[T1, ..., Tn]   (fixed arity)*)
(*   vtuple    <<T>>       tuple[T, ...]                                    *)
(*   union     <<T1..Tn>>  Union[T1, ..., Tn]  (n >= 2)                     *)
(*   opt       <<T>>       Optional[T]  ( = Union[T, None] )                *)
(*   ann       <<T>>       Annotated[T, <opaque non-string metadata>]       *)
(*   annlist anndict annset anndata annfrozen                               *)
(*             <<T>>       Annotated[T, m] for other KINDS of metadata m,   *)
(*                         see "metadata" below                             *)
(*   array     <<T>>       pipefunc.typing.Array[T]                         *)
(*   tvar      <<>>        a free TypeVar                                   *)
(*   tvbound   <<B>>       TypeVar(bound=B)                                 *)
(*   tvcons    <<C1, C2>>  TypeVar(.., C1, C2)                              *)
(* Equal records denote the same Python object (in particular the same      *)
(* TypeVar); NoAnn only occurs at the top of an annotation.                 *)
(*                                                                         *)
(* METADATA.  The extra arguments of Annotated are arbitrary Python OBJECTS *)
(* (PEP 593: units, validators, documentation, ...), not types: nothing      *)
(* says that they can be hashed, and two annotations written in two places   *)
(* carry two objects that are at best EQUAL.  The kind of an Annotated       *)
(* record says what its metadata object is:                                  *)
(*   ann        an instance of a plain class   (hash and == by identity)     *)
(*   annlist    a list          ["a", "list"]   (== by value, NO hash)       *)
(*   anndict    a dict          {"doc": "text"} (== by value, NO hash)       *)
(*   annset     a set           {"a", "set"}    (== by value, NO hash)       *)
(*   anndata    an instance of a @dataclass     (== by value, NO hash:       *)
(*              eq=True without frozen=True sets __hash__ to None)           *)
(*   annfrozen  an instance of a @dataclass(frozen=True) (== and hash by value) *)
(* Whatever it is, the metadata says nothing about the set of values (Strip, *)
(* Erase, LawMetadataSilent below).                                          *)
At(k)        == [k |-> k, a |-> <<>>]
Mk1(k, x)    == [k |-> k, a |-> <<x>>]
Mk2(k, x, y) == [k |-> k, a |-> <<x, y>>]

IntT == At("int")   BoolT == At("bool")  FloatT == At("float")  StrT == At("str")  BytesT == At("bytes")
NoneT == At("None") AnyT == At("Any")    NoAnn == At("NoAnn")   TVar == At("tvar")
ListOf(x) == Mk1("list", x)   SetOf(x) == Mk1("set", x)   DictOf(x, y) == Mk2("dict", x, y)
Tup1(x) == Mk1("tuple", x)    Tup2(x, y) == Mk2("tuple", x, y)   VTup(x) == Mk1("vtuple", x)
UnionOf(x, y) == Mk2("union", x, y)   Opt(x) == Mk1("opt", x)   Ann(x) == Mk1("ann", x)
AnnKinds         == {"ann", "annlist", "anndict", "annset", "anndata", "annfrozen"}
UnhashableKinds  == {"annlist", "anndict", "annset", "anndata"}     \* hash(metadata) raises TypeError
AnnM(k, x)       == Mk1(k, x)                                         \* k \in AnnKinds
ArrayOf(x) == Mk1("array", x)   TVBound(x) == Mk1("tvbound", x)   TVCons(x, y) == Mk2("tvcons", x, y)

Classes  == {"int", "bool", "float", "str", "bytes", "None"}     \* nominal classes
Generics == {"list", "set", "dict"}                              \* same-origin generics (tuples apart)
TVKinds  == {"tvar", "tvbound", "tvcons"}

IsBare(A)  == A.k \in (Generics \cup {"tuple"}) /\ A.a = <<>>
IsTuple(A) == A.k \in {"tuple", "vtuple"}
IsTV(A)    == A.k \in TVKinds
IsUnion(A) == A.k \in {"union", "opt"}
IsAnn(A)   == A.k \in AnnKinds

RECURSIVE Depth(_)
Depth(A) == IF A.a = <<>> THEN 0
            ELSE 1 + (CHOOSE m \in {Depth(A.a[i]) : i \in DOMAIN A.a} :
                          \A n \in {Depth(A.a[i]) : i \in DOMAIN A.a} : n <= m)

(* Annotated[...] says nothing about the set of values: it is stripped everywhere, whatever its metadata is. *)
RECURSIVE Strip(_)
Strip(A) == IF IsAnn(A) THEN Strip(A.a[1]) ELSE A

(* The annotation with EVERY Annotated wrapper removed, at any depth (the declaration of a TypeVar is left *)
(* alone: TypeVars are compared as objects).                                                             *)
RECURSIVE Erase(_)
Erase(A) == IF IsAnn(A) THEN Erase(A.a[1])
            ELSE IF IsTV(A) \/ A.a = <<>> THEN A
            ELSE [k |-> A.k, a |-> [i \in DOMAIN A.a |-> Erase(A.a[i])]]
RECURSIVE HasUnhashableMeta(_)
HasUnhashableMeta(A) == A.k \in UnhashableKinds \/ \E i \in DOMAIN A.a : HasUnhashableMeta(A.a[i])

(* The (stripped, non-union) alternatives of a union-like annotation. *)
RECURSIVE Members(_)
Members(A) == CASE A.k = "union" -> UNION {Members(A.a[i]) : i \in DOMAIN A.a}
                [] A.k = "opt"   -> Members(A.a[1]) \cup {NoneT}
                [] IsAnn(A)      -> Members(A.a[1])
                [] OTHER         -> {A}

---------------------------------------------------------------------------
(* 2. DON'T-CARE CLASSES.  A flag record f = [tv, bare, num] of booleans    *)
(* chooses, for each class, the sound reading (FALSE) or the lenient one    *)
(* (TRUE).  The specification allows EITHER answer exactly where the two    *)
(* readings differ.                                                         *)
(*                                                                         *)
(* tv   - the SOURCE is a TypeVar.  Sound reading: a free TypeVar may stand *)
(*        for any type, so it is only acceptable where everything is; a     *)
(*        bounded/constrained one is as good as its bound / all of its      *)
(*        constraints.  is_type_compatible documents a TODO ("the incoming  *)
(*        type needs to be resolved ... For now, we just return True") and  *)
(*        tests/test_typing.py::test_is_type_compatible_with_generics_      *)
(*        incoming_generic pins `T -> list[str]`; the property text gives   *)
(*        no solving context for a source TypeVar.                          *)
(* bare - an un-parametrised generic (list, set, dict, tuple) as SOURCE     *)
(*        against a parametrised one of the same origin.  Sound reading:    *)
(*        `list` is `list[Any]` (tuple is tuple[Any, ...]), hence not       *)
(*        acceptable for list[int]; tests/test_typing.py pins                *)
(*        `list -> list[int]` and `dict -> dict[int, str]` as compatible.   *)
(*        (The other direction, list[int] -> list, is "yes" under both      *)
(*        readings and pinned too.)                                         *)
(* num  - int -> float (and bool -> float): PEP 484's numeric tower accepts *)
(*        it, the nominal class table (issubclass) does not and             *)
(*        tests/test_typing.py pins `not is_type_compatible(int, float)`.   *)
DCClasses == {"tv", "bare", "num"}
Flags(S)  == [tv |-> "tv" \in S, bare |-> "bare" \in S, num |-> "num" \in S]
Strict    == Flags({})
Lenient   == Flags(DCClasses)

(* nominal class table: bool is a subclass of int; nothing else is related *)
Nominal(a, b, f) == \/ a = b
                    \/ a = "bool" /\ b = "int"
                    \/ f.num /\ a \in {"int", "bool"} /\ b = "float"

---------------------------------------------------------------------------
(* 3. THE REFERENCE RELATION.  Sub(A, B, f): a value produced under          *)
(* annotation A is acceptable where annotation B is required.               *)
(* Note: `Any -> int` is NOT compatible (tests pin it): "Any is compatible  *)
(* with everything" is read as "everything is accepted where Any is         *)
(* required".                                                               *)
RECURSIVE Sub(_, _, _)
Sub(A0, B0, f) ==
  LET A == Strip(A0)
      B == Strip(B0)
      All(S, T) == \A i \in DOMAIN S : Sub(S[i], T[i], f)
  IN
  \* (R1) a missing annotation on either side, or Any required: accepted
  IF A.k = "NoAnn" \/ B.k \in {"NoAnn", "Any"} THEN TRUE
  \* (R2) union source: ALL members must be accepted
  ELSE IF IsUnion(A) THEN \A m \in Members(A) : Sub(m, B, f)
  \* (R3) union target: SOME member must accept
  ELSE IF IsUnion(B) THEN \E m \in Members(B) : Sub(A, m, f)
  \* (R4) TypeVar required: free accepts everything, bounded what its bound accepts,
  \*      constrained what one of its constraints accepts; a TypeVar accepts itself
  ELSE IF IsTV(B) THEN
       \/ A = B
       \/ B.k = "tvar"
       \/ B.k = "tvbound" /\ Sub(A, B.a[1], f)
       \/ B.k = "tvcons"  /\ \E i \in DOMAIN B.a : Sub(A, B.a[i], f)
       \/ IsTV(A) /\ f.tv
  \* (R5) TypeVar source (don't-care class tv)
  ELSE IF IsTV(A) THEN
       \/ f.tv
       \/ A.k = "tvbound" /\ Sub(A.a[1], B, f)
       \/ A.k = "tvcons"  /\ \A i \in DOMAIN A.a : Sub(A.a[i], B, f)
  \* (R6) Any as a source is only acceptable by R1/R3/R4
  ELSE IF A.k = "Any" THEN FALSE
  \* (R7) classes: nominal table
  ELSE IF A.k \in Classes /\ B.k \in Classes THEN Nominal(A.k, B.k, f)
  \* (R8) Array[S] -> Array[T]: element-covariant; Array is unrelated to everything else in the grammar
  ELSE IF A.k = "array" \/ B.k = "array" THEN A.k = B.k /\ Sub(A.a[1], B.a[1], f)
  \* (R9) tuples: bare tuple is tuple[Any, ...]; fixed -> fixed needs EQUAL arity; fixed -> variadic needs every
  \*      component accepted; variadic -> fixed never (the length is not known)
  ELSE IF IsTuple(A) /\ IsTuple(B) THEN
       IF IsBare(B) THEN TRUE
       ELSE IF IsBare(A) THEN f.bare \/ (B.k = "vtuple" /\ Sub(AnyT, B.a[1], f))
       ELSE IF A.k = "tuple"  /\ B.k = "tuple"  THEN Len(A.a) = Len(B.a) /\ All(A.a, B.a)
       ELSE IF A.k = "tuple"  /\ B.k = "vtuple" THEN \A i \in DOMAIN A.a : Sub(A.a[i], B.a[1], f)
       ELSE IF A.k = "vtuple" /\ B.k = "vtuple" THEN Sub(A.a[1], B.a[1], f)
       ELSE FALSE
  \* (R10) list / set / dict: same origin, pairwise covariant arguments; bare G is G[Any, ..]
  ELSE IF A.k = B.k /\ A.k \in Generics THEN
       IF IsBare(B) THEN TRUE
       ELSE IF IsBare(A) THEN f.bare \/ \A i \in DOMAIN B.a : Sub(AnyT, B.a[i], f)
       ELSE All(A.a, B.a)
  \* (R11) nothing else is related
  ELSE FALSE

SubStrict(A, B)  == Sub(A, B, Strict)
SubLenient(A, B) == Sub(A, B, Lenient)

Verdict(A, B) == IF SubStrict(A, B) THEN "yes" ELSE IF SubLenient(A, B) THEN "either" ELSE "no"

(* which don't-care classes, switched on alone, change the answer (for the evidence) *)
Why(A, B) == IF Verdict(A, B) # "either" THEN {} ELSE {c \in DCClasses : Sub(A, B, Flags({c}))}

---------------------------------------------------------------------------
(* 4. LAWS (stated for arbitrary A, B and a third annotation C; MC_TypeCompat *)
(* instantiates them over its universe).                                    *)
RECURSIVE HasNoAnn(_)
HasNoAnn(A) == A.k = "NoAnn" \/ \E i \in DOMAIN A.a : HasNoAnn(A.a[i])

LawMonotone(A, B)   == \A c \in DCClasses :
                           /\ (SubStrict(A, B) => Sub(A, B, Flags({c})))
                           /\ (Sub(A, B, Flags({c})) => SubLenient(A, B))
LawReflexive(A)     == SubStrict(A, A)
LawAnyTop(A)        == SubStrict(A, AnyT) /\ SubStrict(A, NoAnn) /\ SubStrict(NoAnn, A)
                       /\ SubStrict(A, Ann(AnyT)) /\ SubStrict(A, TVar)
(* Any is accepted only where everything is accepted *)
LawAnyBottomless(B, U) == SubStrict(AnyT, B) => \A X \in U : SubStrict(X, B)
(* The three union laws for one third annotation C (A, B, C without NoAnn):                          *)
(*  introduction: what B accepts, B | C, C | B and Optional[B] accept; a member is accepted by its union; *)
(*  elimination : a union source is accepted iff every member is;                                     *)
(*  target      : a non-union source is accepted by B | C iff it is accepted by B or by C.            *)
LawUnion(A, B, C, f) ==
    LET sAB == Sub(A, B, f)
        sCB == Sub(C, B, f)
        sBC == Sub(A, UnionOf(B, C), f)
    IN  /\ sAB => (sBC /\ Sub(A, UnionOf(C, B), f) /\ Sub(A, Opt(B), f))
        /\ Sub(A, UnionOf(A, C), f) /\ Sub(NoneT, Opt(B), f)
        /\ Sub(UnionOf(A, C), B, f) <=> (sAB /\ sCB)
        /\ Sub(Opt(A), B, f) <=> (sAB /\ Sub(NoneT, B, f))
        /\ ~IsUnion(Strip(A)) => (sBC <=> (sAB \/ Sub(A, C, f)))
(* covariance of every constructor of the grammar (NoAnn never occurs as an argument) *)
LawCovariant(A, B, f) ==
    (~HasNoAnn(A) /\ ~HasNoAnn(B)) =>
        LET s == Sub(A, B, f) IN
        /\ Sub(ListOf(A), ListOf(B), f) = s
        /\ Sub(SetOf(A), SetOf(B), f) = s
        /\ Sub(VTup(A), VTup(B), f) = s
        /\ Sub(Tup1(A), Tup1(B), f) = s
        /\ Sub(Tup1(A), VTup(B), f) = s
        /\ Sub(ArrayOf(A), ArrayOf(B), f) = s
        /\ Sub(Ann(A), B, f) = s /\ Sub(A, Ann(B), f) = s /\ Sub(Ann(A), Ann(B), f) = s
        /\ Sub(DictOf(A, StrT), DictOf(B, StrT), f) = s
        /\ Sub(DictOf(StrT, A), DictOf(StrT, B), f) = s
        /\ Sub(Tup2(A, IntT), Tup2(B, IntT), f) = s /\ Sub(Tup2(IntT, A), Tup2(IntT, B), f) = s
        /\ s => Sub(Opt(A), Opt(B), f)
        /\ s => Sub(A, TVBound(B), f)
(* Annotated metadata is SILENT: erasing every Annotated wrapper on both sides -- whatever kind of object the *)
(* metadata is, hashable or not, at the top or inside a union / generic / Array -- changes no verdict          *)
LawMetadataSilent(A, B, f) == Sub(A, B, f) = Sub(Erase(A), Erase(B), f)
(* ... and WHAT the metadata is plays no part: an Annotated of any kind around either side is that side        *)
LawMetadataKind(A, B, f)   == (~HasNoAnn(A) /\ ~HasNoAnn(B)) =>
                                  LET s == Sub(A, B, f) IN
                                  \A k \in AnnKinds : Sub(AnnM(k, A), B, f) = s /\ Sub(A, AnnM(k, B), f) = s
(* arity: tuples of different fixed arity are never related; a variadic tuple is never a fixed one *)
LawArity(A, B, f) == (~HasNoAnn(A) /\ ~HasNoAnn(B)) =>
                        /\ ~Sub(Tup2(A, A), Tup1(B), f)
                        /\ ~Sub(Tup1(A), Tup2(B, B), f)
                        /\ ~Sub(VTup(A), Tup1(B), f)
                        /\ Sub(Tup2(A, A), VTup(B), f) = Sub(A, B, f)
(* transitivity on the don't-care-free fragment: the sound reading of every class, and no missing  *)
(* annotation in the middle (NoAnn is compatible both ways with everything: by design not an order) *)
LawTransitive(A, B, U) == (~HasNoAnn(B) /\ SubStrict(A, B)) => \A C \in U : SubStrict(B, C) => SubStrict(A, C)

---------------------------------------------------------------------------
(* 5. PIPELINE RULE.  An edge carries the producer's output annotation P to the consumer's        *)
(* parameter annotation C.  `via` says how the consumer takes the output:                          *)
(*   direct    - no MapSpec involved                                                               *)
(*   emap      - element-wise: producer `x[i] -> y[i]`, consumer `y[i] -> z[i]` (element types)    *)
(*   reduce    - producer `x[i] -> y[i]`, consumer takes the whole of y (no MapSpec entry for y):   *)
(*               the consumer receives an object array, i.e. Array[P]                              *)
(*   preduce   - partial reduction: producer `x[i, j] -> y[i, j]`, consumer `y[i, :] -> z[i]`:     *)
(*               Array[P] as well                                                                  *)
(*   generated - a MapSpec of one of the two functions was auto-generated: the edge is NOT checked *)
(*   internal  - the producer's output has an internal shape (`... -> y[i]`): NOT checked          *)
CheckedVias   == {"direct", "emap", "reduce", "preduce"}
UncheckedVias == {"generated", "internal"}
Vias          == CheckedVias \cup UncheckedVias

(* Don't-care at pipeline level: under a reduction a producer whose element annotation is itself   *)
(* an Array[...] -- the property text says Array[Array[T]], the validator deliberately keeps       *)
(* Array[T] (`not is_object_array_type(output_type)`), no test or document decides.                *)
EdgeVerdict(P, C, via) ==
    IF via \in UncheckedVias \/ P.k = "NoAnn" \/ C.k = "NoAnn" THEN "yes"
    ELSE IF via \in {"reduce", "preduce"}
         THEN IF Strip(P).k = "array" THEN "either" ELSE Verdict(ArrayOf(P), C)
         ELSE Verdict(P, C)

(* A pipeline description: [edges |-> <<[p, c, via], ...>>, validate |-> BOOLEAN].                 *)
(* Construction accepts iff every checked edge is compatible and raises TypeError otherwise;       *)
(* with validate_type_annotations = False it always accepts.                                       *)
Construct(edges, validate) ==
    LET vs == {EdgeVerdict(edges[i].p, edges[i].c, edges[i].via) : i \in DOMAIN edges} IN
    IF ~validate THEN "accept"
    ELSE IF "no" \in vs THEN "TypeError"
    ELSE IF "either" \in vs THEN "either"
    ELSE "accept"

(* laws of the pipeline rule *)
LawFlagOff(edges)       == Construct(edges, FALSE) = "accept"
LawUncheckedEdge(P, C)  == \A v \in UncheckedVias : EdgeVerdict(P, C, v) = "yes"
(* metadata is silent on an edge too, however the edge is taken: in particular a reduced output counts as    *)
(* Array[P] (or, don't-care, stays the Array it already is) for P with and without its metadata alike --     *)
(* `is_object_array_type(output_type)` is a question about Strip(P)                                          *)
LawMetadataSilentEdge(P, C, via) == EdgeVerdict(P, C, via) = EdgeVerdict(Erase(P), Erase(C), via)
ErasedEdges(edges)      == [i \in DOMAIN edges |-> [p |-> Erase(edges[i].p), c |-> Erase(edges[i].c), via |-> edges[i].via]]
LawMetadataSilentPipe(edges, validate) ==
    /\ \A i \in DOMAIN edges : LawMetadataSilentEdge(edges[i].p, edges[i].c, edges[i].via)
    /\ Construct(edges, validate) = Construct(ErasedEdges(edges), validate)
LawReduceWraps(P, C)    == (~HasNoAnn(P) /\ ~HasNoAnn(C) /\ Strip(P).k # "array") =>
                               /\ EdgeVerdict(P, ArrayOf(C), "reduce") = EdgeVerdict(P, C, "emap")
                               /\ EdgeVerdict(P, C, "direct") = EdgeVerdict(P, C, "emap")

---------------------------------------------------------------------------
(* 6. HOW AN EDGE ARISES FROM TWO FUNCTIONS.                                                        *)
(*                                                                                                 *)
(* 6a. The `via` of an edge follows from the MapSpecs the USER WROTE on the two functions           *)
(* (validate_consistent_type_annotations: _mapspec_is_generated, _mapspec_with_internal_shape,      *)
(* _axis_is_reduced).  A MapSpec is [has, ins, outs]; an array is [n |-> name, ax |-> <<indices>>]  *)
(* with ":" for an axis taken whole.                                                                *)
NoMS          == [has |-> FALSE, ins |-> <<>>, outs |-> <<>>]
MS(ins, outs) == [has |-> TRUE, ins |-> ins, outs |-> outs]
Arr(n, ax)    == [n |-> n, ax |-> ax]
ArrNames(s)   == {s[i].n : i \in DOMAIN s}
AxesOf(s, n)  == LET i == CHOOSE j \in DOMAIN s : s[j].n = n IN {s[i].ax[j] : j \in DOMAIN s[i].ax}
InputIndices(ms) == UNION {AxesOf(ms.ins, n) : n \in ArrNames(ms.ins)} \ {":"}

(* `name` is an output of the producer (MapSpec pms) and a parameter of the consumer (MapSpec cms). *)
ViaOf(pms, cms, name) ==
    LET mappedOut == pms.has /\ name \in ArrNames(pms.outs)
        mappedIn  == cms.has /\ name \in ArrNames(cms.ins)
    IN
    \* the producer has no MapSpec but the consumer maps over its output: the pipeline GENERATES `... -> name[i]`
    IF ~pms.has /\ mappedIn THEN "generated"
    \* the output has an index that no input of the producer has: an internal shape
    ELSE IF mappedOut /\ ~(AxesOf(pms.outs, name) \subseteq InputIndices(pms)) THEN "internal"
    \* a mapped output that the consumer does not index at all -- whether or not the consumer has a MapSpec of
    \* its own over OTHER parameters -- is received whole: an object array
    ELSE IF mappedOut /\ ~mappedIn THEN "reduce"
    ELSE IF mappedOut /\ ":" \in AxesOf(cms.ins, name) THEN "preduce"
    ELSE IF mappedOut THEN "emap"
    ELSE "direct"

(* 6b. Output names.  A function declares its outputs <<o1, .., on>> and returns tuple[T1, .., Tn]; its     *)
(* names are then renamed by a sequence of steps (renames= at construction, update_renames,                *)
(* update_scope), each a set of <<current name, new name>> pairs applied simultaneously.  The annotation   *)
(* of an output belongs to its POSITION: it follows the name through every renaming.                       *)
RenameOne(step, n) == IF \E r \in step : r[1] = n THEN (CHOOSE r \in step : r[1] = n)[2] ELSE n
RECURSIVE RenameAll(_, _)
RenameAll(steps, n) == IF steps = <<>> THEN n ELSE RenameAll(Tail(steps), RenameOne(Head(steps), n))
(* prod = [outs |-> <<declared names>>, anns |-> <<annotations>>, steps |-> <<rename steps>>, ms |-> MapSpec] *)
CurrentOutputs(prod)  == [i \in DOMAIN prod.outs |-> RenameAll(prod.steps, prod.outs[i])]
OutputAnn(prod, name) == prod.anns[CHOOSE i \in DOMAIN prod.outs : CurrentOutputs(prod)[i] = name]
(* cons = [params |-> <<[n |-> current parameter name, t |-> annotation]>>, ms |-> MapSpec (in current names)] *)
(* A parameter record may also say how ELSE the parameter can get a value (field `sup`, section 8); a      *)
(* parameter without that field has nothing but the pipeline to supply it.                                 *)
SupplyKinds   == {"none", "sig", "default", "bound"}
SupOf(q)      == IF "sup" \in DOMAIN q THEN q.sup ELSE "none"
CutsEdge(sup) == sup = "bound"                 \* section 8: only a bound value takes the place of the upstream output
(* The edges between a producer and a consumer: one per parameter that names a current output and is not   *)
(* cut off from it (Pipeline._make_graph: `if arg in self.output_to_func: if arg in f._bound: <_Bound node> *)
(* else: add_edge(output_to_func[arg], f)`).                                                                *)
NamedEdges(prod, cons) ==
    LET cur  == CurrentOutputs(prod)
        hit  == {i \in DOMAIN cons.params : /\ \E j \in DOMAIN cur : cur[j] = cons.params[i].n
                                            /\ ~CutsEdge(SupOf(cons.params[i]))}
        pms  == [prod.ms EXCEPT !.outs = [i \in DOMAIN prod.ms.outs |->
                                            Arr(RenameAll(prod.steps, prod.ms.outs[i].n), prod.ms.outs[i].ax)]]
        edge(i) == [p |-> OutputAnn(prod, cons.params[i].n), c |-> cons.params[i].t,
                    via |-> ViaOf(pms, cons.ms, cons.params[i].n), n |-> cons.params[i].n]
    IN  {edge(i) : i \in hit}
ConstructNamed(prod, cons, validate) ==
    LET es == NamedEdges(prod, cons)
        vs == {EdgeVerdict(e.p, e.c, e.via) : e \in es} IN
    IF ~validate THEN "accept" ELSE IF "no" \in vs THEN "TypeError" ELSE IF "either" \in vs THEN "either" ELSE "accept"

(* laws: renaming moves names, never annotations; a renaming that is undone changes nothing *)
LawRenameKeepsPositions(prod) ==
    LET cur == CurrentOutputs(prod) IN
    (\A i, j \in DOMAIN cur : i # j => cur[i] # cur[j]) => \A i \in DOMAIN cur : OutputAnn(prod, cur[i]) = prod.anns[i]
LawRenameInverse(prod, step) ==
    LET inv  == {<<r[2], r[1]>> : r \in step}
        back == [prod EXCEPT !.steps = prod.steps \o <<step, inv>>] IN
    (\A r1, r2 \in step : (r1[2] = r2[2]) => r1 = r2)
       /\ (\A r \in step : \A i \in DOMAIN prod.outs : CurrentOutputs(prod)[i] = r[2] => \E q \in step : q[1] = r[2])
       => CurrentOutputs(back) = CurrentOutputs(prod)

---------------------------------------------------------------------------
(* 7. A CONSUMER WITH SEVERAL ARRAY INPUTS (a network: producers <<prod_1, .., prod_n>>, one consumer).      *)
(*                                                                                                         *)
(* The consumer's MapSpec has one entry per array input and every entry says how THAT input is taken:      *)
(* `m[:, j], w[j] -> r[j]` takes a whole column of m (a partial reduction: Array[...]) and ONE element of  *)
(* w.  validate_consistent_type_annotations walks the edges one by one (`for parameter_name, input_type    *)
(* in dep.parameter_annotations.items()`) and _axis_is_reduced(f_out, f_in, parameter_name) looks up the   *)
(* axes of `parameter_name` only -- which is exactly ViaOf(pms, cms, name) above: the entry of `name`.      *)
(* The edges of the network are the edges of every producer with the consumer; the outcome is decided by   *)
(* the same rule as for one producer.                                                                      *)
NetEdges(prods, cons) == UNION {NamedEdges(prods[k], cons) : k \in DOMAIN prods}
ConstructNet(prods, cons, validate) ==
    LET vs == {EdgeVerdict(e.p, e.c, e.via) : e \in NetEdges(prods, cons)} IN
    IF ~validate THEN "accept" ELSE IF "no" \in vs THEN "TypeError" ELSE IF "either" \in vs THEN "either" ELSE "accept"

(* The consumer MapSpec / the consumer reduced to ONE of its inputs: every other entry (sibling) forgotten. *)
OnlyEntry(ms, name) == [ms EXCEPT !.ins = SelectSeq(ms.ins, LAMBDA a : a.n = name)]
SoloCons(cons, i)   == [params |-> <<cons.params[i]>>, ms |-> OnlyEntry(cons.ms, cons.params[i].n)]

(* laws: LOCALITY.  How an input is taken (its via) is a matter of its own MapSpec entry: a sliced, indexed *)
(* or absent SIBLING entry never turns an element-wise edge into a reduction or the other way round; hence  *)
(* a consumer with several inputs is judged input by input.                                                 *)
LawViaLocal(pms, cms, name) == ViaOf(pms, cms, name) = ViaOf(pms, OnlyEntry(cms, name), name)
LawEdgewise(prods, cons)    ==
    /\ NetEdges(prods, cons) = UNION {NetEdges(prods, SoloCons(cons, i)) : i \in DOMAIN cons.params}
    /\ \A v \in BOOLEAN :
          LET solo == {ConstructNet(prods, SoloCons(cons, i), v) : i \in DOMAIN cons.params} IN
          ConstructNet(prods, cons, v) = IF "TypeError" \in solo THEN "TypeError"
                                         ELSE IF "either" \in solo THEN "either" ELSE "accept"

---------------------------------------------------------------------------
(* 8. HOW ELSE A PARAMETER MAY GET A VALUE: defaults and bound values.                                       *)
(*                                                                                                         *)
(* Besides the pipeline (an upstream output or a pipeline input) a parameter of a function can be given a   *)
(* value in three ways; the field `sup` of a parameter record says which (SupplyKinds, section 6b):         *)
(*   "sig"     a default in the Python signature            def g(y: str = "")                              *)
(*   "default" a default set through the PipeFunc           PipeFunc(g, .., defaults={y: ..}),               *)
(*             @pipefunc(defaults=..), g.update_defaults(..), pipeline.update_defaults(..)   (PipeFunc._defaults) *)
(*   "bound"   a bound value                                PipeFunc(g, .., bound={y: ..}), g.update_bound(..) *)
(* A DEFAULT is what the function gets when nothing supplies the parameter.  A parameter that names the     *)
(* output of another function is always supplied -- by that function: the default is dead                   *)
(* (validate_consistent_defaults skips it: `arg in output_to_func`), the upstream value is what arrives,    *)
(* the edge is an edge like any other and has to be validated.  A BOUND value is fixed: the function gets   *)
(* it whatever the pipeline computes, _make_graph puts a _Bound node in the place of the producer, there is  *)
(* no edge and hence nothing to validate -- for THAT parameter; the other parameters of the same consumer    *)
(* keep their edges.  (PipeFunc refuses a bound parameter that the function's own MapSpec indexes.)          *)
(* All of this is CutsEdge in NamedEdges above; here are the derived notions and the laws.                  *)
WithSup(q, s)        == [n |-> q.n, t |-> q.t, sup |-> s]
(* the consumer with every default / bound value forgotten *)
Unsupplied(cons)     == [cons EXCEPT !.params = [i \in DOMAIN cons.params |-> WithSup(cons.params[i], "none")]]
BoundNames(cons)     == {cons.params[i].n : i \in {j \in DOMAIN cons.params : CutsEdge(SupOf(cons.params[j]))}}
SupplyWellFormed(cons) == /\ \A i \in DOMAIN cons.params : SupOf(cons.params[i]) \in SupplyKinds
                          /\ BoundNames(cons) \cap ArrNames(cons.ms.ins) = {}

(* laws *)
(* a default -- in the signature or through the PipeFunc, on the wired parameter or on any other -- changes  *)
(* neither the edges nor the outcome of the construction                                                     *)
LawDefaultKeepsEdges(prods, cons) ==
    (BoundNames(cons) = {}) =>
        /\ NetEdges(prods, cons) = NetEdges(prods, Unsupplied(cons))
        /\ \A v \in BOOLEAN : ConstructNet(prods, cons, v) = ConstructNet(prods, Unsupplied(cons), v)
(* a bound value removes exactly the edges into the parameters it is bound to; what is left is judged as ever *)
LawBoundCutsOwnEdge(prods, cons) ==
    LET all == NetEdges(prods, Unsupplied(cons)) IN
    /\ NetEdges(prods, cons) = {e \in all : e.n \notin BoundNames(cons)}
    /\ \A v \in BOOLEAN :
          LET vs == {EdgeVerdict(e.p, e.c, e.via) : e \in {x \in all : x.n \notin BoundNames(cons)}} IN
          ConstructNet(prods, cons, v) = IF ~v THEN "accept" ELSE IF "no" \in vs THEN "TypeError"
                                         ELSE IF "either" \in vs THEN "either" ELSE "accept"
=============================================================================
