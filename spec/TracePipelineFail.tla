------------------------- MODULE TracePipelineFail --------------------------
(* C13, call side: pipeline(out, kwargs) / run when a user function raises.  Events (all fields always present):    *)
(*   {e, out, kw, mode, f, kwargs, cls, args, attributed, repro, repro_loaded}                                        *)
(*   e in begin | call | callfail | raise                                                                             *)
(* The failing function is invoked like any other (needed, after its dependencies, resolved arguments); nothing runs  *)
(* after it; the caller sees the same class and args, attributed to the function and its kwargs; the ErrorSnapshot     *)
(* reproduces the same exception, also after save_to_file / load_from_file.                                            *)
EXTENDS PipelineCall, Json, IOUtils, TLCExt
Traces == ndJsonDeserialize(IOEnv.TRACE_FILE)
NT == Len(Traces)
ASSUME \A i \in 1..NT : TLCSet(i, 0)

VARIABLES tid, l, exc
T  == Traces[tid]
Ev == T.ev[l]
IsEvent(e) == l <= Len(T.ev) /\ Ev.e = e /\ l' = l + 1 /\ UNCHANGED tid
NoExc == [cls |-> "", args |-> <<>>]
Init == tid \in 1..NT /\ l = 1 /\ CallInit(T.desc) /\ exc = NoExc
FIdxByName(n) == CHOOSE i \in FIdx(d) : d.funcs[i].name = n

TBegin    == IsEvent("begin") /\ Begin(Ev.out, Ev.kw, Ev.mode) /\ exc' = NoExc
TCall     == IsEvent("call") /\ exc = NoExc /\ Call(FIdxByName(Ev.f), Ev.kwargs) /\ UNCHANGED exc
TCallFail == IsEvent("callfail") /\ exc = NoExc /\ Call(FIdxByName(Ev.f), Ev.kwargs)
             /\ exc' = [cls |-> Ev.cls, args |-> Ev.args]
TRaise    == IsEvent("raise") /\ phase = "running" /\ exc # NoExc
             /\ Ev.cls = exc.cls /\ Ev.args = exc.args /\ Ev.attributed
             /\ Ev.repro = <<exc.cls, exc.args>> /\ Ev.repro_loaded = <<exc.cls, exc.args>>
             /\ Finish /\ UNCHANGED exc
Next == TBegin \/ TCall \/ TCallFail \/ TRaise
Spec == Init /\ [][Next]_<<cvars, tid, l, exc>>
Track == IF l > TLCGet(tid) THEN TLCSet(tid, l) ELSE TRUE
InvDoneOnlyNeeded == DoneOnlyNeeded
Accepted == \A i \in 1..NT : (TLCGet(i) = Len(Traces[i].ev) + 1) \/ PrintT(<<"REJECT", i, TLCGet(i)>>)
=============================================================================
