---------------------------- MODULE MC_StoreRace ----------------------------
(* Every schedule of N concurrent stores of one path at the grain the harness can drive through the real code:        *)
(* Open(w) (the store has reached the pickling of the value) and Finish(w) = Write(w) then Replace(w).  TLC prints one   *)
(* SCHED line per complete schedule with what a reader of the final path sees after every step.                       *)
EXTENDS StoreRace, Sequences, Json
VARIABLE sched
Step(w, e) == sched' = Append(sched, [e |-> e, w |-> w, ok |-> (pc'[w] # "failed"), final |-> FinalState'])
CInit == Init /\ sched = <<>>
CNext == \E w \in Writers : (Open(w) /\ Step(w, "open")) \/ (Finish(w) /\ Step(w, "finish"))
CSpec == CInit /\ [][CNext]_<<vars, sched>>
Export == (\A w \in Writers : pc[w] \in {"done", "failed"}) => PrintT(<<"SCHED", ToJson(sched)>>)
=============================================================================
