------------------------------ MODULE HashKey ------------------------------
(***************************************************************************)
(* C15 - cache keys identify argument values (pipefunc/cache.py:            *)
(* to_hashable, _hashable_iterable, _hashable_mapping; used by memoize,     *)
(* Pipeline._run (compute_cache_key) and map (_get_or_set_cache)).          *)
(*                                                                         *)
(* Four things are defined here, none of them has state:                   *)
(*   1. abstract Python values (records) and  Eq(v, w): the REQUIRED        *)
(*      notion of "same argument value" (the oracle of the property);       *)
(*   2. abstract hashable Python values ("keys") and  KeyVal(v, fx): a      *)
(*      transcription of to_hashable's scheme, branch by branch, in the     *)
(*      order of the code.  `fx` is a set of switches: {} is the scheme as   *)
(*      coded at the pinned commit, {"sort","objarr","pandas"} is the        *)
(*      repaired scheme for which the laws are claimed (DESIGN 10: the spec *)
(*      models the required behaviour, the implementation-shaped variant    *)
(*      exists so that TLC exhibits where the coded scheme breaks; a third, *)
(*      Repaired + "skiprange", is a wrong shortcut for RangeIndex labels); *)
(*   3. the laws: KeyTotal, KeySound (equal keys only for Eq values),       *)
(*      KeyComplete (Eq values have equal keys), both up to DontCare;       *)
(*   4. calls of a memoized function (memoize.<locals>.wrapper): a call is  *)
(*      positional arguments AND keyword arguments, SameArguments(c, d) is   *)
(*      the required notion of "a call whose arguments equal those of the    *)
(*      call that produced the result", MemoKey(c, mx, fx) transcribes the   *)
(*      wrapper's key, MemoSound / MemoComplete are the laws.                *)
(*                                                                         *)
(* Equality of abstract keys (TLA+ "=") stands for Python's == on the real  *)
(* keys: that is why numbers are normalised (1 == 1.0 == True in Python and *)
(* they hash alike) and why tuple(sorted(...)) is represented by the SET of *)
(* its members (a sort under a total order is a bijection between finite    *)
(* sets and sorted tuples).                                                 *)
(***************************************************************************)
EXTENDS Naturals, Integers, Sequences, FiniteSets, TLC

---------------------------------------------------------------------------
(* 1. Abstract Python values.  One record shape for everything, so that TLC *)
(* never compares values of different TLA+ types:                           *)
(*    t : type tag     s : string payload     n : integer payload           *)
(*    a : children (a sequence of values)                                   *)
V(t, s, n, a) == [t |-> t, s |-> s, n |-> n, a |-> a]

IntV(k)    == V("Int",   "", k, <<>>)
Bool(b)   == V("Bool",  "", IF b THEN 1 ELSE 0, <<>>)
Float(h)  == V("Float", "", h, <<>>)              \* h counts HALVES: Float(2) = 1.0, Float(5) = 2.5
Str(x)    == V("Str",   x, 0, <<>>)
Bytes(x)  == V("Bytes", x, 0, <<>>)               \* ASCII text of the bytes object
Tuple(q)  == V("Tuple", "", 0, q)
List(q)   == V("List",  "", 0, q)
Deque(q, m) == V("Deque", "", m, q)               \* m = maxlen, 0 = None
SetV(q)      == V("Set", "", 0, q)                \* q = INSERTION order: an encoder attribute (it decides the
FrozenSet(q) == V("FrozenSet", "", 0, q)          \*     iteration order when members collide in the hash table),
                                                  \*     never significant for Eq; members pairwise different under ==
Pair(k, x)   == V("Pair", "", 0, <<k, x>>)        \* one item of a mapping
Dict(p)        == V("Dict", "", 0, p)             \* p = sequence of Pairs in insertion order
OrderedDict(p) == V("OrderedDict", "", 0, p)
DefaultDict(f, p) == V("DefaultDict", f, 0, p)    \* f = name of default_factory ("int", "list")
Counter(p)     == V("Counter", "", 0, p)          \* values are Ints
ByteArray(q)   == V("ByteArray", "", 0, q)        \* q = sequence of Ints 0..255
PyArray(tc, q) == V("PyArray", tc, 0, q)          \* array.array(typecode, ints)
NdArrayL(dt, shape, data, lay) == V("NdArray", dt, lay, <<Tuple(shape), Tuple(data)>>)
        \* dt = dtype.str ("<i8", "<i4", "<f8", "|O"); shape = sequence of Ints; data in LOGICAL row-major order
        \* lay = MEMORY LAYOUT, an encoder attribute (how the object is materialised), never part of the value:
        \*   0 C-contiguous   1 np.asfortranarray(a)   2 non-contiguous slice big[..., ::2]   3 transposed view b.T
NdArray(dt, shape, data) == NdArrayL(dt, shape, data, 0)
SeriesR(name, index, data, rep) == V("Series", name, rep, <<Tuple(index), Tuple(data)>>)
DataFrameR(cols, index, data, rep) == V("DataFrame", "", rep, <<Tuple(cols), Tuple(index), Tuple(data)>>)
        \* cols = sequence of Strs or of Ints (unique); data = one Tuple of cell values per column, in column order
        \* index = the ROW LABELS, whatever object carries them
        \* rep = LABEL REPRESENTATION, an encoder attribute (how the axis object is materialised), never part of the
        \*   value:  bit 1 (rep % 2): the row index is a pandas.RangeIndex(start, stop, step) instead of a materialised
        \*   Index([...]);  bit 2 (rep \div 2, DataFrame only): the same for the columns.  A RangeIndex is what a
        \*   frame built without an index has (RangeIndex(0, n, 1), the "default"), but ALSO what every slice of such
        \*   a frame keeps: big.iloc[2:4] has RangeIndex(2, 4), big.iloc[0:4:2] has RangeIndex(0, 4, 2), big.iloc[::-1]
        \*   has a negative step.  A RangeIndex is therefore not "the default index that carries no information".
Series(name, index, data) == SeriesR(name, index, data, 0)
DataFrame(cols, index, data) == DataFrameR(cols, index, data, 0)
RowsAreRange(v) == v.n % 2 = 1                       \* isinstance(obj.index, pandas.RangeIndex)
ColsAreRange(v) == v.t = "DataFrame" /\ v.n \div 2 = 1  \* isinstance(obj.columns, pandas.RangeIndex)
Obj(cls, fields) == V("Obj", cls, 0, fields)      \* instance of an importable dataclass, fields in order
Call(sig, args, kw) == V("Call", sig, 0, <<Tuple(args), Dict(kw)>>)
        \* one call f( *args, **kw) of a memoized function (section 4); sig names the signature of f;
        \* kw = sequence of Pair(Str(name), value) in the order written.  Never a member of another value.
        \* Eq on calls (the generic branch of Sim) = the same call: same signature, Eq positional values in
        \* order, the same keywords with Eq values (the order in which keywords are written is not significant)

NumTypes     == {"Int", "Bool", "Float"}
ScalarTypes  == NumTypes \cup {"Str", "Bytes"}
SetTypes     == {"Set", "FrozenSet"}
MappingTypes == {"Dict", "DefaultDict", "Counter"}          \* == ignores insertion order
FrozenClasses == {"PB"}        \* classes whose instances are hashable (frozen dataclass); "PA" is eq-only
IsNum(v)  == v.t \in NumTypes
NumVal(v) == IF v.t = "Float" THEN v.n ELSE 2 * v.n         \* numeric value in halves

Elems(q) == {q[i] : i \in DOMAIN q}
MinOf(S) == CHOOSE x \in S : \A y \in S : x <= y
MaxOf(S) == CHOOSE x \in S : \A y \in S : x >= y
RECURSIVE SortedSeq(_)                                      \* a finite set of integers, ascending
SortedSeq(S) == IF S = {} THEN <<>> ELSE <<MinOf(S)>> \o SortedSeq(S \ {MinOf(S)})

---------------------------------------------------------------------------
(* Sim(v, w, L): structural equality of values.                             *)
(*   L = FALSE  type-strict: this is Eq, "the same argument value".         *)
(*   L = TRUE   what Python's == can at most equate for values of the same  *)
(*              container type: numbers compare by value whatever their     *)
(*              type (1 == 1.0 == True), and representation attributes that  *)
(*              == ignores are ignored too (deque.maxlen,                    *)
(*              defaultdict.default_factory, array.array typecode).          *)
(* Order is significant exactly where the type says so: sequences, deques,  *)
(* OrderedDict items, array data and shape, Series/DataFrame index, data    *)
(* and column order; not for sets and plain mappings.  dtype, Series name,  *)
(* class of an object are always significant.  Encoder attributes - the     *)
(* insertion order of sets / frozensets / plain mappings, the memory layout  *)
(* of an array and the representation of the labels of a pandas object       *)
(* (RangeIndex or materialised Index) - say how the Python object is built;  *)
(* Eq ignores them: the row labels themselves are compared, in order.        *)
RECURSIVE Sim(_, _, _)
Sim(v, w, L) ==
    LET sub(q, r)  == \A x \in Elems(q) : \E y \in Elems(r) : Sim(x, y, L)
        same(q, r) == Len(q) = Len(r) /\ \A i \in DOMAIN q : Sim(q[i], r[i], L)
    IN
    IF L /\ IsNum(v) /\ IsNum(w) THEN NumVal(v) = NumVal(w)
    ELSE /\ v.t = w.t
         /\ CASE v.t \in ScalarTypes  -> v.s = w.s /\ v.n = w.n
              [] v.t \in SetTypes     -> sub(v.a, w.a) /\ sub(w.a, v.a)
              [] v.t = "Counter"      ->    \* Counter.__eq__ treats a missing element as a count of zero (Python >= 3.10);
                                            \* as argument values Counter(a=0) and Counter() differ (len, iteration)
                    LET nz(p) == SelectSeq(p, LAMBDA pr : ~(L /\ pr.a[2].n = 0))
                    IN  sub(nz(v.a), nz(w.a)) /\ sub(nz(w.a), nz(v.a))
              [] v.t \in MappingTypes -> (L \/ v.s = w.s) /\ sub(v.a, w.a) /\ sub(w.a, v.a)
              [] v.t = "Deque"        -> (L \/ v.n = w.n) /\ same(v.a, w.a)
              [] v.t = "PyArray"      -> (L \/ v.s = w.s) /\ same(v.a, w.a)
              [] v.t = "NdArray"      -> v.s = w.s /\ same(v.a, w.a)          \* memory layout (n) is not the value
              [] v.t \in {"Series", "DataFrame"} -> v.s = w.s /\ same(v.a, w.a)  \* nor is the label representation (n)
              [] OTHER                -> v.s = w.s /\ v.n = w.n /\ same(v.a, w.a)

Eq(v, w)      == Sim(v, w, FALSE)          \* THE ORACLE of C15
PyEqual(v, w) == Sim(v, w, TRUE)           \* Python == between two hashable values

RECURSIVE Hashable(_)                      \* hash(obj) succeeds
Hashable(v) == \/ v.t \in ScalarTypes \cup {"FrozenSet"}
               \/ v.t = "Tuple" /\ \A i \in DOMAIN v.a : Hashable(v.a[i])
               \/ v.t = "Obj" /\ v.s \in FrozenClasses /\ \A i \in DOMAIN v.a : Hashable(v.a[i])

RECURSIVE HasObj(_)                        \* some part is keyed through the pickle fallback or by an object
HasObj(v) == v.t = "Obj" \/ \E i \in DOMAIN v.a : HasObj(v.a[i])

(* A frozenset with >= 2 members is returned unchanged by to_hashable (pinned by the tests): equal in    *)
(* every process, but its PICKLE, hence the DiskCache file name, follows the iteration order.         *)
RECURSIVE HasAsIsFrozenSet(_)
HasAsIsFrozenSet(v) == (v.t = "FrozenSet" /\ Len(v.a) >= 2) \/ \E i \in DOMAIN v.a : HasAsIsFrozenSet(v.a[i])

(* Given Eq(v, w): some unhashable object sits at corresponding positions with a different         *)
(* REPRESENTATION (a dict or set inside it was filled in another order).  Its key is a digest of   *)
(* its pickle, and tests/test_cache_to_hashable.py pins that (key == _cloudpickle_key(obj)).       *)
RECURSIVE ObjDiff(_, _)
ObjDiff(v, w) ==
    IF v.t = "Obj" /\ ~Hashable(v) THEN v # w
    ELSE IF v.t \in SetTypes \cup MappingTypes
         THEN \E x \in Elems(v.a), y \in Elems(w.a) : Eq(x, y) /\ ObjDiff(x, y)
         ELSE \E i \in DOMAIN v.a : ObjDiff(v.a[i], w.a[i])

(* The documented don't-care class: either outcome (equal or unequal keys) is accepted.            *)
(*  (a) numerically equal scalars of different numeric type, anywhere inside (Python equates them;  *)
(*      the code returns hashable values unchanged, so 1 / 1.0 / True collide);                     *)
(*  (b) array.array typecode, deque.maxlen, defaultdict.default_factory: == ignores them, the keys  *)
(*      contain them, and the repository's tests pin the keys;                                      *)
(*  (c) Eq values that contain an unhashable object whose pickle differs (see ObjDiff).             *)
(* (Not a relation between values, hence not here: (d) the pickle BYTES of a key that contains an   *)
(*  as-is frozenset, HasAsIsFrozenSet above; the keys themselves are equal in every process.)       *)
DontCare(v, w) == \/ PyEqual(v, w) /\ ~Eq(v, w)
                  \/ Eq(v, w) /\ ObjDiff(v, w)

(* Values the universe may contain: members of sets / keys of mappings are hashable and pairwise   *)
(* different under ==, array data fills the shape, pandas index and data have the same length.     *)
RECURSIVE Prod(_)
Prod(q) == IF q = <<>> THEN 1 ELSE Head(q).n * Prod(Tail(q))
(* the labels a RangeIndex can carry: integers in arithmetic progression with a non-zero step (any start) *)
IsRange(q) == /\ \A i \in DOMAIN q : q[i].t = "Int"
              /\ Len(q) >= 2 => /\ q[2].n # q[1].n
                                /\ \A i \in 1..(Len(q) - 1) : q[i + 1].n - q[i].n = q[2].n - q[1].n
RECURSIVE WellFormed(_)
WellFormed(v) ==
    LET distinct(q) == \A i, j \in DOMAIN q : i # j => ~PyEqual(q[i], q[j])
        keys(p)     == [i \in DOMAIN p |-> p[i].a[1]]
    IN /\ \A i \in DOMAIN v.a : WellFormed(v.a[i])
       /\ CASE v.t \in SetTypes -> distinct(v.a) /\ \A i \in DOMAIN v.a : Hashable(v.a[i])
            [] v.t \in MappingTypes \cup {"OrderedDict"} ->
                   /\ \A i \in DOMAIN v.a : v.a[i].t = "Pair" /\ Hashable(v.a[i].a[1])
                   /\ distinct(keys(v.a))
                   /\ v.t = "Counter" => \A i \in DOMAIN v.a : v.a[i].a[2].t = "Int"
            [] v.t = "NdArray"   -> /\ Len(v.a[2].a) = Prod(v.a[1].a)
                                    /\ v.n \in 0..3
                                    /\ v.n \in {1, 3} => Len(v.a[1].a) = 2 /\ \A d \in Elems(v.a[1].a) : d.n >= 2
                                    /\ v.n = 2 => Len(v.a[1].a) >= 1 /\ v.a[1].a[Len(v.a[1].a)].n >= 2
            [] v.t = "Series"    -> /\ Len(v.a[1].a) = Len(v.a[2].a)
                                    /\ v.n \in 0..1
                                    /\ RowsAreRange(v) => IsRange(v.a[1].a)
            [] v.t = "DataFrame" -> /\ Len(v.a[3].a) = Len(v.a[1].a)
                                    /\ distinct(v.a[1].a)
                                    /\ v.n \in 0..3
                                    /\ RowsAreRange(v) => IsRange(v.a[2].a)
                                    /\ ColsAreRange(v) => IsRange(v.a[1].a)
                                    /\ \A c \in DOMAIN v.a[3].a : Len(v.a[3].a[c].a) = Len(v.a[2].a)
            [] OTHER -> TRUE

---------------------------------------------------------------------------
(* 2. Abstract keys: the hashable Python values to_hashable can return.     *)
(*    k : kind   s, n : payload   a : items of a tuple                      *)
(*    e : members (frozenset / sorted tuple)   p : <<value>> for a digest    *)
K(k, s, n, a, e, p) == [k |-> k, s |-> s, n |-> n, a |-> a, e |-> e, p |-> p]
KNum(h)    == K("num",   "", h, <<>>, {}, <<>>)     \* int / bool / float / numpy scalar, by value (halves)
KStr(x)    == K("str",   x,  0, <<>>, {}, <<>>)
KBytes(x)  == K("bytes", x,  0, <<>>, {}, <<>>)
KNone      == K("none",  "", 0, <<>>, {}, <<>>)
KType(x)   == K("type",  x,  0, <<>>, {}, <<>>)     \* a class object (the `tp` tag)
KTuple(q)  == K("tuple", "", 0, q,    {}, <<>>)
KFrozen(S) == K("frozenset", "", 0, <<>>, S, <<>>)
KSorted(S) == K("sorted", "", 0, <<>>, S, <<>>)     \* tuple(sorted(members)) under a total order
KObj(c, q) == K("obj",   c,  0, q,    {}, <<>>)     \* a hashable (frozen dataclass) instance: == by fields
KPickle(v) == K("md5",   "", 0, <<>>, {}, <<v>>)    \* _cloudpickle_key(obj): uninterpreted and injective
                                                    \*   on REPRESENTATIONS (a free constructor)
KRaw(v)    == K("raw",   "", 0, <<>>, {}, <<v>>)    \* an unconverted, unhashable object left inside a key

Marker == KStr("__CONVERTED__")                     \* _HASH_MARKER
Conv(tp, payload) == KTuple(<<Marker, KType(tp), payload>>)      \* (m, tp, payload)

(* `hash(obj)` succeeded: the object itself is the key *)
RECURSIVE AsIs(_)
AsIs(v) == CASE IsNum(v)            -> KNum(NumVal(v))
             [] v.t = "Str"         -> KStr(v.s)
             [] v.t = "Bytes"       -> KBytes(v.s)
             [] v.t = "Tuple"       -> KTuple([i \in DOMAIN v.a |-> AsIs(v.a[i])])
             [] v.t = "FrozenSet"   -> KFrozen({AsIs(x) : x \in Elems(v.a)})
             [] v.t = "Obj"         -> KObj(v.s, [i \in DOMAIN v.a |-> AsIs(v.a[i])])

(* pandas: Series.to_dict() (a repeated label keeps its first position and its LAST value) and    *)
(* DataFrame.to_dict("list")                                                                       *)
SeriesDict(v) ==
    LET idx   == v.a[1].a
        dat   == v.a[2].a
        first == {i \in DOMAIN idx : \A j \in 1..(i - 1) : ~PyEqual(idx[j], idx[i])}
        last(i) == MaxOf({j \in DOMAIN idx : PyEqual(idx[j], idx[i])})
        ord   == SortedSeq(first)
    IN  Dict([k \in DOMAIN ord |-> Pair(idx[ord[k]], dat[last(ord[k])])])
FrameDict(v) == Dict([c \in DOMAIN v.a[1].a |-> Pair(v.a[1].a[c], List(v.a[3].a[c].a))])

(* Python's `<` as used by sorted(): "ord" = the two values are ordered (deterministically),       *)
(* "nc" = `<` answers False both ways (frozensets: proper subset), "err" = TypeError.              *)
RECURSIVE PyCmp(_, _)
PyCmp(x, y) ==
    IF IsNum(x) /\ IsNum(y) THEN "ord"
    ELSE IF x.t # y.t THEN "err"
    ELSE CASE x.t \in {"Str", "Bytes"} -> "ord"
           [] x.t = "Tuple" ->
                 LET n == IF Len(x.a) < Len(y.a) THEN Len(x.a) ELSE Len(y.a)
                     D == {i \in 1..n : ~PyEqual(x.a[i], y.a[i])}
                 IN  IF D = {} THEN "ord" ELSE PyCmp(x.a[MinOf(D)], y.a[MinOf(D)])
           [] x.t = "FrozenSet" ->
                 LET sub(q, r) == \A u \in Elems(q) : \E w \in Elems(r) : PyEqual(u, w)
                 IN  IF sub(x.a, y.a) \/ sub(y.a, x.a) THEN "ord" ELSE "nc"
           [] OTHER -> "err"
(* what can go wrong in `sorted(items)` as coded: mixed types raise, a partial order leaves the     *)
(* result dependent on the iteration order of the set / dict (insertion history, PYTHONHASHSEED)    *)
SortProblems(q) ==
    (IF \E i, j \in DOMAIN q : i # j /\ PyCmp(q[i], q[j]) = "err" THEN {"TypeError"} ELSE {})
    \cup (IF \E i, j \in DOMAIN q : i # j /\ PyCmp(q[i], q[j]) = "nc" THEN {"unstable"} ELSE {})

(* Problems(v, fx) = {} iff to_hashable(v) returns a hashable key that is a function of the value.  *)
(*   "TypeError"  : to_hashable raises                                                              *)
(*   "unstable"   : the key depends on iteration order                                              *)
(*   "unhashable" : the returned key cannot be hashed                                               *)
RECURSIVE Problems(_, _)
Problems(v, fx) ==
    IF Hashable(v) THEN {} ELSE
    LET subs(q)  == UNION {Problems(q[i], fx) : i \in DOMAIN q}
        vals(p)  == UNION {Problems(p[i].a[2], fx) : i \in DOMAIN p}
        keys(p)  == [i \in DOMAIN p |-> p[i].a[1]]
        sortp(q) == IF "sort" \in fx THEN {} ELSE SortProblems(q)
    IN CASE v.t = "OrderedDict"               -> vals(v.a)
         [] v.t \in {"Dict", "DefaultDict"}   -> sortp(keys(v.a)) \cup vals(v.a)
         [] v.t = "Counter"                   -> sortp(keys(v.a))
         [] v.t = "Set"                       -> sortp(v.a)
         [] v.t \in {"List", "Tuple", "Deque"} -> subs(v.a)
         [] v.t = "NdArray" -> IF "objarr" \in fx THEN subs(v.a[2].a)
                               ELSE IF \E x \in Elems(v.a[2].a) : ~Hashable(x) THEN {"unhashable"} ELSE {}
         [] v.t = "Series"    -> Problems(SeriesDict(v), fx)
         [] v.t = "DataFrame" -> Problems(FrameDict(v), fx)
         [] OTHER -> {}                       \* ByteArray, PyArray, Obj (pickle of an importable dataclass)

(* The key, branch by branch in the order of to_hashable.  (For a value with Problems the result    *)
(* is what the key would be if the sort were total; it is never used then.)                          *)
RECURSIVE KeyVal(_, _)
KeyVal(v, fx) ==
    IF Hashable(v) THEN AsIs(v) ELSE                                   \* try: hash(obj) -> return obj
    LET sub(x)    == KeyVal(x, fx)
        subs(q)   == KTuple([i \in DOMAIN q |-> sub(q[i])])            \* _hashable_iterable
        item(pr)  == KTuple(<<AsIs(pr.a[1]), sub(pr.a[2])>>)           \* (k, to_hashable(v))
        items(p)  == KTuple([i \in DOMAIN p |-> item(p[i])])           \* _hashable_mapping
        sitems(p) == KSorted({item(pr) : pr \in Elems(p)})             \* _hashable_mapping(sort=True)
        raw(q)    == KTuple([i \in DOMAIN q |-> IF Hashable(q[i]) THEN AsIs(q[i]) ELSE KRaw(q[i])])
        labels(q, isrange) ==                                          \* to_hashable(axis.tolist()); the variant
            IF "skiprange" \in fx /\ isrange THEN KNone ELSE sub(List(q)) \*   "skiprange" stores None for a RangeIndex
    IN CASE v.t = "OrderedDict" -> Conv(v.t, items(v.a))
         [] v.t = "DefaultDict" -> Conv(v.t, KTuple(<<KType(v.s), sitems(v.a)>>))
         [] v.t = "Counter"     -> Conv(v.t, KSorted({KTuple(<<AsIs(pr.a[1]), AsIs(pr.a[2])>>) : pr \in Elems(v.a)}))
         [] v.t = "Dict"        -> Conv(v.t, sitems(v.a))
         [] v.t = "Set"         -> Conv(v.t, KSorted({AsIs(x) : x \in Elems(v.a)}))
         [] v.t \in {"List", "Tuple"} -> Conv(v.t, subs(v.a))
         [] v.t = "Deque"       -> Conv(v.t, KTuple(<<IF v.n = 0 THEN KNone ELSE KNum(2 * v.n), subs(v.a)>>))
         [] v.t = "ByteArray"   -> Conv(v.t, raw(v.a))
         [] v.t = "PyArray"     -> Conv(v.t, KTuple(<<KStr(v.s), raw(v.a)>>))
         [] v.t = "NdArray"     ->                                     \* (shape, dtype.str, tuple(flatten()))
                Conv(v.t, KTuple(<<AsIs(v.a[1]), KStr(v.s),
                                   IF "objarr" \in fx THEN subs(v.a[2].a) ELSE raw(v.a[2].a)>>))
         [] v.t = "Series"      ->                                     \* (name, to_hashable(to_dict()))
                Conv(v.t, KTuple(<<KStr(v.s), sub(SeriesDict(v))>>
                                 \o (IF "pandas" \in fx THEN <<labels(v.a[1].a, RowsAreRange(v)), sub(List(v.a[2].a))>> ELSE <<>>)))
         [] v.t = "DataFrame"   ->                                     \* to_hashable(to_dict("list"))
                KTuple(<<Marker, KType(v.t), sub(FrameDict(v))>>
                       \o (IF "pandas" \in fx THEN <<KTuple(<<labels(v.a[1].a, ColsAreRange(v)),
                                                               labels(v.a[2].a, RowsAreRange(v))>>)>> ELSE <<>>))
         [] v.t = "Obj"         -> Conv(v.s, KPickle(v))               \* (m, tp, _cloudpickle_key(obj))

AsCoded  == {}                                \* the scheme at the pinned commit
Repaired == {"sort", "objarr", "pandas"}      \* sort: total, process-independent order of set members / mapping keys
                                              \* objarr: elements of object arrays are converted recursively
                                              \* pandas: index (with order), values and column order enter the key
(* A plausible "optimisation" of the repaired scheme, NOT claimed: "a RangeIndex is the default index and carries no  *)
(* information", so None is stored in place of its labels.  Wrong twice: frames with equal cells whose RangeIndexes    *)
(* have another start / step get ONE key (KeySound; to_dict("list") does not hold the row labels), and a RangeIndex    *)
(* and a materialised Index with the same labels get two (KeyComplete).  The variant exists so that TLC exhibits that  *)
(* the laws have teeth on the universe of label representations.                                                      *)
SkipRange == Repaired \cup {"skiprange"}

---------------------------------------------------------------------------
(* 3. The laws (for a scheme fx, over whatever universe the instance supplies) *)
KeyTotal(v, fx)       == Problems(v, fx) = {}
KeySound(v, w, fx)    == KeyVal(v, fx) = KeyVal(w, fx) => Eq(v, w) \/ DontCare(v, w)
KeyComplete(v, w, fx) == Eq(v, w) /\ ~DontCare(v, w) => KeyVal(v, fx) = KeyVal(w, fx)

---------------------------------------------------------------------------
(* 4. Calls of a memoized function (pipefunc/cache.py, memoize.<locals>.wrapper).                    *)
(*                                                                                                  *)
(*        def wrapper( *args, **kwargs):                                                             *)
(*            key = try_to_hashable((args, kwargs), ...)     # MemoKey                              *)
(*            if key in cache: return cache.get(key)         # a stored result is returned           *)
(*            result = func( *args, **kwargs); cache.put(key, result)                                *)
(*                                                                                                  *)
(* The property: the stored result is returned only for a call whose ARGUMENTS equal those of the    *)
(* call that produced it.  The arguments of a call are what the function receives, so they are       *)
(* defined through the signature of the memoized function.  Two signatures are modelled:             *)
(*    "var"   : def f( *args, **kwargs)       receives the tuple args and the dict kwargs themselves:  *)
(*              f(1, 2), f((1, 2)), f((1, 2), {}), f(1, q=2), f(1, ("q", 2)) are all different calls  *)
(*    "fixed" : def f(p, q=0, *, r=1)        receives p, q, r (Python's binding rules, defaults)      *)
CallArgs(c) == c.a[1].a                              \* the positional arguments, in order
CallKw(c)   == c.a[2].a                              \* the keyword arguments: Pair(Str(name), value)
CallV(c)    == Tuple(c.a)                            \* the object (args, kwargs) the wrapper builds
KwNames(c)  == {CallKw(c)[i].a[1].s : i \in DOMAIN CallKw(c)}
KwVal(c, name) == CallKw(c)[CHOOSE i \in DOMAIN CallKw(c) : CallKw(c)[i].a[1].s = name].a[2]

FixedPos     == <<"p", "q">>                         \* positional-or-keyword parameters of "fixed"
FixedNames   == {"p", "q", "r"}                      \* r is keyword-only
FixedDefault == [n \in {"q", "r"} |-> IF n = "q" THEN IntV(0) ELSE IntV(1)]
PosNames(c)  == {FixedPos[i] : i \in 1..Len(CallArgs(c))}          \* parameters filled positionally

(* the call is accepted by the signature (otherwise Python raises TypeError before the wrapper body) *)
Binds(c) == \/ c.s = "var"
            \/ /\ c.s = "fixed"
               /\ Len(CallArgs(c)) <= Len(FixedPos)                  \* no surplus positional argument
               /\ KwNames(c) \subseteq FixedNames                    \* no unknown keyword
               /\ KwNames(c) \cap PosNames(c) = {}                   \* no parameter given twice
               /\ "p" \in PosNames(c) \cup KwNames(c)                \* the required parameter is given

ParamVal(c, name) ==
    IF name \in PosNames(c) THEN CallArgs(c)[CHOOSE i \in 1..Len(CallArgs(c)) : FixedPos[i] = name]
    ELSE IF name \in KwNames(c) THEN KwVal(c, name)
    ELSE FixedDefault[name]

(* what the function receives: one value per parameter of its signature *)
Bound(c) == IF c.s = "var" THEN <<Tuple(CallArgs(c)), Dict(CallKw(c))>>
            ELSE <<ParamVal(c, "p"), ParamVal(c, "q"), ParamVal(c, "r")>>

(* THE ORACLE for memoize: two calls of one function with equal arguments *)
SameArguments(c, d) == c.s = d.s /\ Binds(c) /\ Binds(d) /\ Eq(Tuple(Bound(c)), Tuple(Bound(d)))

(* Either outcome (hit or miss) is accepted for two calls of one function when                        *)
(*  (a)-(c) of DontCare apply to what the function receives or to the (args, kwargs) objects;         *)
(*  (e) the arguments are equal but are PASSED differently (f(1, 2) / f(1, q=2) / f(1) with q=0       *)
(*      defaulted / f(1, q=0)): memoize does not bind the signature, a miss is harmless.              *)
CallDontCare(c, d) == /\ c.s = d.s
                      /\ \/ DontCare(Tuple(Bound(c)), Tuple(Bound(d)))
                         \/ DontCare(CallV(c), CallV(d))
                         \/ SameArguments(c, d) /\ ~Eq(c, d)

CallWellFormed(c) == /\ c.t = "Call" /\ c.s \in {"var", "fixed"}
                     /\ WellFormed(CallV(c))
                     /\ \A i \in DOMAIN CallKw(c) : CallKw(c)[i].a[1].t = "Str"
                     /\ \A x \in Elems(CallArgs(c)) : x.t # "Call"
                     /\ Binds(c)

(* The key of the wrapper.  `mx` selects how the wrapper composes the object it hands to to_hashable: *)
(*   {}            as coded: the pair (args, kwargs), always                                          *)
(*   {"bareargs"}  a plausible "optimisation": (args, kwargs) if kwargs else args  - then a           *)
(*                 positional-only call f(t, d) with a tuple and a dict IS the pair of f( *t, **d)      *)
(*   {"kwvalues"}  args + tuple(kwargs.values()): keyword NAMES and the positional/keyword split lost  *)
(* The two variants exist so that TLC exhibits that MemoSound has teeth on the universe of calls.      *)
MemoObject(c, mx) ==
    IF "bareargs" \in mx /\ CallKw(c) = <<>> THEN Tuple(CallArgs(c))
    ELSE IF "kwvalues" \in mx THEN Tuple(CallArgs(c) \o [i \in DOMAIN CallKw(c) |-> CallKw(c)[i].a[2]])
    ELSE CallV(c)
MemoKey(c, mx, fx)   == KeyVal(MemoObject(c, mx), fx)
MemoProblems(c, fx)  == Problems(CallV(c), fx)
WrapperAsCoded == {}

(* the laws for calls c, d of ONE memoized function (one cache) *)
MemoTotal(c, fx)           == MemoProblems(c, fx) = {}
MemoSound(c, d, mx, fx)    == c.s = d.s /\ MemoKey(c, mx, fx) = MemoKey(d, mx, fx) => SameArguments(c, d) \/ CallDontCare(c, d)
MemoComplete(c, d, mx, fx) == Eq(c, d) /\ ~CallDontCare(c, d) => MemoKey(c, mx, fx) = MemoKey(d, mx, fx)
=============================================================================
