------------------------------ MODULE Rewrites ------------------------------
(***************************************************************************)
(* C10 - structural rewrites preserve what a pipeline computes.            *)
(*                                                                         *)
(* An object store of pipelines.  Every live object is                     *)
(*     [sem    : description (PipelineStatic / MapDenote) in the ORIGINAL  *)
(*               names - the names the user functions were written with    *)
(*               (when a join brings together two descendants of one       *)
(*               pipeline under different spellings, the second operand's  *)
(*               clashing names are tagged "name~id"),                     *)
(*      heads  : output name of sem -> the term head its function writes   *)
(*               (the original output name; identity unless tagged),       *)
(*      ren    : renaming, a function original name -> [scope, base]; the  *)
(*               name the user currently sees is  scope "." base,          *)
(*      outs   : retained outputs (original names): outputs the object     *)
(*               still exposes (nest_funcs / simplified_pipeline may hide  *)
(*               intermediate outputs inside a NestedPipeFunc),            *)
(*      merged : TRUE once nest_funcs / simplified_pipeline produced the   *)
(*               object.  WHICH functions were merged is not modelled; the *)
(*               flag only says that the model no longer decides whether a *)
(*               further nest/simplify/bind/add-axis request is defined].  *)
(*                                                                         *)
(* What an object computes is a function of sem alone:                     *)
(*     EvalObs(o, out, inputs, mode) = Eval / MapDenote of o.sem after     *)
(*     translating `out` and the input names back through o.ren (and the   *)
(*     term heads through o.heads).                                        *)
(* Rewrites that the code performs on a pipeline object (Pipeline.copy,    *)
(* pickle, join / |, update_renames, update_scope(+None), nest_funcs,      *)
(* simplified_pipeline, split_disconnected, add_mapspec_axis) therefore    *)
(* either keep sem (and change ren / outs), or apply one of the operators  *)
(* SubDesc / JoinObj / AddAxis below, whose relation to Eval is stated by  *)
(* the laws at the end (checked by TLC in MC_Rewrites and, on every        *)
(* description met in a recorded trace, in TraceRewrites).                 *)
(*                                                                         *)
(* In-place operations of the code (update_renames, update_scope,          *)
(* nest_funcs, add_mapspec_axis, update_defaults, update_bound) change     *)
(* exactly one object; operations returning a new pipeline add objects     *)
(* and change none (NoAliasing).                                           *)
(***************************************************************************)
EXTENDS MapDenote, SequencesExt

---------------------------------------------------------------------------
(* TLC evaluates a function constructor lazily and re-evaluates its body at every application; ForceSeq / ForceFn turn *)
(* a constructed sequence / function into an explicit value (semantically the identity).                            *)
ForceSeq(s) == s \o << >>
ForceFn(f)  == f @@ << >>

(* Names.  A current name is kept structurally, so the model never parses strings. *)
NameRec(s, b) == [scope |-> s, base |-> b]
Plain(n)      == NameRec("", n)
Cur(nr)       == IF nr.scope = "" THEN nr.base ELSE nr.scope \o "." \o nr.base

DescNames(d)     == AllParams(d) \cup AllOutputs(d)
FreeParams(d, i) == {p \in ParamsOf(d, i) : ~IsBound(d, i, p)}
(* root arguments of the pipeline graph: parameters that are fed from outside somewhere (a parameter that is  *)
(* bound wherever it occurs is no root argument)                                                           *)
FreeRoots(d)     == UNION {FreeParams(d, i) : i \in FIdx(d)} \ AllOutputs(d)
Anc(d, i)        == SClosure(d, StaticDeps(d, i))                    \* proper ancestors of function i
RootsOfFunc(d, i) == UNION {FreeParams(d, j) : j \in {i} \cup Anc(d, i)} \ AllOutputs(d)   \* Pipeline.root_args
OutputsOfSet(d, F) == UNION {OutputsOf(d, i) : i \in F}
HasAnyMs(d)      == \E i \in FIdx(d) : d.funcs[i].has_ms
InSpecNamesOf(d) == UNION {{d.funcs[i].ms.ins[k].name : k \in DOMAIN d.funcs[i].ms.ins} : i \in FIdx(d)}
AxisNamesOf(d)   == UNION {UNION {SeqToSet(d.funcs[i].ms.ins[k].axes) : k \in DOMAIN d.funcs[i].ms.ins}
                           \cup UNION {SeqToSet(d.funcs[i].ms.outs[k].axes) : k \in DOMAIN d.funcs[i].ms.outs} : i \in FIdx(d)}

(* a description from which a Pipeline can be constructed *)
OutputsUnique(d) == /\ \A i, j \in FIdx(d) : i # j => OutputsOf(d, i) \cap OutputsOf(d, j) = {}
                    /\ \A i \in FIdx(d) : Cardinality(OutputsOf(d, i)) = Len(d.funcs[i].outputs)
                    /\ \A i \in FIdx(d) : ParamsOf(d, i) \cap OutputsOf(d, i) = {}
DefaultsConsistent(d) ==
    \A i, j \in FIdx(d) : \A p \in ParamsOf(d, i) \cap ParamsOf(d, j) :
        (/\ PHas(d.funcs[i].defaults, p) /\ PHas(d.funcs[j].defaults, p)
         /\ ~IsBound(d, i, p) /\ ~IsBound(d, j, p) /\ p \notin AllOutputs(d))
        => PGet(d.funcs[i].defaults, p) = PGet(d.funcs[j].defaults, p)
WellFormedDesc(d) == OutputsUnique(d) /\ Acyclic(d) /\ DefaultsConsistent(d)

---------------------------------------------------------------------------
(* Objects *)
Fresh(d) == [sem |-> d, ren |-> ForceFn([n \in DescNames(d) |-> Plain(n)]), outs |-> AllOutputs(d), merged |-> FALSE,
             heads |-> ForceFn([n \in AllOutputs(d) |-> n])]
CurName(o, n)  == Cur(o.ren[n])
CurSet(o, S)   == {CurName(o, n) : n \in S}
Hidden(o)      == AllOutputs(o.sem) \ o.outs
(* names the user can address: everything in a plain pipeline; once functions were merged only root arguments  *)
(* and retained outputs (what is inside a NestedPipeFunc has no spelling outside it)                          *)
Visible(o)     == IF o.merged THEN FreeRoots(o.sem) \cup o.outs ELSE DescNames(o.sem)
HasCur(o, c)   == \E n \in Visible(o) : CurName(o, n) = c
OrigOf(o, c)   == CHOOSE n \in Visible(o) : CurName(o, n) = c
OrigSet(o, C)  == {OrigOf(o, c) : c \in C}
Injective(o)   == \A m, n \in Visible(o) : m # n => CurName(o, m) # CurName(o, n)
ParamScopes(o) == {o.ren[n].scope : n \in AllParams(o.sem) \cap Visible(o)} \ {""}
(* validate_scopes: a scope may not be spelled like a name *)
ScopesOK(o)    == ParamScopes(o) \cap CurSet(o, Visible(o)) = {}
ObjOK(o)       == /\ WellFormedDesc(o.sem) /\ DOMAIN o.ren = DescNames(o.sem) /\ Injective(o)
                  /\ DOMAIN o.heads = AllOutputs(o.sem)
                  /\ o.outs \subseteq AllOutputs(o.sem) /\ ScopesOK(o)

(* the description as the user currently sees it (every name renamed; term heads are NOT part of a description) *)
RenPairs(ps, f) == ForceSeq([k \in DOMAIN ps |-> <<f[ps[k][1]], ps[k][2]>>])
RenSpecs(ss, f) == ForceSeq([k \in DOMAIN ss |-> [name |-> f[ss[k].name], axes |-> ss[k].axes]])
RenFunc(fn, f)  == [fn EXCEPT !.params = ForceSeq([k \in DOMAIN fn.params |-> f[fn.params[k]]]),
                              !.outputs = ForceSeq([k \in DOMAIN fn.outputs |-> f[fn.outputs[k]]]),
                              !.defaults = RenPairs(fn.defaults, f), !.bound = RenPairs(fn.bound, f),
                              !.ms = [ins |-> RenSpecs(fn.ms.ins, f), outs |-> RenSpecs(fn.ms.outs, f)]]
RenameDesc(d, f) == [funcs |-> ForceSeq([i \in DOMAIN d.funcs |-> RenFunc(d.funcs[i], f)])]
CurMap(o)  == ForceFn([n \in DOMAIN o.ren |-> CurName(o, n)])
CurDesc(o) == RenameDesc(o.sem, CurMap(o))
(* CurDesc is a description only if no two names are spelled alike - also none hidden inside a merged function *)
SpellingsDistinct(o) == \A m, n \in DOMAIN o.ren : m # n => CurName(o, m) # CurName(o, n)
RECURSIVE RenTerm(_, _)
RenTerm(v, f) == [f |-> IF v.f \in DOMAIN f THEN f[v.f] ELSE v.f, a |-> ForceSeq([k \in DOMAIN v.a |-> RenTerm(v.a[k], f)])]

---------------------------------------------------------------------------
(* MapDenote, evaluated eagerly.  MapDenote.EnvGen builds each generation's environment as a lazily evaluated function, *)
(* which TLC re-evaluates at every application (exponential in the depth of the pipeline).  MapDenoteE is the same    *)
(* definition - same OutVal, same generations - with every generation forced into an explicit function by @@.         *)
(* LawDenoteE (checked in MC_Rewrites) states the equality.                                                        *)
RECURSIVE EnvGenE(_, _, _, _)
EnvGenE(d, inp, F, g) ==
    IF g = 0 THEN InitEnv(inp) @@ << >>
    ELSE LET prev == EnvGenE(d, inp, F, g - 1)
             news == UNION {OutputsOf(d, i) : i \in {j \in F : GenOf(d, j) = g}} \ DOMAIN prev
         IN  prev @@ [n \in news |-> OutVal(d, prev, FuncOf(d, n), n)]
MapDenoteE(d, inp) == EnvGenE(d, inp, FIdx(d), MaxGen(d))
LawDenoteE(d, inp) == LET e == MapDenoteE(d, inp)  m == MapDenote(d, inp) IN DOMAIN e = DOMAIN m /\ \A n \in DOMAIN e : e[n] = m[n]

---------------------------------------------------------------------------
(* The observation: what object o returns for output `out` (current name) on `inp` (pairs current name -> value). *)
UnrenPairs(o, ps) == ForceSeq([k \in DOMAIN ps |-> <<OrigOf(o, ps[k][1]), ps[k][2]>>])
NamesKnown(o, ps) == \A k \in DOMAIN ps : HasCur(o, ps[k][1])
EvalCall(o, out, inp) == RenTerm(Eval(o.sem, UnrenPairs(o, inp), OrigOf(o, out)), o.heads)
EvalMap(o, inp)       == LET den == MapDenoteE(o.sem, UnrenPairs(o, inp))     \* function on the output names of sem
                         IN  [n \in AllOutputs(o.sem) |-> RenTerm(den[n], o.heads)]
EvalObs(o, out, inp, mode) == IF mode = "call" THEN EvalCall(o, out, inp) ELSE EvalMap(o, inp)[OrigOf(o, out)]
(* the request is one the property speaks about *)
ObsRequestOK(o, out, inp, mode) ==
    /\ HasCur(o, out) /\ OrigOf(o, out) \in o.outs /\ NamesKnown(o, inp)
    /\ IF mode = "call" THEN ~HasAnyMs(o.sem) /\ Defined(o.sem, UnrenPairs(o, inp), OrigOf(o, out))
       ELSE ValidMapRequest(o.sem, UnrenPairs(o, inp))
(* what the user can learn about the shape of an object without running it *)
StructOf(o) == [outs |-> CurSet(o, o.outs), roots |-> CurSet(o, FreeRoots(o.sem))]

---------------------------------------------------------------------------
(* Rewrite operators on objects (pure) and when each is defined. *)

(* join / |.  The join connects by CURRENT spelling: a name of q spelled like a name of p is that name; a name of q *)
(* that p spells differently is a different thing that merely descends from the same function text (two copies of one *)
(* pipeline under two scopes) and is tagged apart before the descriptions are put together.                          *)
TagMap(p, q, id) == LET vq == Visible(q) IN
                    ForceFn([n \in DOMAIN q.ren |->
                        IF n \in vq /\ HasCur(p, Cur(q.ren[n])) THEN OrigOf(p, Cur(q.ren[n]))
                        ELSE IF n \in DOMAIN p.ren THEN n \o "~" \o ToString(id) ELSE n])
Tagged(q, tm)    == [sem |-> RenameDesc(q.sem, tm), ren |-> ForceFn([m \in {tm[n] : n \in DOMAIN q.ren} |-> q.ren[CHOOSE n \in DOMAIN q.ren : tm[n] = m]]),
                     outs |-> {tm[n] : n \in q.outs}, merged |-> q.merged,
                     heads |-> ForceFn([m \in {tm[n] : n \in DOMAIN q.heads} |-> q.heads[CHOOSE n \in DOMAIN q.heads : tm[n] = m]])]
JoinPlain(p, q) == [sem |-> [funcs |-> p.sem.funcs \o q.sem.funcs], ren |-> p.ren @@ q.ren,
                    outs |-> p.outs \cup q.outs, merged |-> p.merged \/ q.merged, heads |-> p.heads @@ q.heads]
JoinObj(p, q, id) == JoinPlain(p, Tagged(q, TagMap(p, q, id)))
JoinDefined(p, q, id) ==
    LET q2 == Tagged(q, TagMap(p, q, id)) IN
    /\ AllOutputs(p.sem) \cap AllOutputs(q2.sem) = {}
    /\ ObjOK(JoinPlain(p, q2))

(* with a merged operand the model cannot tell whether the join closes a cycle through a merged node *)
JoinMustAccept(p, q, id) == JoinDefined(p, q, id) /\ ~p.merged /\ ~q.merged

(* update_renames: r = pairs  current name -> NameRec *)
RenUpdate(o, r) == ForceFn([n \in DOMAIN o.ren |-> IF PHas(r, CurName(o, n)) THEN PGet(r, CurName(o, n)) ELSE o.ren[n]])
RenamedObj(o, r) == [o EXCEPT !.ren = RenUpdate(o, r)]
RenamesDefined(o, r) ==
    /\ PKeys(r) \subseteq CurSet(o, Visible(o)) /\ Cardinality(PKeys(r)) = Len(r)
    /\ ObjOK(RenamedObj(o, r))
    /\ \A k \in DOMAIN r : r[k][2].base # ""

(* update_renames(r, overwrite=True): the renames of EVERY function are replaced, so each name that r does not mention goes  *)
(* back to the spelling its function was built with (also losing its scope).  The model knows that spelling only while  *)
(* `sem` still carries the built names: objects that never went through a merge (nest / simplify) or a join (which may  *)
(* re-tag colliding originals); the harness issues this operation only on such objects (and builds them without initial *)
(* renames), the guard ~o.merged is the part of that discipline the model can see.                                       *)
RenOverwrite(o, r)   == ForceFn([n \in DOMAIN o.ren |-> IF PHas(r, CurName(o, n)) THEN PGet(r, CurName(o, n)) ELSE Plain(n)])
OverwrittenObj(o, r) == [o EXCEPT !.ren = RenOverwrite(o, r)]
OverwriteDefined(o, r) ==
    /\ ~o.merged
    /\ PKeys(r) \subseteq CurSet(o, Visible(o)) /\ Cardinality(PKeys(r)) = Len(r)
    /\ ObjOK(OverwrittenObj(o, r))
    /\ \A k \in DOMAIN r : r[k][2].base # ""

(* update_scope(scope, inputs, outputs, exclude); ins/outs = [all : BOOLEAN, names : Seq]; scope "" removes *)
ScopeTargets(o, ins, outs, exc) ==
    LET roots == CurSet(o, FreeRoots(o.sem))
        couts == CurSet(o, o.outs)
        I == IF ins.all THEN roots ELSE SeqToSet(ins.names) \cap roots
        O == IF outs.all THEN couts ELSE SeqToSet(outs.names) \cap couts
    IN  {n \in DOMAIN o.ren : n \in Visible(o) /\ CurName(o, n) \in ((I \cup O) \ SeqToSet(exc))}
ScopedObj(o, s, ins, outs, exc) ==
    LET T == ScopeTargets(o, ins, outs, exc)
    IN  [o EXCEPT !.ren = ForceFn([n \in DOMAIN o.ren |-> IF n \in T THEN NameRec(s, o.ren[n].base) ELSE o.ren[n]])]
ScopeDefined(o, s, ins, outs, exc) ==
    /\ s \notin CurSet(o, Visible(o))
    /\ ObjOK(ScopedObj(o, s, ins, outs, exc))

(* nest_funcs(S, N): S = set of sets of original output names (one set per nested function), N = retained outputs *)
(* of the nest ({} = all).                                                                                      *)
NestFuncSet(o, S) == {FuncOf(o.sem, CHOOSE n \in s : TRUE) : s \in S}
NestedObj(o, S, N) == LET all == UNION S
                      IN  [o EXCEPT !.outs = (o.outs \ all) \cup (IF N = {} THEN all \cap o.outs ELSE N), !.merged = TRUE]
NoReduction(fn) == /\ \A k \in DOMAIN fn.ms.ins : \A m \in DOMAIN fn.ms.ins[k].axes : fn.ms.ins[k].axes[m] # ":"
                   /\ Len(fn.internal) = 0 /\ HasMapInputs(fn)
                   /\ InputAxisNames(fn) = SeqToSet(OutAxes(fn))
(* the documented restriction of NestedPipeFunc on MapSpecs: none, or all element-wise over identical axes; and   *)
(* no nested function consumes as a whole array something that is mapped inside the nest - an output of another   *)
(* nested function or a parameter another nested function maps - (that is a reduction as well)                    *)
NestMsOK(d, F) == \/ \A i \in F : ~d.funcs[i].has_ms
                  \/ /\ \A i \in F : d.funcs[i].has_ms /\ NoReduction(d.funcs[i])
                     /\ \A i, j \in F : OutAxes(d.funcs[i]) = OutAxes(d.funcs[j])
                     /\ \A i \in F : \A p \in FreeParams(d, i) :
                            (p \in OutputsOfSet(d, F) \/ \E j \in F : IsMappedParam(d.funcs[j], p)) => IsMappedParam(d.funcs[i], p)
(* the arguments make sense at all (otherwise the code is expected to refuse) *)
NestWellFormed(o, S, N) ==
    LET d == o.sem  F == NestFuncSet(o, S) IN
    /\ \A s \in S : s # {} /\ s \subseteq o.outs /\ s = OutputsOf(d, FuncOf(d, CHOOSE n \in s : TRUE)) \cap o.outs
    /\ Cardinality(F) = Cardinality(S) /\ Cardinality(F) >= 2
    /\ Cardinality({i \in F : \A j \in F : i \notin StaticDeps(d, j)}) = 1                \* a single leaf
    /\ \A m \in FIdx(d) \ F : ~(Anc(d, m) \cap F # {} /\ \E j \in F : m \in Anc(d, j))     \* no cycle through the nest
    /\ N \subseteq UNION S
    /\ (N # {} => \A m \in FIdx(d) \ F : FreeParams(d, m) \cap OutputsOfSet(d, F) \subseteq N)   \* still consumed outside
(* ... and the code has no documented reason to refuse *)
NestMustAccept(o, S, N) == ~o.merged /\ NestWellFormed(o, S, N) /\ NestMsOK(o.sem, NestFuncSet(o, S))

(* simplified_pipeline(out) -> new object retaining `newouts` *)
Combinable(d, out) == LET h0 == FuncOf(d, out) IN
    \E h \in {h0} \cup Anc(d, h0) : \E j \in StaticDeps(d, h) : RootsOfFunc(d, j) = RootsOfFunc(d, h)
SimplifiedObj(o, newouts) == [o EXCEPT !.outs = newouts, !.merged = TRUE]
SimplifyWellFormed(o, out, newouts) == out \in o.outs /\ out \in newouts /\ newouts \subseteq o.outs
SimplifyMustAccept(o, out) ==
    /\ ~o.merged /\ out \in o.outs /\ Combinable(o.sem, out)
    /\ \A i \in {FuncOf(o.sem, out)} \cup Anc(o.sem, FuncOf(o.sem, out)) : ~o.sem.funcs[i].has_ms   \* documented

(* split_disconnected: one object per connected component of the graph (functions linked by an edge or a shared    *)
(* root argument)                                                                                               *)
Link(d, i, j) == \/ i \in StaticDeps(d, j) \/ j \in StaticDeps(d, i)
                 \/ (FreeParams(d, i) \cap FreeParams(d, j)) \ AllOutputs(d) # {}
RECURSIVE CompOf(_, _)
CompOf(d, S) == LET S2 == S \cup {j \in FIdx(d) : \E i \in S : Link(d, i, j)} IN IF S2 = S THEN S ELSE CompOf(d, S2)
Components(d) == {CompOf(d, {i}) : i \in FIdx(d)}
SubDesc(d, C) == LET idx == SelectSeq([i \in 1..NF(d) |-> i], LAMBDA i : i \in C) IN [funcs |-> ForceSeq([k \in DOMAIN idx |-> d.funcs[idx[k]]])]
PartObj(o, C) == LET sd == SubDesc(o.sem, C)
                 IN  [sem |-> sd, ren |-> ForceFn([n \in DescNames(sd) |-> o.ren[n]]), outs |-> o.outs \cap AllOutputs(sd), merged |-> o.merged,
                      heads |-> ForceFn([n \in AllOutputs(sd) |-> o.heads[n]])]
SplitMustAccept(o) == Cardinality(Components(o.sem)) >= 2

(* add_mapspec_axis(p, axis = k): every function that depends on p is mapped over the new axis k; a parameter that   *)
(* carries k and was consumed whole is now consumed slice-wise along k (all other axes whole)                      *)
RECURSIVE DepFuncs(_, _, _)
DepFuncs(d, names, F) == LET F2 == {i \in FIdx(d) : FreeParams(d, i) \cap names # {}}
                             n2 == names \cup OutputsOfSet(d, F2)
                         IN  IF F2 = F /\ n2 = names THEN F ELSE DepFuncs(d, n2, F2)
Dependents(d, p) == DepFuncs(d, {p}, {})
Lifted(d, p)     == {p} \cup OutputsOfSet(d, Dependents(d, p))               \* the names that carry axis k
NewOutAxes(fn, k) == (IF fn.has_ms THEN OutAxes(fn) ELSE <<>>) \o <<k>>
Colons(n) == ForceSeq([m \in 1..n |-> ":"])
LiftFunc(d, p, k, i) ==
    LET fn     == d.funcs[i]
        carr   == SelectSeq(fn.params, LAMBDA q : q \in Lifted(d, p) /\ ~IsBound(d, i, q))
        oldins == IF fn.has_ms THEN fn.ms.ins ELSE <<>>
        oldn   == {oldins[m].name : m \in DOMAIN oldins}
        upd    == ForceSeq([m \in DOMAIN oldins |-> IF oldins[m].name \in SeqToSet(carr)
                                           THEN [name |-> oldins[m].name, axes |-> oldins[m].axes \o <<k>>] ELSE oldins[m]])
        fresh  == SelectSeq(carr, LAMBDA q : q \notin oldn)
        rank(q) == IF q = p THEN 1 ELSE Len(NewOutAxes(d.funcs[FuncOf(d, q)], k))
        new    == ForceSeq([m \in DOMAIN fresh |-> [name |-> fresh[m], axes |-> Colons(rank(fresh[m]) - 1) \o <<k>>]])
    IN  [fn EXCEPT !.has_ms = TRUE,
                   !.ms = [ins |-> upd \o new,
                           outs |-> ForceSeq([m \in DOMAIN fn.outputs |-> [name |-> fn.outputs[m], axes |-> NewOutAxes(fn, k)]])]]
AddAxis(d, p, k) == LET deps == Dependents(d, p)
                    IN  [funcs |-> ForceSeq([i \in DOMAIN d.funcs |-> IF i \in deps THEN LiftFunc(d, p, k, i) ELSE d.funcs[i]])]
AxisObj(o, p, k) == [o EXCEPT !.sem = AddAxis(o.sem, p, k)]
AddAxisWellFormed(o, p, k) == /\ ~o.merged /\ p \in FreeRoots(o.sem) /\ p \notin InSpecNamesOf(o.sem)
                              /\ k \notin AxisNamesOf(o.sem) /\ k # ":"

(* in-place mutations of what an object computes *)
SetPair(ps, k, v) == IF PHas(ps, k) THEN ForceSeq([m \in DOMAIN ps |-> IF ps[m][1] = k THEN <<k, v>> ELSE ps[m]]) ELSE Append(ps, <<k, v>>)
DefaultsObj(o, p, v) ==            \* Pipeline.update_defaults({p: v})
    [o EXCEPT !.sem = [funcs |-> ForceSeq([i \in DOMAIN o.sem.funcs |->
        IF p \in FreeParams(o.sem, i) THEN [o.sem.funcs[i] EXCEPT !.defaults = SetPair(@, p, v)] ELSE o.sem.funcs[i]])]]
DefaultsWellFormed(o, p) == p \in FreeRoots(o.sem) /\ p \notin InSpecNamesOf(o.sem)
BoundObj(o, i, p, v) ==            \* pipeline[f].update_bound({p: v})
    [o EXCEPT !.sem = [funcs |-> ForceSeq([j \in DOMAIN o.sem.funcs |->
        IF j = i THEN [o.sem.funcs[j] EXCEPT !.bound = SetPair(@, p, v)] ELSE o.sem.funcs[j]])]]
BoundWellFormed(o, i, p) == /\ ~o.merged /\ i \in FIdx(o.sem) /\ p \in ParamsOf(o.sem, i)
                            /\ ~PHas(o.sem.funcs[i].defaults, p)
                            /\ ~IsMappedParam(o.sem.funcs[i], p)
                            /\ ObjOK(BoundObj(o, i, p, Atom("@any")))

---------------------------------------------------------------------------
(* The store. *)
VARIABLES objs,    \* [ObjId -> object], ObjId \subseteq Nat \ {0}
          last     \* the last action [kind, tgt]: tgt = the only ids whose entries it was allowed to create or change
rvars == <<objs, last>>
Live == DOMAIN objs
StoreInit == objs = << >> /\ last = [kind |-> "init", tgt |-> {}]
Step(kind, tgt, newobjs) == objs' = newobjs /\ last' = [kind |-> kind, tgt |-> tgt]
Put(id, o)  == (id :> o) @@ objs
Without(id) == [b \in Live \ {id} |-> objs[b]]

New(id, desc)            == id \notin Live /\ ObjOK(Fresh(desc)) /\ Step("new", {id}, Put(id, Fresh(desc)))
Copy(a, id)              == a \in Live /\ id \notin Live /\ Step("copy", {id}, Put(id, objs[a]))
PickleRoundTrip(a, id)   == a \in Live /\ id \notin Live /\ Step("pickle", {id}, Put(id, objs[a]))
Join(a, b, id)           == /\ a \in Live /\ b \in Live /\ id \notin Live /\ JoinDefined(objs[a], objs[b], id)
                            /\ Step("join", {id}, Put(id, JoinObj(objs[a], objs[b], id)))
UpdateRenames(a, r)      == a \in Live /\ RenamesDefined(objs[a], r) /\ Step("update_renames", {a}, Put(a, RenamedObj(objs[a], r)))
OverwriteRenames(a, r)   == a \in Live /\ OverwriteDefined(objs[a], r) /\ Step("overwrite_renames", {a}, Put(a, OverwrittenObj(objs[a], r)))
UpdateScope(a, s, ins, outs, exc) == /\ a \in Live /\ s # "" /\ ScopeDefined(objs[a], s, ins, outs, exc)
                                     /\ Step("update_scope", {a}, Put(a, ScopedObj(objs[a], s, ins, outs, exc)))
RemoveScope(a, ins, outs, exc)    == /\ a \in Live /\ ScopeDefined(objs[a], "", ins, outs, exc)
                                     /\ Step("remove_scope", {a}, Put(a, ScopedObj(objs[a], "", ins, outs, exc)))
NestFuncs(a, S, N)       == /\ a \in Live /\ (objs[a].merged \/ NestWellFormed(objs[a], S, N))
                            /\ UNION S \subseteq objs[a].outs /\ N \subseteq UNION S
                            /\ Step("nest", {a}, Put(a, NestedObj(objs[a], S, N)))
Simplified(a, out, id, newouts) == /\ a \in Live /\ id \notin Live /\ SimplifyWellFormed(objs[a], out, newouts)
                                   /\ Step("simplified", {id}, Put(id, SimplifiedObj(objs[a], newouts)))
(* parts: sequence of sets of original output names, aligned with ids; every component appears exactly once *)
SplitDisconnected(a, ids, parts) ==
    LET o == objs[a]  comps == Components(o.sem)
        compFor(k) == CHOOSE C \in comps : o.outs \cap OutputsOfSet(o.sem, C) = parts[k]
    IN  /\ a \in Live /\ Len(ids) = Len(parts) /\ Len(ids) = Cardinality(comps) /\ Len(ids) >= 2
        /\ \A k \in DOMAIN ids : ids[k] \notin Live /\ \A m \in DOMAIN ids : m # k => ids[m] # ids[k]
        /\ {parts[k] : k \in DOMAIN parts} = {o.outs \cap OutputsOfSet(o.sem, C) : C \in comps}
        /\ Cardinality({parts[k] : k \in DOMAIN parts}) = Len(parts)
        /\ Step("split", SeqToSet(ids),
                [b \in Live \cup SeqToSet(ids) |->
                    IF b \in Live THEN objs[b] ELSE PartObj(o, compFor(CHOOSE k \in DOMAIN ids : ids[k] = b))])
AddMapspecAxis(a, p, k)  == /\ a \in Live /\ AddAxisWellFormed(objs[a], p, k)
                            /\ Step("add_mapspec_axis", {a}, Put(a, AxisObj(objs[a], p, k)))
MutateDefaults(a, p, v)  == a \in Live /\ DefaultsWellFormed(objs[a], p) /\ Step("update_defaults", {a}, Put(a, DefaultsObj(objs[a], p, v)))
MutateBound(a, i, p, v)  == a \in Live /\ BoundWellFormed(objs[a], i, p) /\ Step("update_bound", {a}, Put(a, BoundObj(objs[a], i, p, v)))
MutateRenames(a, r)      == UpdateRenames(a, r)
(* a legitimately refused in-place operation leaves its object in an unspecified state: it leaves the store *)
Discard(a, kind)         == a \in Live /\ Step(kind, {a}, Without(a))
EvalObsStep(a, out, inp, mode, v) == /\ a \in Live /\ ObsRequestOK(objs[a], out, inp, mode)
                                     /\ v = EvalObs(objs[a], out, inp, mode) /\ UNCHANGED rvars

---------------------------------------------------------------------------
(* Invariants *)
(* an action on object a changes objs[b] for no b # a, and removes none (an action property; TraceRewrites keeps the *)
(* previous store in a history variable to state it as a state invariant)                                          *)
NoAliasingStep == \A b \in DOMAIN objs : b \notin last'.tgt => (b \in DOMAIN objs' /\ objs'[b] = objs[b])
NoAliasing     == [][NoAliasingStep]_rvars
NoAliasingFrom(pre) == \A b \in DOMAIN pre : b \notin last.tgt => (b \in Live /\ objs[b] = pre[b])
StoreOK    == \A a \in Live : ObjOK(objs[a])

(* Laws relating the rewrite operators to Eval / MapDenote (RewritePreserves is their conjunction over the store,  *)
(* instantiated in MC_Rewrites / TraceRewrites).  kw / inp are pairs over ORIGINAL names.                         *)
KwOfSet(S, val(_)) == LET s == SetToSeq(S) IN ForceSeq([k \in 1..Len(s) |-> <<s[k], val(s[k])>>])
RenKw(o, kw) == ForceSeq([k \in DOMAIN kw |-> <<CurName(o, kw[k][1]), kw[k][2]>>])
(* renaming commutes with Eval: evaluating the description the user sees on renamed keywords gives the renamed term *)
LawRenameCall(o, kw, out) == SpellingsDistinct(o) =>
                             Eval(CurDesc(o), RenKw(o, kw), CurName(o, out)) = RenTerm(Eval(o.sem, kw, out), CurMap(o))
LawRenameMap(o, inp) == LET den == MapDenoteE(CurDesc(o), RenKw(o, inp))  den0 == MapDenoteE(o.sem, inp)
                        IN  SpellingsDistinct(o) => \A n \in AllOutputs(o.sem) : den[CurName(o, n)] = RenTerm(den0[n], CurMap(o))
(* ... and the observation defined through o.ren is the same thing *)
LawObsCall(o, kw, out) == EvalObs(o, CurName(o, out), RenKw(o, kw), "call") = RenTerm(Eval(o.sem, kw, out), o.heads)
(* scope removal inverts scope addition (on names that had no scope) *)
AllSel == [all |-> TRUE, names |-> << >>]
LawScopeInverse(o, s) == (ScopeDefined(o, s, AllSel, AllSel, << >>) /\ \A n \in DOMAIN o.ren : o.ren[n].scope = "")
                         => LET o1 == ScopedObj(o, s, AllSel, AllSel, << >>) IN ScopedObj(o1, "", AllSel, AllSel, << >>).ren = o.ren
(* a connected component evaluates like the whole *)
LawSplit(o, kw) == \A C \in Components(o.sem) : \A out \in OutputsOfSet(o.sem, C) :
                      Eval(SubDesc(o.sem, C), kw, out) = Eval(o.sem, kw, out)
(* the operands of a join evaluate in the join as before when given their own root arguments *)
LawJoin(p, q, id, kw) == \A out \in AllOutputs(p.sem) : Eval(JoinObj(p, q, id).sem, kw, out) = Eval(p.sem, kw, out)
(* add_mapspec_axis lifts pointwise: with p := vs (an array along k), every output that depends on p gains k as its   *)
(* last axis and its slice n is the original result for p = vs[n]; every other output is unchanged.  inp holds every  *)
(* other input (and may hold p, which is overridden)                                                              *)
WithPair(inp, p, v) == SetPair(inp, p, v)
LawAddAxis(d, p, k, inp, vs) ==
    LET lifted == MapDenoteE(AddAxis(d, p, k), WithPair(inp, p, Arr(vs)))
        origs  == [n \in DOMAIN vs |-> MapDenoteE(d, WithPair(inp, p, vs[n]))] @@ << >>
        orig(n) == origs[n]
        lf == Lifted(d, p)
    IN  \A o \in AllOutputs(d) :
           IF o \in lf
           THEN LET r == Len(NewOutAxes(d.funcs[FuncOf(d, o)], k))
                IN  \A n \in DOMAIN vs : At(lifted[o], ForceSeq([m \in 1..r |-> IF m = r THEN n - 1 ELSE ALL])) = orig(n)[o]
           ELSE lifted[o] = orig(1)[o]
=============================================================================
