---------------------------- MODULE TraceStoreRace ----------------------------
(* Schedules of concurrent stores of one path driven through the real dump()/FileArray.dump (harness c05_race.py):    *)
(*   {n, ev: [{e: "open", w, final} | {e: "finish", w, ok, final}]}                                                   *)
(* "open" w   = writer w's store was started and has reached the pickling of the value (the temporary file is open);  *)
(* "finish" w = it was released and returned (ok) or raised (~ok).  `final` = what a reader of the final path sees    *)
(* after the step: absent | complete | partial.  StoreRace with Private = TRUE must explain every step; a finish is   *)
(* Write followed by Replace.                                                                                         *)
EXTENDS Naturals, Sequences, FiniteSets, TLC, Json, IOUtils, TLCExt
Traces == ndJsonDeserialize(IOEnv.TRACE_FILE)
NT == Len(Traces)
ASSUME \A i \in 1..NT : TLCSet(i, 0)

VARIABLES tid, l, names, content, fd, pc
T  == Traces[tid]
Ev == T.ev[l]
Writers == 1..3
Private == TRUE
SR == INSTANCE StoreRace

IsEvent(e) == l <= Len(T.ev) /\ Ev.e = e /\ l' = l + 1 /\ UNCHANGED tid
Init == tid \in 1..NT /\ l = 1 /\ SR!Init

TOpen   == IsEvent("open") /\ Ev.w \in Writers /\ SR!Open(Ev.w) /\ SR!FinalState' = Ev.final
TFinish == /\ IsEvent("finish") /\ Ev.w \in Writers
           /\ SR!Finish(Ev.w)
           /\ Ev.ok = (pc'[Ev.w] = "done")
           /\ SR!FinalState' = Ev.final
Next == TOpen \/ TFinish
Spec == Init /\ [][Next]_<<tid, l, names, content, fd, pc>>
Track == IF l > TLCGet(tid) THEN TLCSet(tid, l) ELSE TRUE
Accepted == \A i \in 1..NT : (TLCGet(i) = Len(Traces[i].ev) + 1) \/ PrintT(<<"REJECT", i, TLCGet(i)>>)
InvNoStoreFails == SR!NoStoreFails
InvFinalNeverTorn == SR!FinalNeverTorn
=============================================================================
