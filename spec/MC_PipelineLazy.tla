-------------------------- MODULE MC_PipelineLazy ---------------------------
(* Model checking of the lazy-mode state machine (PipelineLazy) over the description universe of           *)
(* MC_PipelineCall (all DAGs over N functions with parameters from 3 roots and earlier outputs, options    *)
(* default / bound / shadowing bound / tuple output: diamonds and multi-output producers included), every  *)
(* requested output, keyword set, calling convention, with and without an active construct_dag():          *)
(* sequences  Build ; Evaluate ; Evaluate ... (MaxEv evaluates), up to MaxHandles such sequences inside one  *)
(* construct_dag() block.  Deadlock checking is ON: a handle can                                            *)
(* always be built or refused, and a started evaluate() can always complete or raise.                      *)
(* FaultsOn: every description also with a fault plan on its user functions (one function raising once /   *)
(* always, all raising once), evaluate() calls that raise followed by further evaluate() calls; the eager  *)
(* twin's calls under the same plans are explored by EBSpec.                                               *)
(* Part 1 exports every description with its valid cuts for the harness (c18.py).                          *)
(* AsmOn / AsmMaxN: the ways a pipeline object is put together (join, |, copy; PipelineLazy: assembly):    *)
(* the laws of the flag operators, the lazy assemblies with their eager twins exported for the harness,    *)
(* and for every description x assembly: a deferred handle exactly from a pipeline assembled lazy.         *)
EXTENDS PipelineLazy, MC_PipelineCall
CONSTANTS MaxEv,     \* number of evaluate() calls per handle (2: Evaluate ; ReEvaluate)
          AllKw,     \* TRUE: every keyword subset (valid cuts, surplus, missing); FALSE: valid cuts only
          MaxHandles,\* handles built one after the other inside one construct_dag() block (1: no sharing)
          Modes,     \* calling conventions explored: subset of {"call", "full"}
          UserCacheOn, \* TRUE: every description also as a pipeline with a user cache (first / all functions cached; the flag does not restrict reuse)
          CacheKinds,  \* the kinds of user cache explored (cache_type): "simple" (the kind a construct_dag() block keeps using) and/or "lru" (replaced by the block's own cache)
          FaultsOn,  \* TRUE: every description also with fault plans (FaultChoice)
          MaxFailEv, \* evaluate() calls per handle that raise (the model's bound on retries under a persistent fault)
          AsmOn,     \* TRUE: every description also as a pipeline put together in every way of AsmUniverse (join / `|` / copy), lazy or not
          AsmMaxN    \* > 0: check the laws of the assembly operators on AsmUniverse(1..AsmMaxN) and export the lazy assemblies with their eager twins

---------------------------------------------------------------------------
(* Part 1: export.  One state per description. *)
(* the universe can be split over several TLC processes (Shard of NShards) by a cheap hash of the description *)
DescHash(dd) == Len(dd.funcs[1].params) + 3 * Len(dd.funcs[2].params) + Len(dd.funcs[2].bound)
                + (IF NF(dd) > 2 THEN 7 * Len(dd.funcs[3].params) + 2 * Len(dd.funcs[3].bound) ELSE 0)
(* a cache choice is <<the functions flagged cache=True, the cache_type>> *)
WithCache(dd, c) == IF c[1] = {} THEN dd
                    ELSE [funcs |-> [i \in FIdx(dd) |-> [dd.funcs[i] EXCEPT !.cache = (i \in c[1])]], cache_type |-> c[2]]
CacheChoice(dd)  == IF UserCacheOn THEN {{1}, FIdx(dd)} \X CacheKinds ELSE {<<{}, "">>}
(* fault plans: none; one function raising on its first invocation only (transient) / on every invocation (persistent); *)
(* every function raising on its first invocation                                                                        *)
One(dd, i, k)    == [j \in FIdx(dd) |-> IF j = i THEN k ELSE 0]
FaultChoice(dd)  == IF FaultsOn THEN {Zero(dd), [j \in FIdx(dd) |-> 1]} \cup {One(dd, i, k) : i \in FIdx(dd), k \in {1, -1}}
                    ELSE {Zero(dd)}
WithFaults(dd, F) == IF F = Zero(dd) THEN dd
                     ELSE IF "cache_type" \in DOMAIN dd THEN [funcs |-> dd.funcs, cache_type |-> dd.cache_type, faults |-> F]
                     ELSE [funcs |-> dd.funcs, faults |-> F]
(* Assemblies of a pipeline of n functions: the listing cut into at most 3 consecutive parts, each a pipeline (lazy or not) or -  *)
(* a single function that is not the receiver - a bare PipeFunc; one part: used as constructed, several: joined by join or by |;  *)
(* afterwards nothing, .copy(), .copy(lazy=True) or .copy(lazy=False).  Excluded (don't-care): an eager receiver collecting the  *)
(* functions of lazy pipelines.                                                                                                  *)
RECURSIVE Comps(_, _)
Comps(n, k) == IF k = 1 THEN {<<n>>} ELSE UNION {{Append(c, m) : c \in Comps(n - m, k - 1)} : m \in 1..(n - k + 1)}
PartChoices(m, first) == {[kind |-> "pipeline", n |-> m, lazy |-> b] : b \in BOOLEAN}
                         \cup (IF ~first /\ m = 1 THEN {[kind |-> "func", n |-> 1, lazy |-> FALSE]} ELSE {})
RECURSIVE PartSeqs(_, _)
PartSeqs(c, k) == IF k = 0 THEN {<<>>} ELSE {Append(ps, p) : ps \in PartSeqs(c, k - 1), p \in PartChoices(c[k], k = 1)}
AsmPosts == {<<>>, <<"copy">>, <<"copy_lazy">>, <<"copy_eager">>}
AsmParts(n)    == {q \in UNION {PartSeqs(c, Len(c)) : c \in UNION {Comps(n, k) : k \in 1..(IF n < 3 THEN n ELSE 3)}} :
                      q[1].lazy \/ \A i \in 1..Len(q) : ~q[i].lazy}
AsmUniverse(n) == {a \in {[op |-> o, parts |-> ps, post |-> po] : ps \in AsmParts(n), o \in {"direct", "join", "or"}, po \in AsmPosts} :
                      a.op = "direct" <=> Len(a.parts) = 1}
(* the eager twin of an assembly: put together in the same way from eager pipelines *)
TwinOf(a) == [op |-> a.op, parts |-> [i \in 1..Len(a.parts) |-> [a.parts[i] EXCEPT !.lazy = FALSE]],
              post |-> [j \in 1..Len(a.post) |-> IF a.post[j] = "copy_lazy" THEN "copy_eager" ELSE a.post[j]]]
ExplicitPost(a) == \E j \in 1..Len(a.post) : a.post[j] # "copy"
(* Laws of the assembly operators (checked on the universe when AsmMaxN > 0):                                                     *)
(*  - every member is a well-formed assembly, and so is its twin, which is eager                                                   *)
(*  - unless a copy states the flag, the pipeline is lazy exactly if the receiver - the first part - is: neither the number, kind  *)
(*    or flags of the other parts, nor the operator (join / |), nor plain copies matter; a stated flag is the flag                 *)
AsmLaws(n) == \A a \in AsmUniverse(n) :
                 /\ AsmWellFormed(a, n) /\ AsmWellFormed(TwinOf(a), n) /\ ~AsmFlag(TwinOf(a))
                 /\ (~ExplicitPost(a) => AsmFlag(a) = a.parts[1].lazy)
                 /\ (Len(a.post) > 0 /\ a.post[Len(a.post)] = "copy_lazy" => AsmFlag(a))
                 /\ (Len(a.post) > 0 /\ a.post[Len(a.post)] = "copy_eager" => ~AsmFlag(a))
                 /\ (a.op = "join" => AsmFlag([a EXCEPT !.op = "or"]) = AsmFlag(a))
LazyAssemblies(n) == {[asm |-> a, twin |-> TwinOf(a)] : a \in {x \in AsmUniverse(n) : AsmFlag(x)}}
ASSUME AsmMaxN = 0 \/ \A n \in 1..AsmMaxN : AsmLaws(n)
ASSUME AsmMaxN = 0 \/ \A n \in 1..AsmMaxN : PrintT(<<"ASMS", ToJson([n |-> n, asms |-> LazyAssemblies(n)])>>)
NoAsm == [op |-> "none"]
WithAsm(dd, a) == IF a.op = "none" THEN dd
                  ELSE [f \in DOMAIN dd \cup {"asm", "easm"} |-> IF f = "asm" THEN a ELSE IF f = "easm" THEN TwinOf(a) ELSE dd[f]]
AsmChoice(dd)  == IF AsmOn THEN AsmUniverse(NF(dd)) ELSE {NoAsm}
LUInit == \E dd \in {x \in Universe : Valid(x) /\ DescHash(x) % NShards = Shard} : \E c \in CacheChoice(dd) :
              \E F \in FaultChoice(dd) : \E a \in AsmChoice(dd) : LazyInit(WithAsm(WithFaults(WithCache(dd, c), F), a))
LUNext == UNCHANGED allvars
LUSpec == LUInit /\ [][LUNext]_allvars
LEmit  == PrintT(<<"CASE", ToJson([desc |-> d,
                                   cuts |-> [o \in AllOutputs(d) |-> {SetToSeq(C) : C \in Cuts(d, o)}]])>>)
(* law: for every valid cut the shape lazy.py is meant to record satisfies the requirement *)
InvRefGraphOK == \A o \in AllOutputs(d) : \A C \in Cuts(d, o) : TaskGraphOK(d, KwOf(C), o, ReferenceGraph(d, KwOf(C), o))
(* law: contracting pickers never loses or invents a dependency between functions that the description does not have *)
InvDepEdgesStatic == \A o \in AllOutputs(d) : \A C \in Cuts(d, o) :
                        \A e \in DepEdges(d, KwOf(C), o) : e[1] \in StaticDeps(d, e[2]) /\ e[1] # e[2]

(* law (every description x every assembly, lazy or not): a deferred handle can be had - LBegin - exactly from a pipeline whose    *)
(* assembly yields lazy, for every output and valid cut, with and without construct_dag(); the twin is always an eager pipeline      *)
InvLazyExactlyWhenAssembledLazy ==
    /\ ~TwinIsLazy(d)
    /\ \A o \in AllOutputs(d) : \A C \in Cuts(d, o) : \A m \in Modes, g \in BOOLEAN :
          (ENABLED LBegin(o, KwOf(C), m, g)) <=> PipelineIsLazy(d)
    /\ ("asm" \in DOMAIN d => PipelineIsLazy(d) = AsmFlag(d.asm))

---------------------------------------------------------------------------
(* Part 2: behaviours *)
KwSets(o) == IF AllKw THEN SUBSET Names(d) ELSE Cuts(d, o)
(* (the guards phase = ... in front of the quantifiers only keep TLC from enumerating the cuts in every state) *)
(* with a user cache the model bounds the history: a further handle only while the cache holds at most NF entries; the   *)
(* cache may be cleared at any time (pipeline.cache.clear()), which also keeps the bounded model free of deadlocks       *)
ClearCache == /\ ~lazy /\ phase = "idle" /\ nh = 0 /\ memo # {}
              /\ memo' = {}
              /\ UNCHANGED <<cvars, lazy, dag, nev, count, val, graph, nh, fvars>>
RefHit == MayBeOld(d, kw, out, memo)
(* the eager twin under its fault plan (valid cuts): begin ; invocations that complete / one that raises ; return / raise *)
EagerNext == \/ (phase = "idle" /\ ~lazy /\ nh = 0 /\ ~TwinIsLazy(d) /\ \E o \in AllOutputs(d) : \E C \in Cuts(d, o) : \E m \in Modes :
                       Eager(Begin(o, KwOf(C), m)))
             \/ (phase = "running" /\ ~lazy /\ \E i \in FIdx(d) : ECall(i, ArgsOf(d, kw, i)) \/ ECallFail(i, ArgsOf(d, kw, i)))
             \/ (phase = "running" /\ ~lazy /\ (Eager(Return(Eval(d, kw, out))) \/ Eager(ReturnFull(FullValue(d, kw, out)))))
             \/ (phase = "failed" /\ ~lazy /\ ERaise(bad))
LNext == \/ (phase = "idle" /\ Cardinality(memo) <= NF(d) /\ \E o \in AllOutputs(d) : \E C \in KwSets(o) : \E m \in Modes, g \in BOOLEAN :
                                  LBegin(o, KwOf(C), m, g))
         \/ Build \/ BuildRaiseUnused \/ BuildRaiseMissing \/ BuildRaiseOutputSupplied
         \/ ((nfe < MaxFailEv \/ \A i \in Needed(d, kw, out) \ done : ~Fails(flt, i)) /\ EvalBegin)
         \/ (phase = "running" /\ \E i \in FIdx(d) : LCall(i, ArgsOf(d, kw, i)))
         \/ (phase = "running" /\ nfe < MaxFailEv /\ \E i \in FIdx(d) : LCallFail(i, ArgsOf(d, kw, i)))
         \/ (phase = "failed" /\ EvalRaise(bad))
         \/ EvalReturn(Eval(d, kw, out))
         \/ EvalReturnFull(FullValue(d, kw, out))
         \/ (nev < MaxEv /\ (ReEvaluate(Eval(d, kw, out)) \/ ReEvaluateFull(FullValue(d, kw, out))))
         \/ (graph = NoGraph /\ Graph(ReferenceGraphFor(d, kw, out, RefHit, mode = "full")))
         \/ ClearCache
         \/ LEnd
         \/ (nh + 1 < MaxHandles /\ LDropKeep)
         \/ CloseBlock            \* (BlockLeft - leaving the with statement, normally or by an exception - is this step or no step at all)
LBSpec == LUInit /\ [][LNext]_allvars
(* the eager twin alone (its fault plan is independent of the lazy pipeline's: exploring the two in one state space would *)
(* only multiply them)                                                                                                   *)
EBSpec == LUInit /\ [][EagerNext]_allvars

InvNothingBeforeEvaluate == NothingBeforeEvaluate
InvAtMostOncePerNode     == AtMostOncePerNode
InvExactlyOnceNeeded     == ExactlyOnceNeeded
InvCountIsDone           == CountIsDone
InvValueIsEval           == ValueIsEval
InvGraphIsOK             == GraphIsOK
InvLazyTypeOK            == LazyTypeOK
InvFailuresAccounted     == FailuresAccounted
InvNoValueFromFailure    == NoValueFromFailure
(* once an invocation raised, the evaluate() it was made for invokes nothing more and cannot return a value *)
InvFailedEvaluateOnlyRaises == phase = "failed" =>
                                  /\ \A i \in FIdx(d) : ~ENABLED LCall(i, ArgsOf(d, kw, i)) /\ ~ENABLED LCallFail(i, ArgsOf(d, kw, i))
                                  /\ ~ENABLED EvalReturn(Eval(d, kw, out)) /\ ~ENABLED EvalReturnFull(FullValue(d, kw, out))
(* a handle whose evaluate() raised is not "evaluated": no value can be had from it without the invocations that are still *)
(* owed (ReEvaluate is disabled, and EvalReturn only after them), and a further evaluate() can be started                   *)
InvRetryIsAFirstEvaluate == (lazy /\ phase = "built" /\ nev = 0 /\ nfe > 0 /\ memo = {}) =>
                                  /\ ~ENABLED ReEvaluate(Eval(d, kw, out)) /\ ~ENABLED ReEvaluateFull(FullValue(d, kw, out))
                                  /\ ENABLED EvalBegin
                                  /\ \E i \in MustRun : i \notin done
(* the eager twin returns a value only when no needed function is (still) faulty, exactly the condition under which the   *)
(* handle's evaluate() can return (NoValueFromFailure): the two agree on raise / return attempt by attempt                 *)
InvEagerReturnNoFault    == (~lazy /\ phase = "running" /\ (ENABLED Return(Eval(d, kw, out)) \/ ENABLED ReturnFull(FullValue(d, kw, out))))
                                  => \A i \in Needed(d, kw, out) : eflt[i] = 0
InvLDoneOnlyNeeded       == (lazy /\ phase \in {"built", "running"}) => done \subseteq Needed(d, kw, out)
(* once evaluated, no invocation is possible any more, whatever the phase *)
InvNoCallAfterEvaluate   == (lazy /\ nev >= 1) => \A i \in FIdx(d) : ~ENABLED LCall(i, ArgsOf(d, kw, i))
(* a started evaluate() of a later handle of a block can complete without invoking anything that is reused *)
InvReusedNeedNoCall      == (lazy /\ phase = "running" /\ done = MustRun) => ENABLED EvalReturnFull(FullValue(d, kw, out)) \/ ENABLED EvalReturn(Eval(d, kw, out))
(* a handle exists only for a defined evaluation without strictly surplus keywords (first handle of a block) *)
InvBuiltDefined          == (lazy /\ phase \in {"built", "running"}) => (Defined(d, kw, out) /\ ((nh = 0 /\ memo = {}) => StrictSurplus(d, kw, out) = {}))
(* with old nodes: a recorded graph never merges two functions into one node (no self-loop) and old nodes never receive edges *)
InvOldNodesOnlySources   == (lazy /\ graph # NoGraph) => /\ \A e \in graph.edges : e[1] # e[2]
                                                         /\ \A n \in FuncNodes(graph) : Preds(graph, n.id) = {} \/ IdxOfName(d, n.f) \notin RefHit

(* sensitivity of TaskGraphOK: every single-step corruption of an accepted graph that changes the dependency      *)
(* relation or the node set of functions is rejected                                                              *)
FuncIds(g)   == {n.id : n \in FuncNodes(g)}
DropEdge(g, e) == [g EXCEPT !.edges = @ \ {e}]
AddEdge(g, e)  == [g EXCEPT !.edges = @ \cup {e}]
DropNode(g, x) == [nodes |-> {n \in g.nodes : n.id # x}, edges |-> {e \in g.edges : e[1] # x /\ e[2] # x}]
DupNode(g, x)  == LET n == NodeOf(g, x)  y == 100 + x
                  IN  [nodes |-> g.nodes \cup {[n EXCEPT !.id = y]},
                       edges |-> g.edges \cup {<<e[1], y>> : e \in {ee \in g.edges : ee[2] = x}}]
Mutants(g) == {DropEdge(g, e) : e \in g.edges}
              \cup {AddEdge(g, e) : e \in {ee \in Ids(g) \X Ids(g) : ee[1] # ee[2] /\ ee \notin g.edges /\ ee \notin Contracted(g)}}
              \cup {DropNode(g, x) : x \in FuncIds(g)}
              \cup {DupNode(g, x) : x \in FuncIds(g)}
InvMutantsRejected == (lazy /\ graph # NoGraph /\ memo = {}) => \A m \in Mutants(graph) : ~TaskGraphOK(d, kw, out, m)
(* the same whenever no node can predate the block - nothing was called before, or the block does not work on the pipeline's own *)
(* cache (OwnCacheInBlock) -, however full that cache is: a recorded graph that lacks a task of the evaluation, or an edge between *)
(* two of them, because those tasks were taken from the user cache, is rejected                                                  *)
InvMutantsRejectedNoOld == (lazy /\ graph # NoGraph /\ RefHit = {}) =>
                              \A m \in Mutants(graph) : ~TaskGraphOKReuse(d, kw, out, m, memo, mode = "full")
(* a user cache of another kind than the block's never contributes a node to a recorded graph *)
InvForeignCacheNeverOld == (lazy /\ UserCache(d) /\ ~OwnCacheInBlock(d)) => (RefHit = {} /\ (graph # NoGraph => graph = ReferenceGraphFor(d, kw, out, {}, mode = "full")))
=============================================================================
