--------------------------- MODULE TraceStorage ---------------------------
(* Trace validation for Storage: each line of the ndjson file is one recorded history of a real      *)
(* storage object (or of the harness's NumPy reference, which cross-checks this specification):      *)
(*   {g: {shape, internal, mask}, obs: "full" | "sampled", gkeys: [key, ...],                         *)
(*    ev: [{op, key, val: {shape, data}, exc, gk: 0 | 1, o: {get: [Outcome per gkeys], ta_none,       *)
(*          ta_true, ta_false, mask, ml, has, gfi}}]}                                                 *)
(* op = "new" (the fresh object, nothing changes) | "dump" (key over the external axes, val a Block) *)
(* | "persist_reopen".  `exc` is the exception class the mutator raised ("" = none); `o` holds what  *)
(* EVERY observer returned right after the mutator: __getitem__ for every key of `gkeys`, to_array    *)
(* for splat_internal = None/True/False, mask, mask_linear(), has_index(i) and get_from_index(i) for *)
(* every linear index i of the external shape.  gk = 0 ("light" event): __getitem__ and the two      *)
(* explicit to_array variants were skipped (o.get = [], o.ta_true = o.ta_false = Raise("-")), all    *)
(* other observers were called; the LAST event of an obs = "full" trace must have gk = 1.            *)
(* An event is explained iff the specified mutator has the logged outcome AND every specified        *)
(* observation of the specified post-state equals the logged one.                                    *)
(* obs = "full": gkeys must contain ObsGetKeys(full shape), otherwise the TRACE is ill-formed         *)
(* (BADTRACE: a harness error, not a verdict); obs = "sampled": any keys (random histories).          *)
(* Diag = TRUE: never blocks; follows the specified state and prints every mismatching item          *)
(* <<"DIAG", {t, l, c(lause), i(ndex), exp(ected)}>>, used to classify rejected traces.               *)
EXTENDS Storage, Json, IOUtils, TLCExt
CONSTANT Diag
Traces == ndJsonDeserialize(IOEnv.TRACE_FILE)
NT == Len(Traces)
ASSUME \A i \in 1..NT : TLCSet(i, 0)

VARIABLES tid, l, st, G           \* G: the completed geometry record of trace tid (constant along a trace)
T  == Traces[tid]
Ev == T.ev[l]
ToSet(s) == {s[i] : i \in DOMAIN s}

TraceOK(t) == /\ WellFormedBasic(t.g)
              /\ t.obs = "sampled" \/ (/\ ObsGetKeys(Complete(t.g).full) \subseteq ToSet(t.gkeys)
                                        /\ t.ev[Len(t.ev)].gk = 1)
              /\ \A i \in DOMAIN t.ev : t.ev[i].op = "dump" => IsBlock(t.g, t.ev[i].val)

Apply(e, s) ==
    CASE e.op = "new"            -> [exc |-> "", st |-> s]
      [] e.op = "dump"           -> LET d == Dump(G, s.w, e.key, e.val) IN [exc |-> d.exc, st |-> [s EXCEPT !.w = d.w]]
      [] e.op = "persist_reopen" -> [exc |-> "", st |-> PersistReopen(s)]

Skipped       == Raise("-")
Obs(e, w)     == IF e.gk = 1 THEN Observe(G, w, T.gkeys)
                 ELSE [Observe(G, w, <<>>) EXCEPT !.ta_true = Skipped, !.ta_false = Skipped]
Matches(e, r) == r.exc = e.exc /\ Obs(e, r.st.w) = e.o

Report(c, i, exp) == PrintT(<<"DIAG", ToJson([t |-> tid, l |-> l, c |-> c, i |-> i, exp |-> exp])>>)
(* IF, not \/: inside an action TLC explores BOTH disjuncts of a disjunction *)
DiagSeq(c, exp, obs) == IF Len(exp) # Len(obs) THEN Report(c, 0, exp)
                        ELSE \A i \in DOMAIN exp : IF exp[i] = obs[i] THEN TRUE ELSE Report(c, i, exp[i])
DiagOne(c, exp, obs) == IF exp = obs THEN TRUE ELSE Report(c, 0, exp)
Diagnose(e, r) ==
    LET x == Obs(e, r.st.w) IN
    /\ DiagOne("outcome", r.exc, e.exc)
    /\ DiagSeq("get", x.get, e.o.get)
    /\ DiagOne("ta_none", x.ta_none, e.o.ta_none)
    /\ DiagOne("ta_true", x.ta_true, e.o.ta_true)
    /\ DiagOne("ta_false", x.ta_false, e.o.ta_false)
    /\ DiagOne("mask", x.mask, e.o.mask)
    /\ DiagOne("ml", x.ml, e.o.ml)
    /\ DiagSeq("has", x.has, e.o.has)
    /\ DiagSeq("gfi", x.gfi, e.o.gfi)

Init == /\ tid \in 1..NT /\ l = 1
        /\ IF TraceOK(T) THEN TRUE ELSE PrintT(<<"BADTRACE", tid, 0>>)
        /\ G = Complete(T.g)
        /\ st = NewState(T.g)

Step == /\ l <= Len(T.ev)
        /\ LET r == Apply(Ev, st) IN
              /\ IF Diag THEN Diagnose(Ev, r) ELSE Matches(Ev, r)
              /\ st' = r.st
        /\ l' = l + 1 /\ UNCHANGED <<tid, G>>

Spec == Init /\ [][Step]_<<tid, l, st, G>>

Track == IF l > TLCGet(tid) THEN TLCSet(tid, l) ELSE TRUE
InvWellFormed == DOMAIN st.w = IndexSet(G.shape) /\ \A p \in DOMAIN st.w : st.w[p] = Missing \/ IsBlock(G, st.w[p])
InvMask       == LawMask(G, st.w)
InvCells      == LawCells(G, st.w)
InvToArray    == LawToArray(G, st.w)
Accepted == \A i \in 1..NT : (TLCGet(i) = Len(Traces[i].ev) + 1) \/ PrintT(<<"REJECT", i, TLCGet(i)>>)
=============================================================================
