-------------------------- MODULE TraceFsProtocol ---------------------------
(* The write protocol that MapCrash.tla shows to be necessary and sufficient (Atomic, InfoLast), as a trace          *)
(* specification over the raw file-system operations of ONE uninterrupted map run recorded by the interposer:        *)
(*   {ops: [{op, path, cls, src, tmp}]}  op in mkdir | open_w | write | close | replace | unlink | rmdir | end        *)
(*   cls = class of the path (run_info | input | defaults | element | single_output | dict_dump | dir)                *)
(*   tmp = TRUE iff the path opened for writing is later renamed away (a temporary sibling)                           *)
(* Rules: a file is only ever written under a temporary name (open_w, write*, close) and becomes visible under its    *)
(* final name by one rename; nothing is pending at the end; run_info.json becomes visible after every input and       *)
(* defaults file of the run.                                                                                          *)
EXTENDS Naturals, Sequences, FiniteSets, TLC, Json, IOUtils, TLCExt
Traces == ndJsonDeserialize(IOEnv.TRACE_FILE)
NT == Len(Traces)
ASSUME \A i \in 1..NT : TLCSet(i, 0)

VARIABLES tid, l, open, closed, infoDone
T  == Traces[tid]
Ev == T.ops[l]
IsEvent(e) == l <= Len(T.ops) /\ Ev.op = e /\ l' = l + 1 /\ UNCHANGED tid

Init == tid \in 1..NT /\ l = 1 /\ open = {} /\ closed = {} /\ infoDone = FALSE

Mkdir   == IsEvent("mkdir") /\ UNCHANGED <<open, closed, infoDone>>
Remove  == (IsEvent("unlink") \/ IsEvent("rmdir")) /\ UNCHANGED <<open, closed, infoDone>>
OpenW   == IsEvent("open_w") /\ Ev.tmp /\ Ev.path \notin open
           /\ open' = open \cup {Ev.path} /\ closed' = closed \ {Ev.path} /\ UNCHANGED infoDone
Write   == IsEvent("write") /\ Ev.path \in open /\ UNCHANGED <<open, closed, infoDone>>
Close   == IsEvent("close") /\ Ev.path \in open
           /\ open' = open \ {Ev.path} /\ closed' = closed \cup {Ev.path} /\ UNCHANGED infoDone
Replace == IsEvent("replace") /\ Ev.src \in closed
           /\ (Ev.cls \in {"input", "defaults"} => ~infoDone)        \* InfoLast
           /\ closed' = closed \ {Ev.src} /\ UNCHANGED open
           /\ infoDone' = (infoDone \/ Ev.cls = "run_info")
End     == IsEvent("end") /\ open = {} /\ closed = {} /\ UNCHANGED <<open, closed, infoDone>>

Next == Mkdir \/ Remove \/ OpenW \/ Write \/ Close \/ Replace \/ End
Spec == Init /\ [][Next]_<<tid, l, open, closed, infoDone>>
Track == IF l > TLCGet(tid) THEN TLCSet(tid, l) ELSE TRUE
Accepted == \A i \in 1..NT : (TLCGet(i) = Len(Traces[i].ops) + 1) \/ PrintT(<<"REJECT", i, TLCGet(i)>>)
=============================================================================
