---------------------------- MODULE PipelineLazy ----------------------------
(***************************************************************************)
(* Lazy mode of a pipefunc Pipeline (Pipeline(..., lazy=True)) on a         *)
(* description d (PipelineStatic), as an extension of the call state        *)
(* machine PipelineCall.                                                    *)
(*                                                                         *)
(*   code                                   | here                          *)
(*   ---------------------------------------+------------------------------ *)
(*   h = pipeline(out, **kw) / run / func   | LBegin ; Build                *)
(*     (_execute_func -> _LazyFunction,     |   (or a BuildRaise* step)     *)
(*      _update_all_results -> picker node) |                               *)
(*   h.evaluate()  (first)                  | EvalBegin ; LCall* ;          *)
(*     (_LazyFunction.evaluate,             |   EvalReturn / EvalReturnFull *)
(*      evaluate_lazy, PipeFunc.__call__)   |                               *)
(*   h.evaluate()  (again: _evaluated memo) | ReEvaluate / ReEvaluateFull   *)
(*   with construct_dag() as dag: ...       | dag = TRUE ; Graph(g)         *)
(*   a user function raises while h is      | LCallFail ; EvalRaise         *)
(*     evaluated (the exception leaves      |   (eager twin: ECallFail ;    *)
(*     evaluate(); h stays usable)          |    ERaise)                    *)
(*   h.evaluate() after a failed one        | EvalBegin ; LCall* ; ...      *)
(*     (a retry: what succeeded is kept,    |   (only what is not done yet) *)
(*      what failed is invoked again)       |                               *)
(*   the with construct_dag() statement is  | BlockLeft(act)                *)
(*     left, normally or by an exception    |   (act: task_graph() still    *)
(*     (construct_dag: try/finally)         |    reports a block: never)    *)
(*   task_graph() when a call is made       | LBeginObs / EagerBeginObs     *)
(*   which cache a call inside a block uses | OwnCacheInBlock               *)
(*     (Pipeline._current_cache)            |                               *)
(*   the pipeline was put together by       | d.asm ; PipelineIsLazy        *)
(*     join / `|` / copy from pipelines     |   (guard of LBegin)           *)
(*     that exist (Pipeline.join, .copy)    |                               *)
(*                                                                         *)
(* Property C18: the deferred object evaluates to the eager result (both    *)
(* are Eval of PipelineStatic: the eager call is PipelineCall!Return, the   *)
(* lazy one EvalReturn, with the same right-hand side); every needed        *)
(* function is invoked exactly once however many consumers share it and     *)
(* however often evaluate() is called; nothing is invoked before            *)
(* evaluate(); the task graph recorded under construct_dag(), with          *)
(* output-picker nodes contracted, is acyclic and has an edge for exactly   *)
(* each producer -> consumer dependency of the evaluation (TaskGraphOK).    *)
(* As in PipelineCall any dependency-respecting order of invocations is a   *)
(* behaviour: the recursion order of evaluate_lazy is not part of the       *)
(* property.                                                                *)
(*                                                                         *)
(* Faults.  "However often evaluate() is called" includes the calls that    *)
(* did not return: a user function may raise (fault plan flt/eflt: the next *)
(* k invocations of a function raise, or every one does).  The eager call   *)
(* then raises that exception and leaves nothing behind; so does evaluate() *)
(* - the invocation that raised does NOT count as an evaluation of its node *)
(* (LCallFail leaves `done` alone), no value is produced, and the deferred  *)
(* object is as usable as before: a further evaluate() is again a FIRST     *)
(* evaluate (EvalBegin), invokes exactly the needed functions that have not *)
(* succeeded yet - the one that raised included - and either raises again   *)
(* (the fault persists) or returns Eval, exactly like a further eager call. *)
(* A node that raised is never handed out as "evaluated", neither to the    *)
(* same handle nor to a later one that shares it through the construct_dag  *)
(* block or the user cache (memo only ever holds completed invocations).    *)
(*                                                                         *)
(* Several calls inside ONE construct_dag() block (tests/test_lazy.py does  *)
(* that) share the block's cache, so a later handle may reuse nodes of an   *)
(* earlier one.  Required of every handle: its own value (Eval of its own   *)
(* output and keywords), nothing before evaluate, at most once.  Don't-care:*)
(* whether a function whose identical invocation (same function, same       *)
(* resolved arguments) was already made for an earlier handle of the block  *)
(* is invoked again (memo / Reused below).  The graph of a block with       *)
(* several handles is their union and is only constrained for the first.   *)
(* A pipeline with a user cache (cache_type, cache=True functions) keeps    *)
(* deferred nodes across calls: the same don't-care holds for its later     *)
(* handles, wherever they are built, and a handle built inside a            *)
(* construct_dag() block may then consist partly of nodes created before    *)
(* the block (TaskGraphOKFor: the graph rule with old nodes) - but only if  *)
(* the block really works on the pipeline's own cache, which it does only   *)
(* for a cache of the kind the block itself keeps (OwnCacheInBlock); with   *)
(* any other user cache the block starts from an empty cache of its own,    *)
(* every task of the evaluation is created under the recording, and the     *)
(* graph rule holds in full (TaskGraphOK), whatever was called before.      *)
(*                                                                         *)
(* A block is over when its with statement is left, HOWEVER it is left:     *)
(* normally, or through an exception (of a refused call - BuildRaise* -, of *)
(* a user function that evaluate() let through - EvalRaise -, or of the     *)
(* body's own).  Afterwards no block is active (BlockLeft), and every later *)
(* call - on this pipeline or any other, lazy or eager - is an ordinary     *)
(* call outside a block (LBeginObs with g = FALSE / EagerBeginObs): it sees *)
(* none of the block's nodes (memo keeps user-cache entries only: LFinish,  *)
(* CloseBlock), so it invokes every needed function itself, exactly once,   *)
(* and evaluates to Eval.                                                   *)
(*                                                                         *)
(* "A pipeline constructed with lazy=True" is a statement about the         *)
(* pipeline OBJECT, and objects are also derived from one another           *)
(* (Pipeline.join, `|`, .copy): a derived pipeline is a copy of its         *)
(* receiver with the functions it collects, so it is lazy exactly if the    *)
(* receiver is, unless the derivation states the flag (assembly section:    *)
(* AsmFlag, PipelineIsLazy).  Everything above is required of EVERY         *)
(* pipeline whose assembly yields lazy, whatever it was put together from;  *)
(* LBegin is guarded by PipelineIsLazy(d) and is the only call on it.       *)
(***************************************************************************)
EXTENDS PipelineCall

VARIABLES lazy,    \* TRUE while a lazy call is being built / its deferred handle is alive
          dag,     \* TRUE iff that call is made under an active construct_dag()
          nev,     \* number of completed evaluate() calls on the handle
          count,   \* count[i] = invocations of the user function of d.funcs[i] since LBegin
          val,     \* what the last evaluate() returned (NoVal before the first one)
          graph,   \* the task graph last observed under construct_dag() (NoGraph if none)
          memo,    \* <<i, args>>: invocations made for EARLIER handles of the construct_dag() block that is still open
          nh,      \* number of earlier handles of the open block (0: no block is open besides the live handle's)
          flt,     \* fault plan of the lazy pipeline's user functions: flt[i] = k > 0: the next k invocations of d.funcs[i] raise,
                   \*   -1: every invocation raises, 0: it works
          eflt,    \* the same for the functions of the eager twin (separate function objects, separate plan)
          nfail,   \* nfail[i] = invocations of d.funcs[i] since LBegin that raised (they are part of count[i])
          nfe,     \* number of evaluate() calls on the handle that raised
          bad      \* the function whose invocation just raised (phase = "failed"), 0 otherwise
fvars == <<flt, eflt, nfail, nfe, bad>>
lvars == <<lazy, dag, nev, count, val, graph, memo, nh, flt, eflt, nfail, nfe, bad>>
allvars == <<cvars, lvars>>

NoVal   == Atom("#noval")
NoGraph == [nodes |-> {}, edges |-> {}]
Zero(dd) == [i \in FIdx(dd) |-> 0]
(* the fault plan a description starts with (optional field `faults`, one integer per function) *)
Faults(dd) == IF "faults" \in DOMAIN dd THEN [i \in FIdx(dd) |-> dd.faults[i]] ELSE Zero(dd)
Fails(f, i) == f[i] # 0
(* a transient fault is used up by the invocation it breaks *)
Spend(f, i) == IF f[i] > 0 THEN [f EXCEPT ![i] = @ - 1] ELSE f
RECURSIVE SumTo(_, _)
SumTo(f, n) == IF n = 0 THEN 0 ELSE f[n] + SumTo(f, n - 1)
(* successful invocations of d.funcs[i] since LBegin *)
Ran(i) == count[i] - nfail[i]

LazyInit(desc) == /\ CallInit(desc)
                  /\ lazy = FALSE /\ dag = FALSE /\ nev = 0 /\ count = Zero(desc) /\ val = NoVal /\ graph = NoGraph
                  /\ memo = {} /\ nh = 0
                  /\ flt = Faults(desc) /\ eflt = Faults(desc) /\ nfail = Zero(desc) /\ nfe = 0 /\ bad = 0

---------------------------------------------------------------------------
(* The task graph.                                                                                           *)
(* A recorded graph is [nodes : set of [id, kind, f, pick], edges : set of <<id, id>>]:                       *)
(*   kind = "func"   : a deferred invocation of the user function named f                   (pick = "")      *)
(*   kind = "picker" : the output picker of the tuple-output function named f, selecting output `pick`       *)
(* (anything else the harness reports as kind = "other").                                                    *)

Ids(g)        == {n.id : n \in g.nodes}
NodeOf(g, x)  == CHOOSE n \in g.nodes : n.id = x
Preds(g, x)   == {e[1] : e \in {ee \in g.edges : ee[2] = x}}
FuncNodes(g)  == {n \in g.nodes : n.kind = "func"}
PickNodes(g)  == {n \in g.nodes : n.kind = "picker"}
IdxOfName(dd, nm) == CHOOSE i \in FIdx(dd) : dd.funcs[i].name = nm
IsFuncName(dd, nm) == \E i \in FIdx(dd) : dd.funcs[i].name = nm

(* nodes reachable from the node set S along edges (S excluded unless on a cycle) *)
RECURSIVE ReachFrom(_, _, _)
ReachFrom(g, S, acc) == LET nxt == {e[2] : e \in {ee \in g.edges : ee[1] \in S}} \ acc
                        IN  IF nxt = {} THEN acc ELSE ReachFrom(g, nxt, acc \cup nxt)
GraphAcyclic(g) == \A x \in Ids(g) : x \notin ReachFrom(g, {x}, {})

(* the producer -> consumer dependencies of the evaluation of `o` under keywords k, as function indices *)
DepEdges(dd, k, o) == {<<j, i>> \in FIdx(dd) \X FIdx(dd) : i \in Needed(dd, k, o) /\ j \in DirectDeps(dd, k, i)}

(* well-formed graph: unique ids, edges between nodes, only function and picker nodes, every function node    *)
(* wraps a function of the description, every picker hangs off exactly one node: its tuple-output producer   *)
GraphWellFormed(dd, g) ==
    /\ \A a, b \in g.nodes : a.id = b.id => a = b
    /\ \A e \in g.edges : e[1] \in Ids(g) /\ e[2] \in Ids(g)
    /\ \A n \in g.nodes : n.kind \in {"func", "picker"} /\ IsFuncName(dd, n.f)
    /\ \A p \in PickNodes(g) :
          /\ Cardinality(Preds(g, p.id)) = 1
          /\ LET q == NodeOf(g, CHOOSE x \in Preds(g, p.id) : TRUE)
             IN  q.kind = "func" /\ q.f = p.f /\ p.pick \in OutputsOf(dd, IdxOfName(dd, p.f))

(* edges with picker nodes contracted: producer -> consumer pairs of function-node ids *)
Contracted(g) ==
    LET F == {n.id : n \in FuncNodes(g)}   P == {n.id : n \in PickNodes(g)}
    IN  {e \in g.edges : e[1] \in F /\ e[2] \in F}
        \cup {<<q, c>> \in F \X F : \E p \in P : <<q, p>> \in g.edges /\ <<p, c>> \in g.edges}

(* the dependencies at the level of names: a consumer hangs off a picker only for an output it really takes   *)
(* from upstream, and every parameter a needed function takes from upstream is delivered by an edge, from the *)
(* picker of that output or directly from the producer's node                                                 *)
PickerWiringOK(dd, k, g, New) ==
    /\ \A e \in g.edges : LET a == NodeOf(g, e[1])  b == NodeOf(g, e[2])
                          IN  (a.kind = "picker" /\ b.kind = "func") =>
                                 LET i == IdxOfName(dd, b.f) IN a.pick \in ParamsOf(dd, i) /\ Source(dd, k, i, a.pick) = "up"
    /\ \A b \in {n \in FuncNodes(g) : IdxOfName(dd, n.f) \in New} : LET i == IdxOfName(dd, b.f) IN
          \A p \in {q \in ParamsOf(dd, i) : Source(dd, k, i, q) = "up"} :
             \E x \in Preds(g, b.id) : LET a == NodeOf(g, x) IN
                 \/ a.kind = "picker" /\ a.pick = p
                 \/ a.kind = "func" /\ a.f = dd.funcs[FuncOf(dd, p)].name

(* functions reached from the producer of `o` when the traversal does not look behind the functions in Stop *)
RECURSIVE Trav(_, _, _, _)
Trav(dd, k, S, Hit) == LET S2 == S \cup UNION {DirectDeps(dd, k, i) : i \in S \ Hit}
                       IN  IF S2 = S THEN S ELSE Trav(dd, k, S2, Hit)
Reach(dd, k, o, Stop) == IF Needed(dd, k, o) = {} THEN {} ELSE Trav(dd, k, {FuncOf(dd, o)}, Stop)

(* The rule, for the nodes of the evaluation regardless of when they were created.  Old: needed functions whose *)
(* node already existed when the recording started (a handle built earlier, before the construct_dag() block,   *)
(* on a pipeline with a user cache: the new call reuses the cached deferred node).  An old node is not created *)
(* under the recording, so the edges INTO it are not part of the record; everything else is as without reuse:  *)
(* every other function reached from the requested output without passing an old node has exactly one node, and *)
(* the contracted edges are exactly the dependencies whose consumer is such a node; an old node shows up only  *)
(* as the source of an edge, at most once, and never coincides with another node (unique ids, acyclic).         *)
(* full (full_output=True): the traversal goes on behind an old node, to collect the other outputs.               *)
Visited(dd, k, o, Old, full) == IF full THEN Needed(dd, k, o) ELSE Reach(dd, k, o, Old)
TaskGraphOKFor(dd, k, o, g, Old, full) ==
    LET Nd == Visited(dd, k, o, Old, full)   New == Visited(dd, k, o, Old, full) \ Old IN
    /\ GraphWellFormed(dd, g)
    /\ GraphAcyclic(g)
    (* at most one node per function of the evaluation (exactly one unless old), none for any other function *)
    /\ \A n \in FuncNodes(g) : IdxOfName(dd, n.f) \in Nd
    /\ \A i \in Nd : LET c == Cardinality({n \in FuncNodes(g) : n.f = dd.funcs[i].name}) IN c <= 1 /\ (i \in New => c = 1)
    /\ \A n \in FuncNodes(g) : IdxOfName(dd, n.f) \in Old => \E e \in g.edges : e[1] = n.id
    (* contracted edge set = dependencies (of the nodes recorded with their inputs), exactly *)
    /\ {<<IdxOfName(dd, NodeOf(g, e[1]).f), IdxOfName(dd, NodeOf(g, e[2]).f)>> : e \in Contracted(g)}
         = {e \in DepEdges(dd, k, o) : e[2] \in New}
    /\ PickerWiringOK(dd, k, g, New)
TaskGraphOK(dd, k, o, g) == TaskGraphOKFor(dd, k, o, g, {}, FALSE)

(* a pipeline-level user cache (optional field cache_type of the description).  Which nodes it keeps is not      *)
(* constrained here: cache=True functions, and under an active construct_dag() every function (`use_cache = ... *)
(* or task_graph() is not None` in Pipeline._run stores each node in the cache in use), so Cached ignores the    *)
(* per-function flag.                                                                                            *)
UserCache(dd) == "cache_type" \in DOMAIN dd /\ dd.cache_type # ""
Cached(dd, i) == UserCache(dd)
(* Which cache a call made inside a construct_dag() block works on (Pipeline._current_cache): the pipeline's own only   *)
(* when that is of the kind the block itself keeps ("simple": a plain store of the deferred nodes); for every other     *)
(* kind (lru, hybrid, disk) the block's own cache, which is empty when the block starts.  So only with a "simple" user  *)
(* cache can a node created BEFORE the block take part in a handle built inside it; with any other kind the recording   *)
(* is complete: every task of the evaluation is created - and recorded, with its edges - inside the block.              *)
BlockCacheKind == "simple"
OwnCacheInBlock(dd) == UserCache(dd) /\ dd.cache_type = BlockCacheKind
(* with M = the invocations made for earlier handles: which needed functions MAY be old is the cache's business  *)
(* (don't-care), but only a cached function invoked before with identical resolved arguments can be, and only    *)
(* when the block works on the cache that holds it                                                             *)
MayBeOld(dd, k, o, M) == {i \in Needed(dd, k, o) : Cached(dd, i) /\ OwnCacheInBlock(dd) /\ <<i, ArgsOf(dd, k, i)>> \in M}
TaskGraphOKReuse(dd, k, o, g, M, full) == \E Old \in SUBSET MayBeOld(dd, k, o, M) : TaskGraphOKFor(dd, k, o, g, Old, full)

(* The shape lazy.py records today, for documentation and for exercising TaskGraphOK in the model: one node  *)
(* per needed function (id = its index), one picker per output name of every needed tuple-output function     *)
(* whose name was not supplied (whether or not anything consumes it), producer -> picker -> consumer.         *)
(* TaskGraphOK, not this shape, is the requirement.                                                           *)
Multi(dd, i)     == Len(dd.funcs[i].outputs) > 1
(* position of output name n in the concatenation of all output tuples: a unique number per output name *)
RECURSIVE OutPos(_, _, _)
OutPos(dd, n, i) == IF n \in OutputsOf(dd, i)
                    THEN CHOOSE m \in DOMAIN dd.funcs[i].outputs : dd.funcs[i].outputs[m] = n
                    ELSE Len(dd.funcs[i].outputs) + OutPos(dd, n, i + 1)
PId(dd, n)       == NF(dd) + OutPos(dd, n, 1)
(* Hit: needed functions answered from the user cache; the traversal from the requested output stops there.   *)
ReferenceGraphFor(dd, k, o, Hit, full) ==
    LET Tr    == Visited(dd, k, o, Hit, full)
        New   == Tr \ Hit
        picks == {n \in AllOutputs(dd) : FuncOf(dd, n) \in Tr /\ Multi(dd, FuncOf(dd, n)) /\ ~PHas(k, n)}
        fnode(i) == [id |-> i, kind |-> "func", f |-> dd.funcs[i].name, pick |-> ""]
        pnode(n) == [id |-> PId(dd, n), kind |-> "picker", f |-> dd.funcs[FuncOf(dd, n)].name, pick |-> n]
        ups(i)   == {p \in ParamsOf(dd, i) : Source(dd, k, i, p) = "up"}
        edges    == {<<FuncOf(dd, n), PId(dd, n)>> : n \in picks}
                    \cup UNION {{IF p \in picks THEN <<PId(dd, p), i>> ELSE <<FuncOf(dd, p), i>> : p \in ups(i)} : i \in New}
    IN  [nodes |-> {fnode(i) : i \in New} \cup {fnode(i) : i \in {j \in Tr \cap Hit : \E e \in edges : e[1] = j}}
                   \cup {pnode(n) : n \in picks},
         edges |-> edges]
ReferenceGraph(dd, k, o) == ReferenceGraphFor(dd, k, o, {}, FALSE)

---------------------------------------------------------------------------
(* How the pipeline object was obtained (assembly).                                                                          *)
(* `lazy` is a setting of the pipeline OBJECT (Pipeline.__init__(lazy=)), and the pipeline that is called need not have been *)
(* constructed directly: it may be DERIVED from pipelines that exist.  Optional fields of a description: `asm` for the        *)
(* pipeline under call (absent: Pipeline(d.funcs, lazy=True)), `easm` for its eager twin (absent: Pipeline(d.funcs)).        *)
(*                                                                                                                           *)
(*   code                                        | an assembly  [op, parts, post]                                            *)
(*   --------------------------------------------+-------------------------------------------------------------------------- *)
(*   Pipeline(k functions, lazy=b)               | a part [kind |-> "pipeline", n |-> k, lazy |-> b]: the next k functions   *)
(*                                               |   of the listing d.funcs (the parts, concatenated, are the listing)      *)
(*   a bare PipeFunc, joined as it is            | a part [kind |-> "func", n |-> 1, lazy |-> FALSE] (it has no settings)    *)
(*   the only part, used as constructed          | op = "direct"                                                            *)
(*   p1.join(p2, .., pk)                         | op = "join": ONE derivation, receiver p1                  (Pipeline.join)  *)
(*   p1 | p2 | .. | pk                           | op = "or"  : k-1 derivations, the receiver of each is the result so far   *)
(*                                               |              (Pipeline.__or__ = self.join(other), left-associative)       *)
(*   .copy() / .copy(lazy=True) / (lazy=False)   | post: <<.., "copy" / "copy_lazy" / "copy_eager", ..>> applied in order     *)
(*                                               |                                                          (Pipeline.copy)  *)
(* Every derivation is a copy of its receiver (Pipeline.join ends in self.copy(functions = all the functions, ...)): the     *)
(* derived pipeline has the receiver's settings - `lazy` among them - except those the derivation states explicitly, and the *)
(* functions the derivation collects.  So C18 speaks about every pipeline whose assembly yields lazy = TRUE (PipelineIsLazy), *)
(* however it was put together: LBegin - the call that returns a deferred handle and invokes nothing - is the ONLY way such a *)
(* pipeline can be called, and a pipeline whose assembly yields FALSE is an eager one (PipelineCall).                         *)
(* Don't-care (not in the universe of MC_PipelineLazy): an eager receiver that collects the functions of lazy pipelines.     *)
CopyKinds == {"copy", "copy_lazy", "copy_eager"}
(* Pipeline.copy with an update: the receiver's settings, overridden by what the update states *)
CopyFlag(b, upd) == CASE upd = "copy" -> b  []  upd = "copy_lazy" -> TRUE  []  upd = "copy_eager" -> FALSE
(* Pipeline.join(self, *others) = self.copy(functions = ...): whatever the others are (flags: a sequence), they only contribute functions *)
JoinFlag(recv, others) == CopyFlag(recv, "copy")
(* p1 | p2 | .. | pk over the first k parts *)
RECURSIVE OrFlag(_, _)
OrFlag(parts, k) == IF k = 1 THEN parts[1].lazy ELSE JoinFlag(OrFlag(parts, k - 1), <<parts[k].lazy>>)
RECURSIVE PostFlag(_, _, _)
PostFlag(b, post, k) == IF k = 0 THEN b ELSE CopyFlag(PostFlag(b, post, k - 1), post[k])
AsmFlag(a) == LET k == Len(a.parts)
                  joined == CASE a.op = "direct" -> a.parts[1].lazy
                              [] a.op = "join"   -> JoinFlag(a.parts[1].lazy, [i \in 1..(k - 1) |-> a.parts[i + 1].lazy])
                              [] a.op = "or"     -> OrFlag(a.parts, k)
              IN  PostFlag(joined, a.post, Len(a.post))
RECURSIVE PartsLen(_, _)
PartsLen(parts, k) == IF k = 0 THEN 0 ELSE parts[k].n + PartsLen(parts, k - 1)
(* an assembly of a pipeline of n functions: the parts cover the listing, the receiver is a pipeline, a bare function is one function *)
AsmWellFormed(a, n) == /\ Len(a.parts) >= 1 /\ PartsLen(a.parts, Len(a.parts)) = n
                       /\ a.op \in {"direct", "join", "or"} /\ (a.op = "direct" <=> Len(a.parts) = 1)
                       /\ a.parts[1].kind = "pipeline"
                       /\ \A i \in 1..Len(a.parts) : /\ a.parts[i].kind \in {"pipeline", "func"} /\ a.parts[i].n >= 1
                                                     /\ a.parts[i].lazy \in BOOLEAN
                                                     /\ (a.parts[i].kind = "func" => (a.parts[i].n = 1 /\ ~a.parts[i].lazy))
                       /\ \A j \in 1..Len(a.post) : a.post[j] \in CopyKinds
(* the pipeline under call / its eager twin, as objects: is it a lazy pipeline? *)
PipelineIsLazy(dd) == IF "asm" \in DOMAIN dd THEN AsmWellFormed(dd.asm, NF(dd)) /\ AsmFlag(dd.asm) ELSE TRUE
TwinIsLazy(dd)     == IF "easm" \in DOMAIN dd THEN ~AsmWellFormed(dd.easm, NF(dd)) \/ AsmFlag(dd.easm) ELSE FALSE

---------------------------------------------------------------------------
(* Actions.  Eager calls of PipelineCall stay available when no handle is alive (the eager twin).             *)

LReset  == /\ phase' = "idle" /\ out' = "" /\ kw' = <<>> /\ mode' = "call" /\ done' = {} /\ UNCHANGED d
           /\ lazy' = FALSE /\ dag' = FALSE /\ nev' = 0 /\ count' = Zero(d) /\ val' = NoVal /\ graph' = NoGraph
           /\ nfail' = Zero(d) /\ nfe' = 0 /\ bad' = 0 /\ UNCHANGED <<flt, eflt>>       \* the functions keep their fault plans
(* the handle is gone and so is the construct_dag() block, if any; what the pipeline's own cache holds stays *)
Invoked == {<<i, ArgsOf(d, kw, i)>> : i \in done}
LFinish == LReset /\ memo' = {x \in memo \cup Invoked : Cached(d, x[1])} /\ nh' = 0

(* pipeline(o, **k) is entered on a lazy pipeline; g: under construct_dag() (necessarily so inside an open block) *)
(* (only a pipeline that IS lazy, however it was assembled, hands out deferred handles - and it never does anything else) *)
LBegin(o, k, m, g) == /\ phase = "idle" /\ ~lazy /\ (nh > 0 => g)
                      /\ PipelineIsLazy(d)
                      /\ phase' = "building" /\ out' = o /\ kw' = k /\ mode' = m /\ done' = {} /\ UNCHANGED d
                      /\ lazy' = TRUE /\ dag' = g /\ nev' = 0 /\ count' = Zero(d) /\ val' = NoVal /\ graph' = NoGraph
                      /\ nfail' = Zero(d) /\ nfe' = 0 /\ bad' = 0
                      /\ UNCHANGED <<memo, nh, flt, eflt>>

(* the call returns a deferred handle.  No Call step is enabled in phase "building": no user function runs.     *)
(* Don't-care: inside a construct_dag() block that already served a handle (nh > 0), or on a pipeline with a   *)
(* user cache that already served one (memo # {}), results may come from the cache, and for those the code documents that it cannot tell which keywords were used ("result was   *)
(* from cache, so we don't know which parameters were used", Pipeline.run): a surplus keyword may then be       *)
(* accepted silently instead of refused; the handle's value is still Eval, which ignores keywords it does not  *)
(* consult.                                                                                                     *)
Build == /\ lazy /\ phase = "building"
         /\ Defined(d, kw, out) /\ ((nh = 0 /\ memo = {}) => StrictSurplus(d, kw, out) = {}) /\ ~PHas(kw, out)
         /\ phase' = "built"
         /\ UNCHANGED <<d, out, kw, mode, done, lvars>>
(* argument errors are detected while building, as in eager mode, and equally without running anything *)
BuildRaiseUnused         == lazy /\ phase = "building" /\ Surplus(d, kw, out) # {} /\ Defined(d, kw, out) /\ LFinish
BuildRaiseMissing        == lazy /\ phase = "building" /\ ~Defined(d, kw, out) /\ LFinish
BuildRaiseOutputSupplied == lazy /\ phase = "building" /\ PHas(kw, out) /\ LFinish

(* needed functions whose identical invocation was already made (and completed) for an earlier handle of the open block *)
Reused  == {j \in Needed(d, kw, out) : <<j, ArgsOf(d, kw, j)>> \in memo}
(* Call of PipelineCall, except that a dependency may also be satisfied by a reused node *)
SharedCall(i, args) == /\ phase = "running"
                       /\ i \in Needed(d, kw, out) \ done
                       /\ DirectDeps(d, kw, i) \subseteq done \cup Reused
                       /\ \A p \in ParamsOf(d, i) : Source(d, kw, i, p) # "missing"
                       /\ args = ArgsOf(d, kw, i)
                       /\ done' = done \cup {i}
                       /\ UNCHANGED <<d, phase, out, kw, mode>>
(* what has to run: everything reached from the requested output without looking behind a reused node         *)
(* (full_output: everything needed that is not reused, since every output is delivered)                        *)
MustRun  == Visited(d, kw, out, Reused, mode = "full") \ Reused
(* everything that has to run ran, nothing but needed functions ran (memo = {}: done = Needed) *)
Complete == done \subseteq Needed(d, kw, out) /\ MustRun \subseteq done

(* evaluate() while none has returned yet (the first one, or one after evaluate() calls that raised): the Call steps of *)
(* PipelineCall (needed, not yet done, after its dependencies, resolved arguments)                                      *)
EvalBegin == /\ lazy /\ phase = "built" /\ nev = 0
             /\ phase' = "running"
             /\ UNCHANGED <<d, out, kw, mode, done, lvars>>
(* the invocation completes (the function's fault plan lets it) *)
LCall(i, args) == /\ lazy /\ ~Fails(flt, i)
                  /\ IF memo = {} THEN Call(i, args) ELSE SharedCall(i, args)
                  /\ count' = [count EXCEPT ![i] = @ + 1]
                  /\ UNCHANGED <<lazy, dag, nev, val, graph, memo, nh, fvars>>
(* The invocation raises.  It IS an invocation (made when LCall could be made: needed, not done, after its             *)
(* dependencies, with the resolved arguments) and it is counted, but it completes nothing: `done` stays, no other     *)
(* function is invoked any more by this evaluate() (phase "failed": no Call step), which ends by raising (EvalRaise). *)
(* lz: on the lazy pipeline (dependencies may be reused nodes) / on the eager twin.                                     *)
Ready(i, args, lz) == /\ phase = "running"
                      /\ i \in Needed(d, kw, out) \ done
                      /\ DirectDeps(d, kw, i) \subseteq done \cup (IF lz THEN Reused ELSE {})
                      /\ \A p \in ParamsOf(d, i) : Source(d, kw, i, p) # "missing"
                      /\ args = ArgsOf(d, kw, i)
LCallFail(i, args) == /\ lazy /\ Fails(flt, i)
                      /\ Ready(i, args, TRUE)
                      /\ phase' = "failed" /\ bad' = i
                      /\ count' = [count EXCEPT ![i] = @ + 1] /\ nfail' = [nfail EXCEPT ![i] = @ + 1]
                      /\ flt' = Spend(flt, i)
                      /\ UNCHANGED <<d, out, kw, mode, done, lazy, dag, nev, val, graph, memo, nh, eflt, nfe>>
(* evaluate() raises the exception of function i = bad.  The handle is back where it was before this evaluate(),       *)
(* except for the nodes that completed: no value (nev, val unchanged), nothing "evaluated" that did not complete.      *)
EvalRaise(i) == /\ lazy /\ phase = "failed" /\ i = bad
                /\ phase' = "built" /\ bad' = 0 /\ nfe' = nfe + 1
                /\ UNCHANGED <<d, out, kw, mode, done, lazy, dag, nev, count, val, graph, memo, nh, flt, eflt, nfail>>
FullValue(dd, k, o) == {<<n, ValOf(dd, k, n)>> : n \in FullOutputNames(dd, k, o)}
EvalReturn(v) == /\ lazy /\ phase = "running" /\ mode = "call"
                 /\ Complete                                   \* memo = {}: done = Needed
                 /\ v = Eval(d, kw, out)
                 /\ phase' = "built" /\ nev' = 1 /\ val' = v
                 /\ UNCHANGED <<d, out, kw, mode, done, lazy, dag, count, graph, memo, nh, fvars>>
(* full_output: a dictionary of deferred objects, evaluated together (evaluate_lazy on the dictionary) *)
EvalReturnFull(pairs) == /\ lazy /\ phase = "running" /\ mode = "full"
                         /\ Complete
                         /\ pairs = FullValue(d, kw, out)
                         /\ phase' = "built" /\ nev' = 1 /\ val' = Eval(d, kw, out)
                         /\ UNCHANGED <<d, out, kw, mode, done, lazy, dag, count, graph, memo, nh, fvars>>
(* any evaluate() after one that returned: one step, never passing through "running": no Call at all, the same value *)
ReEvaluate(v) == /\ lazy /\ phase = "built" /\ nev >= 1 /\ mode = "call"
                 /\ v = Eval(d, kw, out)
                 /\ nev' = nev + 1 /\ val' = v
                 /\ UNCHANGED <<cvars, lazy, dag, count, graph, memo, nh, fvars>>
ReEvaluateFull(pairs) == /\ lazy /\ phase = "built" /\ nev >= 1 /\ mode = "full"
                         /\ pairs = FullValue(d, kw, out)
                         /\ nev' = nev + 1
                         /\ UNCHANGED <<cvars, lazy, dag, count, val, graph, memo, nh, fvars>>
(* the graph recorded under construct_dag(), observed at any time after the (first) handle of the block exists; *)
(* memo = {}: TaskGraphOK.  Nodes cached by an earlier handle (built before the block) may take part           *)
Graph(g) == /\ lazy /\ dag /\ phase = "built" /\ nh = 0
            /\ TaskGraphOKReuse(d, kw, out, g, memo, mode = "full")
            /\ graph' = g
            /\ UNCHANGED <<cvars, lazy, dag, nev, count, val, memo, nh, fvars>>
(* the handle is dropped (and its construct_dag() block left), evaluated or not, also after evaluate() calls that raised *)
LEnd == lazy /\ phase = "built" /\ LFinish
(* the handle is dropped but its construct_dag() block stays open for a further call; the block keeps the nodes that     *)
(* completed (Invoked: i \in done), never one whose invocation raised                                                     *)
LDropKeep == /\ lazy /\ dag /\ phase = "built"
             /\ LReset
             /\ memo' = memo \cup Invoked /\ nh' = nh + 1
(* the block is left without a live handle *)
CloseBlock == /\ ~lazy /\ phase = "idle" /\ nh > 0
              /\ nh' = 0 /\ memo' = {x \in memo : Cached(d, x[1])}
              /\ UNCHANGED <<cvars, lazy, dag, nev, count, val, graph, fvars>>

(* The with construct_dag() statement is left.  It may be left normally or through an exception: the one of a call that *)
(* was refused inside it (BuildRaise*: the handle never existed), the one of a user function that evaluate() let through  *)
(* (EvalRaise: the handle is still there, phase "built"), or one the body raised itself.  The manner does not matter:     *)
(* no block is active afterwards (act: lazy.task_graph() still reports one - never), the handles of the block that were   *)
(* dropped inside it are forgotten (CloseBlock), a live handle stays what it was (it can be evaluated, retried, its graph *)
(* observed, after the block just as inside: the "built" case changes nothing), and whatever is called next is called    *)
(* outside a block (nh = 0: LBegin with g = FALSE is enabled, the eager twin may be called).                             *)
BlockLeft(act) == /\ phase \in {"idle", "built"} /\ ~act
                  /\ IF nh > 0 THEN CloseBlock ELSE UNCHANGED allvars

(* eager calls (PipelineCall) while no handle is alive and no block is open *)
Eager(A) == ~lazy /\ nh = 0 /\ A /\ UNCHANGED lvars
(* A block is active exactly from entering a with construct_dag() statement to leaving it: what the library sees when a  *)
(* call is made (act: lazy.task_graph() is not None) is what the caller arranged (g) - in particular a call made after a *)
(* block was left, however it was left, is not made under that block, and an eager call (made outside any block) sees none *)
LBeginObs(o, k, m, g, act) == act = g /\ LBegin(o, k, m, g)
EagerBeginObs(o, k, m, act) == ~act /\ ~TwinIsLazy(d) /\ Eager(Begin(o, k, m))
(* the eager twin under its fault plan: an invocation completes (ECall) or raises (ECallFail), and then the call raises *)
(* that exception (ERaise) and leaves nothing behind: a further eager call starts from scratch (PipelineCall!Begin).    *)
ECall(i, args)     == ~Fails(eflt, i) /\ Eager(Call(i, args))
ECallFail(i, args) == /\ ~lazy /\ nh = 0 /\ Fails(eflt, i)
                      /\ Ready(i, args, FALSE)
                      /\ phase' = "failed" /\ bad' = i /\ eflt' = Spend(eflt, i)
                      /\ UNCHANGED <<d, out, kw, mode, done, lazy, dag, nev, count, val, graph, memo, nh, flt, nfail, nfe>>
ERaise(i)          == /\ ~lazy /\ phase = "failed" /\ i = bad
                      /\ Finish /\ bad' = 0
                      /\ UNCHANGED <<lazy, dag, nev, count, val, graph, memo, nh, flt, eflt, nfail, nfe>>

---------------------------------------------------------------------------
(* Invariants (C18) *)
NothingBeforeEvaluate == (lazy /\ (phase = "building" \/ (phase = "built" /\ nev = 0 /\ nfe = 0))) =>
                             (done = {} /\ \A i \in FIdx(d) : count[i] = 0)
(* at most one COMPLETED invocation per node; an invocation that raised ended the evaluate() it was made for *)
AtMostOncePerNode     == \A i \in FIdx(d) : Ran(i) <= 1
(* exactly once for every needed function, however often evaluate() was called (reused nodes of a shared block: don't-care) *)
ExactlyOnceNeeded     == (lazy /\ nev >= 1) => \A i \in FIdx(d) :
                             /\ (i \notin Needed(d, kw, out) => count[i] = 0)
                             /\ (i \in MustRun => Ran(i) = 1)
CountIsDone           == lazy => \A i \in FIdx(d) : Ran(i) = IF i \in done THEN 1 ELSE 0
ValueIsEval           == (lazy /\ nev >= 1) => val = Eval(d, kw, out)
(* every invocation that raised ended exactly one evaluate(): no function is invoked after a failure within the same      *)
(* evaluate(), and an evaluate() raises only because an invocation did                                                    *)
FailuresAccounted     == lazy => SumTo(nfail, NF(d)) = nfe + (IF phase = "failed" THEN 1 ELSE 0)
(* evaluate() calls that raised leave no value behind, and a value is there only when everything that had to run completed *)
NoValueFromFailure    == /\ (lazy /\ nev = 0) => val = NoVal
                         /\ (lazy /\ nev >= 1) => (MustRun \subseteq done /\ \A i \in MustRun : flt[i] = 0)
GraphIsOK             == (lazy /\ graph # NoGraph) => (dag /\ nh = 0 /\ TaskGraphOKReuse(d, kw, out, graph, memo, mode = "full"))
LazyTypeOK            == /\ phase \in {"idle", "building", "built", "running", "failed"}
                         /\ lazy \in BOOLEAN /\ dag \in BOOLEAN /\ nev \in Nat /\ nh \in Nat /\ nfe \in Nat
                         /\ (~lazy => (phase \in {"idle", "running", "failed"} /\ ~dag /\ nev = 0 /\ val = NoVal /\ graph = NoGraph
                                       /\ nfe = 0 /\ nfail = Zero(d)))
                         /\ ((nh = 0 /\ ~UserCache(d)) => memo = {}) /\ ((lazy /\ nh > 0) => dag)
                         /\ ((~lazy /\ nh = 0) => \A x \in memo : Cached(d, x[1]))
                         /\ (phase = "failed" <=> bad # 0) /\ bad \in 0..NF(d)
                         /\ \A i \in FIdx(d) : flt[i] >= -1 /\ eflt[i] >= -1 /\ nfail[i] \in Nat /\ nfail[i] <= count[i]
=============================================================================
