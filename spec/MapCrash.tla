------------------------------ MODULE MapCrash ------------------------------
(***************************************************************************)
(* File-system level model of a map run into a run folder, of the death of *)
(* the process between any two operations that reach the OS, and of the    *)
(* resumed run (cleanup=False).  (pipefunc/_utils.py dump, map/_run_info.py*)
(* RunInfo.__post_init__ / _compare_to_previous_run_info, map/_run.py      *)
(* _execute_single / _existing_and_missing_indices, FileArray.)            *)
(*                                                                         *)
(* Files: the run info, the (one) input file, N element files of a mapped  *)
(* output and the single file of a reduction over them.  A file is absent, *)
(* partial (created/truncated, or torn write) or complete.  The only       *)
(* completion marker the code has for an element is the EXISTENCE of its   *)
(* file.                                                                   *)
(*                                                                         *)
(* Switches (the model is implementation-shaped so that TLC exhibits the   *)
(* design bugs; the property is claimed for the repaired setting):         *)
(*   Atomic    - dump() writes a temporary file and renames it over the    *)
(*               target (repaired) vs open-truncate-then-write (original)  *)
(*   InfoLast  - run_info.json is written after the input files (repaired) *)
(*               vs before them (original)                                 *)
(***************************************************************************)
EXTENDS Naturals, Sequences, FiniteSets, TLC
CONSTANTS N, MaxCrashes, Atomic, InfoLast

Elems == 1..N
EF(k) == "e" \o ToString(k)
Files == {"info", "input", "single"} \cup {EF(k) : k \in Elems}

VARIABLES disk,      \* [Files -> {"absent", "partial", "complete"}]
          tmp,       \* [Files -> ...] state of the temporary sibling of each file (Atomic only)
          pc,        \* remaining steps of the running process (a sequence of step records), <<>> = finished
          computed,  \* elements computed (user function invoked) in the current run
          mustNot,   \* elements that were complete on disk when the current run started
          crashes, outcome
vars == <<disk, tmp, pc, computed, mustNot, crashes, outcome>>

(* the write protocol of dump(f): a list of primitive steps *)
WriteSteps(f) == IF Atomic THEN <<[op |-> "tmp_open", f |-> f], [op |-> "tmp_write", f |-> f], [op |-> "replace", f |-> f]>>
                 ELSE <<[op |-> "open", f |-> f], [op |-> "write", f |-> f]>>
RECURSIVE ElemSteps(_)
ElemSteps(k) == IF k > N THEN <<>> ELSE <<[op |-> "elem", f |-> EF(k), k |-> k]>> \o ElemSteps(k + 1)
Program == <<[op |-> "compare", f |-> "info"]>>
           \o (IF InfoLast THEN WriteSteps("input") \o WriteSteps("info") ELSE WriteSteps("info") \o WriteSteps("input"))
           \o ElemSteps(1)
           \o <<[op |-> "single", f |-> "single"], [op |-> "return", f |-> "single"]>>

Init == /\ disk = [f \in Files |-> "absent"] /\ tmp = [f \in Files |-> "absent"]
        /\ pc = Program /\ computed = {} /\ mustNot = {} /\ crashes = 0 /\ outcome = "none"

Advance(rest) == pc' = rest
Err(what) == outcome' = what /\ pc' = <<>>

Step ==
    /\ pc # <<>> /\ outcome = "none"
    /\ LET s == Head(pc)  rest == Tail(pc) IN
       CASE s.op = "compare" ->
              (* _compare_to_previous_run_info: only if run_info.json exists; loads it and every input file *)
              IF disk["info"] = "absent" THEN Advance(rest) /\ UNCHANGED <<disk, tmp, computed, outcome>>
              ELSE IF disk["info"] = "partial" \/ disk["input"] # "complete"
                   THEN Err("error") /\ UNCHANGED <<disk, tmp, computed>>
                   ELSE Advance(rest) /\ UNCHANGED <<disk, tmp, computed, outcome>>
         [] s.op = "open"      -> disk' = [disk EXCEPT ![s.f] = "partial"] /\ Advance(rest) /\ UNCHANGED <<tmp, computed, outcome>>
         [] s.op = "write"     -> disk' = [disk EXCEPT ![s.f] = "complete"] /\ Advance(rest) /\ UNCHANGED <<tmp, computed, outcome>>
         [] s.op = "tmp_open"  -> tmp' = [tmp EXCEPT ![s.f] = "partial"] /\ Advance(rest) /\ UNCHANGED <<disk, computed, outcome>>
         [] s.op = "tmp_write" -> tmp' = [tmp EXCEPT ![s.f] = "complete"] /\ Advance(rest) /\ UNCHANGED <<disk, computed, outcome>>
         [] s.op = "replace"   -> disk' = [disk EXCEPT ![s.f] = tmp[s.f]] /\ tmp' = [tmp EXCEPT ![s.f] = "absent"]
                                  /\ Advance(rest) /\ UNCHANGED <<computed, outcome>>
         [] s.op = "elem" ->
              (* existence of the file is the completion marker *)
              IF disk[s.f] # "absent" THEN Advance(rest) /\ UNCHANGED <<disk, tmp, computed, outcome>>
              ELSE computed' = computed \cup {s.k} /\ pc' = WriteSteps(s.f) \o rest /\ UNCHANGED <<disk, tmp, outcome>>
         [] s.op = "single" ->
              (* the reduction loads every element; a partial element file cannot be unpickled (or is garbage) *)
              IF \E k \in Elems : disk[EF(k)] = "partial" THEN Err("served_partial") /\ UNCHANGED <<disk, tmp, computed>>
              ELSE IF disk["single"] = "partial" THEN Err("served_partial") /\ UNCHANGED <<disk, tmp, computed>>
              ELSE IF disk["single"] = "complete" THEN Advance(rest) /\ UNCHANGED <<disk, tmp, computed, outcome>>
              ELSE pc' = WriteSteps("single") \o rest /\ UNCHANGED <<disk, tmp, computed, outcome>>
         [] s.op = "return" -> outcome' = "ok" /\ pc' = <<>> /\ UNCHANGED <<disk, tmp, computed>>
    /\ UNCHANGED <<mustNot, crashes>>

(* the process dies; only the disk survives; the run is started again with cleanup=False *)
Crash == /\ pc # <<>> /\ outcome = "none" /\ crashes < MaxCrashes
         /\ crashes' = crashes + 1 /\ pc' = Program /\ computed' = {}
         /\ mustNot' = {k \in Elems : disk[EF(k)] = "complete"}
         /\ UNCHANGED <<disk, tmp, outcome>>

Next == Step \/ Crash
Spec == Init /\ [][Next]_vars
FairSpec == Spec /\ WF_vars(Step)

ResumeOK         == outcome # "error"
NoPartialServed  == outcome # "served_partial"
NoRecompute      == computed \cap mustNot = {}
ResultComplete   == outcome = "ok" => \A f \in Files : disk[f] = "complete"
Terminates       == <>(outcome = "ok")
=============================================================================
