------------------------------ MODULE MapFixed ------------------------------
(* fixed_indices (C06): which positions a partial run selects, and which requests are rejected.                    *)
(* A raw key is <<kind, a, b, c>>: <<"int", v, 0, 0>> or <<"slice", start, stop, step>> with NoneMark for None.   *)
EXTENDS MapDenote
NoneMark == 1000000

(* CPython's slice.indices(n) followed by range(): the sequence of selected indices *)
SliceIndices(start, stop, step, n) ==
    LET st == IF step = NoneMark THEN 1 ELSE step
        lo == IF st > 0 THEN 0 ELSE -1
        hi == IF st > 0 THEN n ELSE n - 1
        Clamp(x) == LET y == IF x < 0 THEN x + n ELSE x IN IF y < lo THEN lo ELSE IF y > hi THEN hi ELSE y
        s  == IF start = NoneMark THEN (IF st > 0 THEN lo ELSE hi) ELSE Clamp(start)
        e  == IF stop = NoneMark THEN (IF st > 0 THEN hi ELSE lo) ELSE Clamp(stop)
        RECURSIVE R(_)
        R(x) == IF (st > 0 /\ x < e) \/ (st < 0 /\ x > e) THEN <<x>> \o R(x + st) ELSE <<>>
    IN  R(s)

KeyIndices(key, n) ==
    IF key[1] = "int" THEN <<IF key[2] < 0 THEN key[2] + n ELSE key[2]>>
    ELSE SliceIndices(key[2], key[3], key[4], n)
KeyInRange(key, n) == key[1] # "int" \/ (key[2] >= -n /\ key[2] < n)      \* out-of-range slices select nothing

(* axis bookkeeping over a description *)
(* F = the functions of the run (the whole pipeline, or the sub-pipeline that output_names / provided intermediates select): *)
(* a request is judged against the functions that actually run                                                          *)
FuncsWithAxisF(d, F, a) == {i \in F : HasMapInputs(d.funcs[i]) /\ a \in InputAxisNames(d.funcs[i])}
FuncsWithAxis(d, a) == FuncsWithAxisF(d, FIdx(d), a)
AxisKnown(d, a)     == FuncsWithAxis(d, a) # {}
AxisSizeOf(d, env, a) == AxisSize(d, env, CHOOSE i \in FuncsWithAxis(d, a) : TRUE, a)
(* axes of the array named x (as its producer / first consumer names them) *)
ArrayAxes(d, x) ==
    IF FuncOf(d, x) # 0 /\ d.funcs[FuncOf(d, x)].has_ms THEN OutAxes(d.funcs[FuncOf(d, x)])
    ELSE LET users == {i \in FIdx(d) : HasMapInputs(d.funcs[i]) /\ x \in InSpecNames(d.funcs[i])} IN
         IF users = {} THEN <<>> ELSE
         LET RECURSIVE Merge(_, _)
             Merge(S, acc) == IF S = {} THEN acc ELSE
                 LET i == CHOOSE j \in S : TRUE  ax == InSpecOf(d.funcs[i], x).axes
                 IN  Merge(S \ {i}, [k \in DOMAIN ax |-> IF k \in DOMAIN acc /\ acc[k] # ":" THEN acc[k] ELSE ax[k]])
         IN  Merge(users, <<>>)
(* axis a of array x is reduced: some function takes x whole, or with ':' at a's position *)
ReducedAxesF(d, F) ==
    UNION {UNION {
        IF x \in ParamsOf(d, i) /\ ~IsBound(d, i, x) /\ ~IsMappedParam(d.funcs[i], x)
        THEN {ArrayAxes(d, x)[k] : k \in DOMAIN ArrayAxes(d, x)}
        ELSE IF IsMappedParam(d.funcs[i], x)
        THEN {ArrayAxes(d, x)[k] : k \in {m \in DOMAIN ArrayAxes(d, x) : m \in DOMAIN InSpecOf(d.funcs[i], x).axes
                                                                        /\ InSpecOf(d.funcs[i], x).axes[m] = ":"}}
        ELSE {} : i \in F} : x \in AllParams(d) \cup AllOutputs(d)} \ {":"}
ReducedAxes(d) == ReducedAxesF(d, FIdx(d))

(* raw = sequence of <<axis, key>> *)
ValidFixedF(d, env, F, raw) ==
    \A k \in DOMAIN raw :
        /\ FuncsWithAxisF(d, F, raw[k][1]) # {}
        /\ raw[k][1] \notin ReducedAxesF(d, F)
        /\ KeyInRange(raw[k][2], AxisSizeOf(d, env, raw[k][1]))
ValidFixed(d, env, raw) == ValidFixedF(d, env, FIdx(d), raw)
Resolve(d, env, raw) == [k \in DOMAIN raw |-> <<raw[k][1], KeyIndices(raw[k][2], AxisSizeOf(d, env, raw[k][1]))>>]
=============================================================================
