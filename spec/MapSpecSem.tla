----------------------------- MODULE MapSpecSem -----------------------------
(***************************************************************************)
(* The MapSpec index algebra of pipefunc (pipefunc/map/_mapspec.py):       *)
(* abstract syntax, well-formedness, the text grammar at TOKEN level,      *)
(* shapes, the linear-index <-> key maps, rename / add_axes, and the laws  *)
(* that tie them together (property C08).                                  *)
(*                                                                         *)
(* The module has no CONSTANTS and no VARIABLES: every operator is a pure  *)
(* function of its arguments, so other specifications (the map-run model)  *)
(* can EXTEND it or  MS == INSTANCE MapSpecSem  without any substitution.  *)
(*                                                                         *)
(* Abstract syntax (as in DESIGN.md 3.2)                                   *)
(*   ArraySpec  [name |-> String, axes |-> Seq(String)]                    *)
(*              an axis is an index name or COLON (Python: None, ':')      *)
(*   MapSpec    [ins |-> Seq(ArraySpec), outs |-> Seq(ArraySpec)]          *)
(*                                                                         *)
(* TLA+ never looks inside a string.  Which strings are Python identifiers *)
(* is therefore an argument, the LEXICON                                   *)
(*   L = [idents |-> set of identifiers,                                   *)
(*        scoped |-> set of strings "scope.name" with both parts idents]   *)
(* and the text grammar is stated over token sequences; the harness turns  *)
(* tokens into characters (every token is its own text, the token WS is    *)
(* rendered as an arbitrary non-empty whitespace run).                     *)
(*                                                                         *)
(* Shape() takes the shapes per input POSITION (Seq of Seq of Nat); the    *)
(* code takes MAPPINGS keyed by name: ShapeNamed / Presentations give the  *)
(* mappings in every insertion order, and the harness builds exactly those *)
(* dicts.  Keys are sequences of integers, ALL (-1) stands for the full    *)
(* slice.  Linear indices are 0-based as in the code.                      *)
(***************************************************************************)
EXTENDS Naturals, Integers, Sequences, FiniteSets

COLON == ":"
WS    == " "          \* the whitespace token (a non-empty whitespace run)
ALL   == -1           \* key component: slice(None)

---------------------------------------------------------------------------
(* Sequence helpers (names chosen not to clash with other modules). *)
SeqElems(s)    == {s[i] : i \in DOMAIN s}
SeqDistinct(s) == \A i, j \in DOMAIN s : i # j => s[i] # s[j]
FirstPos(s, x) == CHOOSE i \in DOMAIN s : s[i] = x /\ \A j \in 1..(i - 1) : s[j] # x

RECURSIVE SeqProduct(_)
SeqProduct(s) == IF s = <<>> THEN 1 ELSE Head(s) * SeqProduct(Tail(s))

RECURSIVE SeqSum(_)
SeqSum(s) == IF s = <<>> THEN 0 ELSE Head(s) + SeqSum(Tail(s))

RECURSIVE ConcatAll(_)                      \* <<s1, s2, ...>> -> s1 \o s2 \o ...
ConcatAll(ss) == IF ss = <<>> THEN <<>> ELSE Head(ss) \o ConcatAll(Tail(ss))

RECURSIVE JoinWith(_, _)                    \* s1 \o sep \o s2 \o sep \o ... \o sn
JoinWith(ss, sep) == IF ss = <<>> THEN <<>>
                     ELSE IF Len(ss) = 1 THEN ss[1]
                     ELSE ss[1] \o sep \o JoinWith(Tail(ss), sep)

SeqMax(s) == IF s = <<>> THEN 0 ELSE CHOOSE x \in SeqElems(s) : \A y \in SeqElems(s) : y <= x

---------------------------------------------------------------------------
(* Abstract syntax and the derived attributes of the Python classes. *)
ArraySpec(n, ax) == [name |-> n, axes |-> ax]
MapSpec(i, o)    == [ins |-> i, outs |-> o]

Rank(a)    == Len(a.axes)                                        \* ArraySpec.rank
Indices(a) == SelectSeq(a.axes, LAMBDA x : x # COLON)            \* ArraySpec.indices

Arrays(m)      == m.ins \o m.outs
InputNames(m)  == [x \in DOMAIN m.ins  |-> m.ins[x].name]        \* MapSpec.input_names
OutputNames(m) == [o \in DOMAIN m.outs |-> m.outs[o].name]       \* MapSpec.output_names
AllNames(m)    == InputNames(m) \o OutputNames(m)

OutAxes(m)         == m.outs[1].axes                             \* "all outputs have the same shape"
OutputIndices(m)   == Indices(m.outs[1])                         \* MapSpec.output_indices
InputIndexSet(m)   == UNION {SeqElems(Indices(m.ins[x])) : x \in DOMAIN m.ins}   \* MapSpec.input_indices
ExternalIndices(m) == SelectSeq(OutputIndices(m), LAMBDA i : i \in InputIndexSet(m))
                                                                 \* MapSpec.external_indices
(* mask[k] = TRUE: output axis k is mapped from the inputs (external); FALSE: produced by the     *)
(* function itself (internal), its size comes from internal_shapes.                               *)
Mask(m) == [k \in DOMAIN OutAxes(m) |-> OutAxes(m)[k] \in InputIndexSet(m)]

---------------------------------------------------------------------------
(* Well-formedness = none of the documented rejections applies.                                   *)
(* Violations(m, L) names every rule that m breaks (the harness uses the names to classify).      *)
Lexicon(idents, scoped) == [idents |-> idents, scoped |-> scoped]
ArrayNameOK(n, L) == n \in L.idents \/ n \in L.scoped     \* identifier or scope.identifier
IndexNameOK(n, L) == n \in L.idents                       \* identifier
AxisOK(a, L)      == a = COLON \/ IndexNameOK(a, L)

Violations(m, L) ==
    (IF Len(m.outs) = 0 THEN {"no_output"} ELSE {})
    \cup (IF Len(m.outs) >= 1 /\ COLON \in SeqElems(m.outs[1].axes)
          THEN {"colon_in_first_output"} ELSE {})
    \cup (IF \E o \in 2..Len(m.outs) : COLON \in SeqElems(m.outs[o].axes)
          THEN {"colon_in_later_output"} ELSE {})
    \cup (IF \E o \in 2..Len(m.outs) : Indices(m.outs[o]) # Indices(m.outs[1])
          THEN {"outputs_differ"} ELSE {})
    \cup (IF Len(m.outs) >= 1 /\ ~(InputIndexSet(m) \subseteq SeqElems(Indices(m.outs[1])))
          THEN {"unused_input_index"} ELSE {})
    \cup (IF \E a \in SeqElems(Arrays(m)) : ~ArrayNameOK(a.name, L)
          THEN {"bad_array_name"} ELSE {})
    \cup (IF \E a \in SeqElems(Arrays(m)) : \E k \in DOMAIN a.axes : ~AxisOK(a.axes[k], L)
          THEN {"bad_index_name"} ELSE {})

WellFormed(m, L) == Violations(m, L) = {}

(* DON'T-CARE SET.  The property gives no meaning to the following specs and the code accepts     *)
(* them (DESIGN.md Appendix A): two arrays with one name, an index repeated inside one array,     *)
(* an array without axes (`a[]`, which the text grammar cannot even express).  The universes      *)
(* contain Regular specs only; for irregular ones the check requires nothing beyond               *)
(* "rejected, or accepted as a well-formed MapSpec".                                              *)
Regular(m) == /\ SeqDistinct(AllNames(m))
              /\ \A a \in SeqElems(Arrays(m)) : Rank(a) >= 1 /\ SeqDistinct(Indices(a))

---------------------------------------------------------------------------
(* Text, token level.                                                                             *)
(*   spec   ::= ( "..." | arrays ) "->" arrays                                                    *)
(*   arrays ::= array ( "," array )*                                                              *)
(*   array  ::= NAME "[" axis ( "," axis )* "]"         NAME: identifier or scope.identifier     *)
(*   axis   ::= INDEX | ":"                             INDEX: identifier                         *)
(* A WS token may stand anywhere (also first and last) EXCEPT between a NAME and its "[".         *)
Punct     == {"[", "]", ",", COLON, "->", "...", WS}
IsWord(t) == t \notin Punct

(* PrintMS: the token sequence of str(m); concatenating the tokens gives the string exactly. *)
PrintArray(a)    == <<a.name, "[">> \o JoinWith([k \in DOMAIN a.axes |-> <<a.axes[k]>>], <<",", WS>>) \o <<"]">>
PrintArrays(arr) == JoinWith([x \in DOMAIN arr |-> PrintArray(arr[x])], <<",", WS>>)
PrintMS(m) == (IF m.ins = <<>> THEN <<"...">> ELSE PrintArrays(m.ins)) \o <<WS, "->", WS>> \o PrintArrays(m.outs)

Squeeze(t) == SelectSeq(t, LAMBDA x : x # WS)                       \* no whitespace at all
(* a WS token in EVERY position where the grammar tolerates one *)
Spread(t)  == LET u == Squeeze(t)
              IN  ConcatAll([i \in DOMAIN u |-> IF u[i] = "[" THEN <<u[i]>> ELSE <<WS, u[i]>>]) \o <<WS>>

(* ParseMS: [ok |-> is the token sequence a sentence of the grammar, ms |-> its AST].             *)
(* Purely syntactic: the AST of a sentence need not be well-formed.                               *)
NoMapSpec    == MapSpec(<<>>, <<>>)
ParseFail    == [ok |-> FALSE, ms |-> NoMapSpec]
ArraysFail   == [ok |-> FALSE, arrs |-> <<>>]

AxesSentence(inner, L) ==                      \* axis ("," axis)*
    /\ Len(inner) % 2 = 1
    /\ \A q \in DOMAIN inner : IF q % 2 = 1 THEN (inner[q] = COLON \/ (IsWord(inner[q]) /\ IndexNameOK(inner[q], L)))
                                            ELSE inner[q] = ","
AxesOfSentence(inner) == [q \in 1..((Len(inner) + 1) \div 2) |-> inner[2 * q - 1]]

RECURSIVE ParseArrays(_, _)                    \* on a whitespace-free token sequence
ParseArrays(t, L) ==
    IF Len(t) < 4 THEN ArraysFail
    ELSE IF ~(IsWord(t[1]) /\ ArrayNameOK(t[1], L) /\ t[2] = "[" /\ "]" \in SeqElems(t)) THEN ArraysFail
    ELSE LET k     == FirstPos(t, "]")
             inner == SubSeq(t, 3, k - 1)
             rest  == SubSeq(t, k + 1, Len(t))
         IN  IF ~AxesSentence(inner, L) THEN ArraysFail
             ELSE LET a == ArraySpec(t[1], AxesOfSentence(inner))
                  IN  IF rest = <<>> THEN [ok |-> TRUE, arrs |-> <<a>>]
                      ELSE IF rest[1] # "," THEN ArraysFail
                      ELSE LET r == ParseArrays(Tail(rest), L)
                           IN  IF r.ok THEN [ok |-> TRUE, arrs |-> <<a>> \o r.arrs] ELSE ArraysFail

ParseMS(toks, L) ==
    LET t      == Squeeze(toks)
        arrows == {i \in DOMAIN t : t[i] = "->"}
    IN  IF \E i \in 2..Len(toks) : toks[i] = "[" /\ toks[i - 1] = WS THEN ParseFail   \* `a [i]`
        ELSE IF Cardinality(arrows) # 1 THEN ParseFail
        ELSE LET p     == CHOOSE i \in arrows : TRUE
                 left  == SubSeq(t, 1, p - 1)
                 right == SubSeq(t, p + 1, Len(t))
                 pin   == IF left = <<"...">> THEN [ok |-> TRUE, arrs |-> <<>>] ELSE ParseArrays(left, L)
                 pout  == ParseArrays(right, L)
             IN  IF pin.ok /\ pout.ok THEN [ok |-> TRUE, ms |-> MapSpec(pin.arrs, pout.arrs)] ELSE ParseFail

(* DEFINITE REJECTION AT TEXT LEVEL.  The grammar has exactly ONE arrow ("Expected expression of    *)
(* form 'a -> b'"): a text without an arrow, or with two or more (`a[i] -> b[i] -> c[i]`, a          *)
(* trailing / leading / doubled arrow), is no MapSpec text whatever stands between the arrows.  For  *)
(* token sequences outside the grammar the specification otherwise requires only "rejected, or        *)
(* accepted as a well-formed MapSpec" (the array-list scanner of the code is lenient); the arrow      *)
(* count is excepted from that leniency: such a text MUST be rejected.  Whitespace is irrelevant.     *)
ArrowCount(toks)     == Cardinality({i \in DOMAIN toks : toks[i] = "->"})
TextMustReject(toks) == ArrowCount(toks) # 1

(* the ways of getting the arrow count wrong, from the token sequence t of a sentence: the arrow      *)
(* removed; the outputs repeated as a third part; a chained "next step" other[...] (the axes of the   *)
(* last array under another name); the inputs repeated in front; a trailing, a leading, a doubled     *)
(* arrow; every "," between arrays of the output side turned into an arrow.  A sequence.               *)
ArrowMutants(t, othername) ==
    LET u     == Squeeze(t)
        p     == FirstPos(u, "->")
        left  == SubSeq(u, 1, p - 1)
        right == SubSeq(u, p + 1, Len(u))
        lb    == CHOOSE i \in DOMAIN right : right[i] = "[" /\ \A j \in (i + 1)..Len(right) : right[j] # "["
        chain == <<othername>> \o SubSeq(right, lb, Len(right))          \* other[<axes of the last output>]
        commas == SelectSeq([i \in DOMAIN right |-> i], LAMBDA i : right[i] = "," /\ i > 1 /\ right[i - 1] = "]")
    IN  <<[t |-> "arrow_removed",       toks |-> left \o right],
          [t |-> "arrow_outputs_again", toks |-> u \o <<"->">> \o right],
          [t |-> "arrow_chain",         toks |-> u \o <<"->">> \o chain],
          [t |-> "arrow_inputs_again",  toks |-> left \o <<"->">> \o u],
          [t |-> "arrow_trailing",      toks |-> u \o <<"->">>],
          [t |-> "arrow_leading",       toks |-> <<"->">> \o u],
          [t |-> "arrow_doubled",       toks |-> left \o <<"->", "->">> \o right]>>
        \o [q \in DOMAIN commas |-> [t |-> "arrow_for_comma",
                                     toks |-> left \o <<"->">> \o [right EXCEPT ![commas[q]] = "->"]]]

---------------------------------------------------------------------------
(* Shapes.  MapSpec.shape(input_shapes, internal_shapes):                                          *)
(*   insh[x]   the shape of input x (by position)                                                  *)
(*   internal  the sizes of the internal output axes, in output-axis order                        *)
(* Result: [ok, err, shape, mask]; err in {"", "rank", "dim", "internal"} names the first check    *)
(* that fails in code order (all ranks first, then output axes left to right).                     *)
ShapeErr(e) == [ok |-> FALSE, err |-> e, shape |-> <<>>, mask |-> <<>>]

(* the sizes that the inputs give to index idx *)
DimsAlong(m, insh, idx) ==
    {insh[x][FirstPos(m.ins[x].axes, idx)] : x \in {y \in DOMAIN m.ins : idx \in SeqElems(m.ins[y].axes)}}

Shape(m, insh, internal) ==
    IF \E x \in DOMAIN m.ins : Len(insh[x]) # Rank(m.ins[x]) THEN ShapeErr("rank")
    ELSE LET oax     == OutAxes(m)
             mask    == Mask(m)
             nInt(k) == Cardinality({j \in 1..k : ~mask[j]})          \* internal axes among the first k
             bad(k)  == IF mask[k] THEN Cardinality(DimsAlong(m, insh, oax[k])) > 1
                                   ELSE nInt(k) > Len(internal)
             Bad     == {k \in DOMAIN oax : bad(k)}
         IN  IF Bad # {} THEN LET k == CHOOSE b \in Bad : \A c \in Bad : b <= c
                              IN  ShapeErr(IF mask[k] THEN "dim" ELSE "internal")
             ELSE [ok |-> TRUE, err |-> "",
                   shape |-> [k \in DOMAIN oax |-> IF mask[k] THEN CHOOSE d \in DimsAlong(m, insh, oax[k]) : TRUE
                                                              ELSE internal[nInt(k)]],
                   mask |-> mask]

(* the shape of the mapped (external) axes only: what output_key / input_keys take *)
ExtShape(sh) == LET ext == SelectSeq([k \in DOMAIN sh.shape |-> k], LAMBDA k : sh.mask[k])
                IN  [q \in DOMAIN ext |-> sh.shape[ext[q]]]

---------------------------------------------------------------------------
(* Row-major index arithmetic. *)
Strides(shape)     == [k \in DOMAIN shape |-> SeqProduct(SubSeq(shape, k + 1, Len(shape)))]   \* shape_to_strides
Unravel(shape, l)  == LET st == Strides(shape) IN [k \in DOMAIN shape |-> (l \div st[k]) % shape[k]]   \* _shape_to_key
Ravel(shape, key)  == LET st == Strides(shape) IN SeqSum([k \in DOMAIN shape |-> key[k] * st[k]])
IndexSet(shape)    == {t \in [DOMAIN shape -> 0..(SeqMax(shape) - 1)] : \A k \in DOMAIN shape : t[k] < shape[k]}
LexLess(a, b)      == \E k \in DOMAIN a : a[k] < b[k] /\ \A j \in 1..(k - 1) : a[j] = b[j]

(* MapSpec.output_key(shape, linear_index) / input_keys(shape, linear_index).  `ext` is the        *)
(* external shape, Len(ext) = Len(ExternalIndices(m)): the map has one element per position of the  *)
(* external axes (an element fills the whole block of internal axes, if any), elements are numbered *)
(* 0..Prod(ext)-1 in row-major order.                                                              *)
KeyShapeOK(m, ext) == Len(ext) = Len(ExternalIndices(m))

OutputKey(m, ext, l) == Unravel(ext, l)

InputKeys(m, ext, l) ==
    LET pos == Unravel(ext, l)
        e   == ExternalIndices(m)
    IN  [x \in DOMAIN m.ins |->
            [k \in DOMAIN m.ins[x].axes |->
                IF m.ins[x].axes[k] = COLON THEN ALL ELSE pos[FirstPos(e, m.ins[x].axes[k])]]]

(* the entries of an array of shape `shape` that a key denotes *)
KeyDenotes(key, shape) == {e \in IndexSet(shape) : \A k \in DOMAIN shape : key[k] = ALL \/ key[k] = e[k]}

---------------------------------------------------------------------------
(* ARGUMENTS AS MAPPINGS.  The code receives input_shapes and internal_shapes as mappings keyed by   *)
(* array NAME ("Shapes of the inputs, keyed by name").  A Python dict also has an insertion order;    *)
(* that order is no part of the mapping.  A PRESENTATION of a mapping is the sequence of its entries  *)
(* [name, shape] in insertion order; two presentations of one mapping differ by a permutation only.   *)
(* Shape() above takes the shapes by input POSITION; ShapeNamed is shape() as the code is called:     *)
(* every array finds ITS shape under its name, wherever the entry stands in the presentation - in     *)
(* the rank check as well as in the dimension computation.                                            *)
Entry(n, sh)       == [name |-> n, shape |-> sh]
EntryNames(p)      == [q \in DOMAIN p |-> p[q].name]
(* p presents a mapping with exactly these keys (missing / extra names are outside the property) *)
Presents(p, names) == SeqDistinct(EntryNames(p)) /\ SeqElems(EntryNames(p)) = SeqElems(names)
Lookup(p, n)       == p[CHOOSE q \in DOMAIN p : p[q].name = n].shape
Perms(n)           == {f \in [1..n -> 1..n] : \A i, j \in 1..n : i # j => f[i] # f[j]}
(* the mapping names[x] |-> shapes[x], entry f[q] inserted q-th *)
Present(names, shapes, f) == [q \in DOMAIN f |-> Entry(names[f[q]], shapes[f[q]])]
ByPosition(names, p)      == [x \in DOMAIN names |-> Lookup(p, names[x])]

(* internal_shapes: one entry per output, or no mapping at all (pint = <<>>, Python: None); all       *)
(* outputs have the same shape, the sizes are read under the name of the FIRST output.                *)
ShapeNamed(m, pin, pint) ==
    Shape(m, ByPosition(InputNames(m), pin), IF pint = <<>> THEN <<>> ELSE Lookup(pint, m.outs[1].name))

(* the presentations of the arguments (insh by position, the same internal sizes for every output):   *)
(* every insertion order of the inputs x every insertion order of the outputs.  `withint` = FALSE:    *)
(* internal_shapes is not passed.  A sequence, the first element is the order of the MapSpec itself.  *)
IdPerm(n)     == [q \in 1..n |-> q]
RECURSIVE LexEnum(_)                                                \* a set of equally long sequences, ascending
LexEnum(S)    == IF S = {} THEN <<>>
                 ELSE LET f == CHOOSE g \in S : \A h \in S : g = h \/ LexLess(g, h)
                      IN  <<f>> \o LexEnum(S \ {f})
PermSeq(n)    == LexEnum(Perms(n))                                  \* the identity is the least permutation
Presentations(m, insh, internal, withint) ==
    LET fs == PermSeq(Len(m.ins))
        gs == IF withint THEN PermSeq(Len(m.outs)) ELSE <<IdPerm(0)>>
    IN  [q \in 1..(Len(fs) * Len(gs)) |->
            LET f == fs[((q - 1) \div Len(gs)) + 1]
                g == gs[((q - 1) % Len(gs)) + 1]
            IN  [pin  |-> Present(InputNames(m), insh, f),
                 pint |-> IF withint THEN Present(OutputNames(m), [o \in DOMAIN m.outs |-> internal], g) ELSE <<>>,
                 inorder |-> f = IdPerm(Len(m.ins))]]

---------------------------------------------------------------------------
(* rename / add_axes.  `pairs` is a sequence of <<old, new>> with distinct olds.                   *)
Renamed(pairs, n) == IF \E q \in DOMAIN pairs : pairs[q][1] = n
                     THEN pairs[CHOOSE q \in DOMAIN pairs : pairs[q][1] = n][2] ELSE n
Rename(m, pairs)  == LET R(a) == ArraySpec(Renamed(pairs, a.name), a.axes)
                     IN  MapSpec([x \in DOMAIN m.ins |-> R(m.ins[x])], [o \in DOMAIN m.outs |-> R(m.outs[o])])

(* add_axes appends the axes to EVERY array; it is refused when a new index already occurs in      *)
(* some array, and (as for any construction) when the result is not well-formed.                   *)
AddAxes(m, axs)        == LET A(a) == ArraySpec(a.name, a.axes \o axs)
                          IN  MapSpec([x \in DOMAIN m.ins |-> A(m.ins[x])], [o \in DOMAIN m.outs |-> A(m.outs[o])])
AddAxesClash(m, axs)   == \E a \in SeqElems(Arrays(m)) : \E q \in DOMAIN axs : axs[q] # COLON /\ axs[q] \in SeqElems(a.axes)
AddAxesAccepted(m, axs, L) == ~AddAxesClash(m, axs) /\ WellFormed(AddAxes(m, axs), L)

---------------------------------------------------------------------------
(* OBJECTS AND HISTORIES.  A MapSpec object is an immutable VALUE: whatever a method returns is a     *)
(* function of the AST (and the arguments) alone - not of what was called on the object before, nor   *)
(* of what was called on the object it was derived from (the code caches `external_indices` in the    *)
(* object; rename / add_axes / from_string(str(.)) build new objects from old ones).  A HISTORY is a  *)
(* sequence of operations starting from a freshly constructed object:                                 *)
(*   "attr"     read the derived attributes (input/output names and indices, external_indices)        *)
(*   "keys"     use it as a map run does: shape(), then output_key / input_keys of all linear indices *)
(*   "reparse"  continue with from_string(str(object))                                                *)
(*   "add"      continue with object.add_axes(axs); the harness feeds the new object every input      *)
(*              shape extended by the sizes nd (internal sizes extended when there is no input)       *)
(*   "ren"      continue with object.rename(pairs)                                                    *)
(* "attr" and "keys" leave the value as it is; the other three DERIVE the next object.  An OBJECT of  *)
(* the specification is the AST plus the shapes it is observed with.  Observe(o) is everything the    *)
(* code may be asked about o; it must hold for EVERY object of the history, at every later moment     *)
(* (the earlier objects are unaffected by deriving from them).                                        *)
Obj(m, insh, internal) == [m |-> m, insh |-> insh, internal |-> internal]
Op(t, axs, nd, pairs)  == [t |-> t, axs |-> axs, nd |-> nd, pairs |-> pairs]      \* one uniform record
OpAttr         == Op("attr", <<>>, <<>>, <<>>)
OpKeys         == Op("keys", <<>>, <<>>, <<>>)
OpReparse      == Op("reparse", <<>>, <<>>, <<>>)
OpAdd(axs, nd) == Op("add", axs, nd, <<>>)
OpRen(pairs)   == Op("ren", <<>>, <<>>, pairs)
Derives(op)    == op.t \in {"reparse", "add", "ren"}

StepObj(o, op, L) ==
    CASE op.t = "add" -> Obj(AddAxes(o.m, op.axs),
                             [x \in DOMAIN o.insh |-> o.insh[x] \o op.nd],              \* mapped from every input,
                             IF o.m.ins = <<>> THEN o.internal \o op.nd ELSE o.internal) \* else internal axes
      [] op.t = "ren" -> Obj(Rename(o.m, op.pairs), o.insh, o.internal)
      [] op.t = "reparse" -> Obj(ParseMS(PrintMS(o.m), L).ms, o.insh, o.internal)
      [] OTHER -> o

(* an operation is part of a history only where the property gives it a meaning: an accepted          *)
(* add_axes of named, distinct axes with one size each; a renaming to lexically fine names that keeps  *)
(* the array names distinct (Regular)                                                                  *)
OpEnabled(o, op, L) ==
    CASE op.t = "add" -> /\ AddAxesAccepted(o.m, op.axs, L) /\ COLON \notin SeqElems(op.axs)
                         /\ SeqDistinct(op.axs) /\ op.axs # <<>> /\ Len(op.nd) = Len(op.axs)
      [] op.t = "ren" -> /\ \A q \in DOMAIN op.pairs : ArrayNameOK(op.pairs[q][2], L)
                         /\ Regular(Rename(o.m, op.pairs))
      [] OTHER -> TRUE

Observe(o) ==
    LET sh  == Shape(o.m, o.insh, o.internal)
        ext == IF sh.ok THEN ExtShape(sh) ELSE <<>>
        N   == IF sh.ok THEN SeqProduct(ext) ELSE 0
    IN  [toks |-> PrintMS(o.m),                                                  \* str()
         in_names |-> InputNames(o.m), out_names |-> OutputNames(o.m),           \* the derived attributes
         out_idx |-> OutputIndices(o.m), ext_idx |-> ExternalIndices(o.m), in_idx |-> InputIndexSet(o.m),
         shape |-> sh, ext |-> ext, n |-> N,                                     \* shape()
         okeys |-> [l \in 1..N |-> OutputKey(o.m, ext, l - 1)],                  \* element l: linear index l-1
         ikeys |-> [l \in 1..N |-> InputKeys(o.m, ext, l - 1)]]

---------------------------------------------------------------------------
(* THE LAWS (property C08).  Each is a predicate over one case; MC_MapSpecSem checks them as       *)
(* invariants over its universes.                                                                  *)

(* from_string(str(m)) == m, also with whitespace everywhere / nowhere the grammar tolerates it *)
LawRoundTrip(m, L)  == ParseMS(PrintMS(m), L) = [ok |-> TRUE, ms |-> m]
LawWhitespace(m, L) == /\ ParseMS(Spread(PrintMS(m)), L)  = [ok |-> TRUE, ms |-> m]
                       /\ ParseMS(Squeeze(PrintMS(m)), L) = [ok |-> TRUE, ms |-> m]

(* a text whose arrow count is not one is no sentence - with or without whitespace - whatever else  *)
(* it contains (ParseMS agrees with the definite rejection)                                          *)
LawArrow(toks, L) == TextMustReject(toks) => /\ ~ParseMS(toks, L).ok
                                             /\ ~ParseMS(Spread(toks), L).ok
                                             /\ TextMustReject(Spread(toks))

(* shape(): defined exactly when ranks fit, zipped dimensions agree and the internal sizes         *)
(* suffice; then every named input axis has the size of the output axis of that name, and the      *)
(* number of linear indices is the product of the external shape.                                  *)
ShapeDefined(m, insh, internal) ==
    /\ \A x \in DOMAIN m.ins : Len(insh[x]) = Rank(m.ins[x])
    /\ \A x, y \in DOMAIN m.ins : \A k \in DOMAIN m.ins[x].axes : \A j \in DOMAIN m.ins[y].axes :
          (m.ins[x].axes[k] # COLON /\ m.ins[x].axes[k] = m.ins[y].axes[j]) => insh[x][k] = insh[y][j]
    /\ Cardinality({k \in DOMAIN OutAxes(m) : ~Mask(m)[k]}) <= Len(internal)
LawShape(m, insh, internal) ==
    LET sh == Shape(m, insh, internal)
    IN  /\ sh.ok <=> ShapeDefined(m, insh, internal)
        /\ sh.ok =>
             /\ Len(sh.shape) = Len(OutAxes(m)) /\ sh.mask = Mask(m)
             /\ \A x \in DOMAIN m.ins : \A k \in DOMAIN m.ins[x].axes :
                   m.ins[x].axes[k] # COLON => sh.shape[FirstPos(OutAxes(m), m.ins[x].axes[k])] = insh[x][k]
             /\ KeyShapeOK(m, ExtShape(sh))
             /\ Cardinality(IndexSet(ExtShape(sh))) = SeqProduct(ExtShape(sh))

(* shape() is a function of the MAPPINGS it is given, not of their presentation: whatever the      *)
(* insertion order of input_shapes / internal_shapes, every input is rank-checked against, and     *)
(* sized by, the shape under its own name.  So a valid call stays valid (same shape, same mask)    *)
(* and a rank / dimension / internal-size mismatch stays THAT mismatch under every reordering -    *)
(* also for shapes that sit under the wrong names (two inputs with their shapes exchanged).        *)
LawShapeByName(m, insh, internal, withint) ==
    LET ps == Presentations(m, insh, internal, withint)
    IN  /\ Len(ps) = Cardinality(Perms(Len(m.ins))) * (IF withint THEN Cardinality(Perms(Len(m.outs))) ELSE 1)
        /\ ps[1].inorder /\ EntryNames(ps[1].pin) = InputNames(m)
        /\ \A q \in DOMAIN ps :
              /\ Presents(ps[q].pin, InputNames(m))
              /\ withint => Presents(ps[q].pint, OutputNames(m))
              /\ ByPosition(InputNames(m), ps[q].pin) = insh
              /\ ShapeNamed(m, ps[q].pin, ps[q].pint) = Shape(m, insh, IF withint THEN internal ELSE <<>>)
        /\ \A q, r \in DOMAIN ps : q # r => (ps[q].pin # ps[r].pin \/ ps[q].pint # ps[r].pint)

(* output_key: over 0..N-1 a bijection onto the output positions, increasing in row-major          *)
(* (lexicographic) order, inverse of Ravel.                                                        *)
LawOutputKeyBijection(m, ext) ==
    LET N      == SeqProduct(ext)
        key(l) == OutputKey(m, ext, l)
    IN  /\ {key(l) : l \in 0..(N - 1)} = IndexSet(ext)
        /\ \A l \in 0..(N - 2) : LexLess(key(l), key(l + 1))     \* hence l1 < l2 => key(l1) < key(l2)
        /\ \A l \in 0..(N - 1) : Ravel(ext, key(l)) = l

(* input_keys: for linear index l, input x gets exactly the entries whose named axes carry the     *)
(* value that the output position at l has for that index name; ':' axes are taken whole.          *)
LawInputKeysSelect(m, insh, ext) ==
    LET entries == [x \in DOMAIN m.ins |-> IndexSet(insh[x])]            \* all entries of input x
        ext_idx == ExternalIndices(m)
    IN  \A l \in 0..(SeqProduct(ext) - 1) :
          LET pos     == OutputKey(m, ext, l)
              keys    == InputKeys(m, ext, l)
              at(idx) == pos[FirstPos(ext_idx, idx)]                    \* the position, by index name
          IN  \A x \in DOMAIN m.ins : \A e \in entries[x] :              \* e \in KeyDenotes(keys[x], insh[x]) <=> ...
                 (\A k \in DOMAIN insh[x] : keys[x][k] = ALL \/ keys[x][k] = e[k])
                   <=> (\A k \in DOMAIN insh[x] : m.ins[x].axes[k] # COLON => e[k] = at(m.ins[x].axes[k]))

(* rename: well-formedness (and regularity, for an injective renaming) is kept when the new        *)
(* names are lexically fine; the mapping is the same mapping under the new names.                  *)
LawRename(m, pairs, L) ==
    LET m2 == Rename(m, pairs)
    IN  /\ (WellFormed(m, L) /\ \A q \in DOMAIN pairs : ArrayNameOK(pairs[q][2], L)) => WellFormed(m2, L)
        /\ AllNames(m2) = [q \in DOMAIN AllNames(m) |-> Renamed(pairs, AllNames(m)[q])]
        /\ \A q \in DOMAIN Arrays(m) : Arrays(m2)[q].axes = Arrays(m)[q].axes
        /\ Len(m2.ins) = Len(m.ins)
LawRenameDenotes(m, pairs, insh, internal) ==
    LET m2 == Rename(m, pairs)
        sh == Shape(m, insh, internal)
    IN  /\ Shape(m2, insh, internal) = sh
        /\ sh.ok => \A l \in 0..(SeqProduct(ExtShape(sh)) - 1) :
                        InputKeys(m2, ExtShape(sh), l) = InputKeys(m, ExtShape(sh), l)

(* add_axes: an accepted extension is well-formed; with sizes `nd` for the new axes appended to    *)
(* every input shape the output shape is the old one extended by nd (when there is an input to     *)
(* map the new axes from), and element l of the extended map reads, from each input, the old       *)
(* key of element l \div Prod(nd) extended by the position l % Prod(nd) along the new axes.        *)
LawAddAxes(m, axs, L) == AddAxesAccepted(m, axs, L) => WellFormed(AddAxes(m, axs), L)
LawAddAxesDenotes(m, axs, insh, internal, nd) ==
    LET m2  == AddAxes(m, axs)
        sh  == Shape(m, insh, internal)
        sh2 == Shape(m2, [x \in DOMAIN insh |-> insh[x] \o nd], internal)
        P   == SeqProduct(nd)
    IN  (sh.ok /\ m.ins # <<>> /\ Len(nd) = Len(axs) /\ ~AddAxesClash(m, axs) /\ COLON \notin SeqElems(axs)
            /\ SeqDistinct(axs)) =>
          /\ sh2.ok /\ sh2.shape = sh.shape \o nd
          /\ ExtShape(sh2) = ExtShape(sh) \o nd
          /\ \A l \in 0..(SeqProduct(ExtShape(sh2)) - 1) : \A x \in DOMAIN m.ins :
                InputKeys(m2, ExtShape(sh2), l)[x]
                  = InputKeys(m, ExtShape(sh), l \div P)[x] \o Unravel(nd, l % P)

(* one step of a history: the object derived by an enabled operation is again a well-formed regular    *)
(* MapSpec whose shape is defined for the shapes it is fed, and it denotes the mapping that the laws    *)
(* above ascribe to the operation (reparse: the same AST; ren: the same mapping under the new names;   *)
(* add: the extended mapping).  Observations are values of the AST alone, so "attr" / "keys" change     *)
(* nothing: StepObj returns o itself.                                                                  *)
LawStep(o, op, L) ==
    LET n == StepObj(o, op, L)
    IN  OpEnabled(o, op, L) =>
          /\ WellFormed(n.m, L) /\ Regular(n.m)
          /\ Shape(o.m, o.insh, o.internal).ok => Shape(n.m, n.insh, n.internal).ok
          /\ ~Derives(op) => n = o
          /\ op.t = "reparse" => n = o /\ LawRoundTrip(o.m, L)
          /\ op.t = "ren" => LawRename(o.m, op.pairs, L) /\ LawRenameDenotes(o.m, op.pairs, o.insh, o.internal)
          /\ op.t = "add" => /\ LawAddAxes(o.m, op.axs, L)
                             /\ LawAddAxesDenotes(o.m, op.axs, o.insh, o.internal, op.nd)
                             /\ o.m.ins = <<>> =>                              \* nothing to map from: internal axes
                                   LET sh == Shape(o.m, o.insh, o.internal) sh2 == Shape(n.m, n.insh, n.internal)
                                   IN  sh.ok => sh2.shape = sh.shape \o op.nd /\ ExtShape(sh2) = <<>>
=============================================================================
