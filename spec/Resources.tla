----------------------------- MODULE Resources -----------------------------
(***************************************************************************)
(* Algebra of pipefunc's `Resources` specifications (pipefunc/resources.py)*)
(* as required by property C20: what a valid specification is, how         *)
(* specifications combine (combine_max, with_defaults, update), how they    *)
(* round-trip through dict()/from_dict and what to_slurm_options has to    *)
(* mention.  The module describes the REQUIRED behaviour; it does not      *)
(* follow the implementation where the implementation is wrong (e.g. it    *)
(* compares wall times by duration, never as strings).                     *)
(*                                                                         *)
(* Encodings (one uniform TLA+ type per field, TLC cannot compare mixed     *)
(* types):                                                                 *)
(*   integer quantity   Int, `NoneI` = Python None                         *)
(*   memory             <<>> = None, <<m>> = a string, m a MEMORY TOKEN     *)
(*   time               <<>> = None, <<t>> = a string, t a TIME TOKEN       *)
(*   partition          STRING, "" = None                                  *)
(*   extra              function  key -> Int   (extra_args)                *)
(*   mode               "external" | "internal"  (parallelization_mode)    *)
(* The harness tokenises the real strings into the tokens below (and       *)
(* renders tokens into strings); the specification decides everything      *)
(* else: well-formedness, size, duration, order.                           *)
(***************************************************************************)
EXTENDS Integers, Sequences, FiniteSets, TLC

NoneI   == -99
IsSetI(x) == x # NoneI
IsSetO(x) == x # <<>>            \* optional value encoded as a sequence of length 0 or 1
Val(x)  == x[1]
Empty   == [x \in {} |-> 0]      \* the empty extra_args
Sign(x) == IF x > 0 THEN 1 ELSE IF x < 0 THEN -1 ELSE 0
RangeOf(s) == {s[i] : i \in DOMAIN s}

---------------------------------------------------------------------------
(* MEMORY.  A memory string is tokenised as                                 *)
(*     pre  ip  [dot fp]  unit  post                                        *)
(*  e.g. "1.5GB" -> [pre |-> "", ip |-> 1, ipd |-> 1, dot |-> 1, fp |-> 5,  *)
(*                  fpd |-> 1, unit |-> "GB", post |-> ""]                 *)
(* ip/fp = value of the digit runs, ipd/fpd = their lengths (0 = absent),  *)
(* dot = 1 iff a '.' follows the integer digits, unit = the run of letters  *)
(* after the number AS WRITTEN, pre/post = a symbolic name of any other     *)
(* characters before/after ("" = none, "SP" blank, "NL" newline, ...).      *)
(* Documented form: <number><unit>, number = digits[.digits],               *)
(* unit one of B KB MB GB TB PB.                                            *)
Units == <<"B", "KB", "MB", "GB", "TB", "PB">>           \* each 1000 x the previous
UnitExp(u) == CASE u = "B" -> 0 [] u = "KB" -> 1 [] u = "MB" -> 2 [] u = "GB" -> 3 [] u = "TB" -> 4 [] u = "PB" -> 5

MemWellFormed(m) ==
    /\ m.pre = "" /\ m.post = ""
    /\ m.ipd >= 1
    /\ \/ m.dot = 0 /\ m.fpd = 0
       \/ m.dot = 1 /\ m.fpd >= 1
    /\ m.unit \in RangeOf(Units)
(* Not decided by the property text (kept out of every universe): lower-case units ("2gb"),       *)
(* more than three fractional digits (below the resolution of MemMant).                           *)
MemInScope(m) == m.fpd <= 3 /\ m.ip <= 2000000

(* size = MemMant(m)/1000 * 1000^UnitExp(m.unit) bytes; the mantissa is kept in thousandths      *)
Pow10(n) == CASE n = 0 -> 1 [] n = 1 -> 10 [] n = 2 -> 100 [] n = 3 -> 1000
MemMant(m) == m.ip * 1000 + (IF m.fpd = 0 THEN 0 ELSE m.fp * Pow10(3 - m.fpd))

(* x / 1000^k as <<floor, exact?>> -- never multiplies, so nothing can overflow 32 bits           *)
RECURSIVE Down(_, _)
Down(x, k) == IF k = 0 THEN <<x, TRUE>>
              ELSE LET r == Down(x, k - 1) IN <<r[1] \div 1000, r[2] /\ (r[1] % 1000 = 0)>>

(* three-way comparison by SIZE: -1, 0, 1 *)
RECURSIVE MemCmp(_, _)
MemCmp(a, b) ==
    LET ea == UnitExp(a.unit)  eb == UnitExp(b.unit)
        ma == MemMant(a)       mb == MemMant(b)
    IN  IF ea = eb THEN Sign(ma - mb)
        ELSE IF ea > eb
             THEN LET q == Down(mb, ea - eb)          \* ma * 1000^d ? mb   <=>   ma ? mb / 1000^d
                  IN  IF ma > q[1] THEN 1 ELSE IF ma < q[1] THEN -1 ELSE IF q[2] THEN 0 ELSE -1
             ELSE 0 - MemCmp(b, a)

---------------------------------------------------------------------------
(* TIME.  A wall-time string is tokenised as  pre  f1:f2:...:fn  post  with                        *)
(*   f  = sequence of <<value, digit count>>   (digit count 0 = empty field, -1 = not all digits)  *)
(* Documented formats: MM:SS, H:MM:SS, HH:MM:SS, D:HH:MM:SS.                                       *)
TimeWellFormed(t) ==
    LET n == Len(t.f) IN
    /\ t.pre = "" /\ t.post = ""
    /\ n \in 2..4
    /\ \A i \in 1..n : t.f[i][2] >= 1
    /\ t.f[n][2] = 2 /\ t.f[n - 1][2] = 2                        \* MM and SS: two digits
    /\ n = 3 => t.f[1][2] \in {1, 2}                            \* H or HH
    /\ n = 4 => t.f[2][2] = 2 /\ t.f[1][2] = 1                  \* D:HH
(* Not decided by the property text (kept out of every universe): three or more hour digits       *)
(* ("100:00:00"), two or more day digits.  Field VALUES are not restricted by the formats (the     *)
(* universes keep minutes and seconds below 60 and hours of the day form below 24; the hours of   *)
(* the HOUR form go up to 99, e.g. the documented "48:00:00").                                     *)
TimeInScope(t) ==
    LET n == Len(t.f) IN
    /\ (n = 3 /\ \A i \in 1..3 : t.f[i][2] >= 1) => t.f[1][2] <= 2
    /\ (n = 4 /\ \A i \in 1..4 : t.f[i][2] >= 1) => t.f[1][2] <= 1

Seconds(t) ==
    LET n == Len(t.f)
        s == t.f[n][1]
        m == t.f[n - 1][1]
        h == IF n >= 3 THEN t.f[n - 2][1] ELSE 0
        d == IF n >= 4 THEN t.f[n - 3][1] ELSE 0
    IN  ((d * 24 + h) * 60 + m) * 60 + s
TimeCmp(a, b) == Sign(Seconds(a) - Seconds(b))

(* FIELD WEIGHTS.  Counted from the right the fields weigh 1 s, 60 s, 3600 s and 86400 s: the steps    *)
(* between adjacent fields are 60, 60 and 24 -- NOT one uniform base.  `Seconds` above is the Horner    *)
(* form of the weighted sum below (MC_Resources checks that the two agree on every universe).           *)
(* SecondsBy(t, w) is the duration under an arbitrary weight table w; it is used to state what a wrong  *)
(* table would get wrong (MC_Resources!Discriminates), never to decide a case.                          *)
Steps       == <<60, 60, 24>>                               \* s per min, min per h, h per day
WeightsOf(st) == <<1, st[1], st[1] * st[2], st[1] * st[2] * st[3]>>
FieldWeight == WeightsOf(Steps)                             \* <<1, 60, 3600, 86400>>
RECURSIVE WeightedSum(_, _, _)
WeightedSum(f, w, i) ==                                     \* the i rightmost fields of f
    IF i = 0 THEN 0 ELSE f[Len(f) - i + 1][1] * w[i] + WeightedSum(f, w, i - 1)
SecondsBy(t, w) == WeightedSum(t.f, w, Len(t.f))

(* RE-SPELLING.  One duration has several spellings: D:HH:MM:SS = (24*D+HH):MM:SS and MM:SS = 0:MM:SS.  *)
(* HourForm(t) is the hour-form reading <<hours, minutes, seconds>> of any well-formed t (a plain      *)
(* triple of numbers; the hours may need any number of digits).  For spellings that carry (minutes and *)
(* seconds below 60) the order by duration is the lexicographic order of these triples, which involves *)
(* no weight of minutes or seconds at all: comparing wall times must not depend on the FORMAT the      *)
(* operands happen to be written in (FormatFree; operands of one combine_max call may mix formats).    *)
HourForm(t) ==
    LET n == Len(t.f)
    IN  << (IF n >= 4 THEN 24 * t.f[n - 3][1] ELSE 0) + (IF n >= 3 THEN t.f[n - 2][1] ELSE 0),
           t.f[n - 1][1], t.f[n][1] >>
Carried(t) == t.f[Len(t.f)][1] < 60 /\ t.f[Len(t.f) - 1][1] < 60
LexCmp3(a, b) == IF a[1] # b[1] THEN Sign(a[1] - b[1])
                 ELSE IF a[2] # b[2] THEN Sign(a[2] - b[2]) ELSE Sign(a[3] - b[3])
FormatFree(a, b) == (Carried(a) /\ Carried(b)) => TimeCmp(a, b) = LexCmp3(HourForm(a), HourForm(b))

---------------------------------------------------------------------------
(* RESOURCES *)
IntFields == {"cpus", "gpus", "nodes", "cpus_per_node"}
OptFields == {"memory", "time"}
Fields    == IntFields \cup OptFields \cup {"partition", "extra", "mode"}
(* the fields the property calls quantities, plus partition, which behaves like one everywhere *)
QFields   == IntFields \cup OptFields \cup {"partition"}

NoneOf(k) == CASE k \in IntFields -> NoneI
               [] k \in OptFields -> <<>>
               [] k = "partition" -> ""
               [] k = "extra"     -> Empty
               [] k = "mode"      -> "external"
Blank == [k \in Fields |-> NoneOf(k)]                       \* Resources()
IsSet(r, k) == IF k \in {"extra", "mode"} THEN TRUE ELSE r[k] # NoneOf(k)

(* what the constructor must accept; everything else must be rejected *)
Valid(r) ==
    /\ IsSetI(r.cpus)  => r.cpus >= 1
    /\ IsSetI(r.gpus)  => r.gpus >= 0
    /\ IsSetI(r.nodes) => r.nodes >= 1
    /\ IsSetI(r.cpus_per_node) => r.cpus_per_node >= 1
    /\ IsSetO(r.memory) => MemWellFormed(Val(r.memory))
    /\ IsSetO(r.time)   => TimeWellFormed(Val(r.time))
    /\ ~(IsSetI(r.nodes) /\ IsSetI(r.cpus))                      \* mutually exclusive
    /\ IsSetI(r.cpus_per_node) => IsSetI(r.nodes)                \* cpus_per_node needs nodes
InScope(r) == /\ IsSetO(r.memory) => MemInScope(Val(r.memory))
              /\ IsSetO(r.time)   => TimeInScope(Val(r.time))

---------------------------------------------------------------------------
(* combine_max over a non-empty sequence of valid specifications *)
MaxI(S)  == IF S = {} THEN NoneI ELSE CHOOSE x \in S : \A y \in S : x >= y
IntsOf(rs, k) == {rs[i][k] : i \in {j \in DOMAIN rs : IsSetI(rs[j][k])}}

(* indices of the operands whose memory / time is maximal (by size / duration) among the set ones *)
MaxMemIdx(rs)  == LET D == {i \in DOMAIN rs : IsSetO(rs[i].memory)}
                  IN  {i \in D : \A j \in D : MemCmp(Val(rs[i].memory), Val(rs[j].memory)) >= 0}
MaxTimeIdx(rs) == LET D == {i \in DOMAIN rs : IsSetO(rs[i].time)}
                  IN  {i \in D : \A j \in D : TimeCmp(Val(rs[i].time), Val(rs[j].time)) >= 0}
FirstOf(S) == CHOOSE i \in S : \A j \in S : i <= j
LastOf(S)  == CHOOSE i \in S : \A j \in S : i >= j

(* extra_args: union, the first operand that has a key wins (pinned by tests/test_resources.py) *)
RECURSIVE ExtraFirstWins(_)
ExtraFirstWins(rs) ==
    IF rs = <<>> THEN Empty
    ELSE LET h == Head(rs).extra   t == ExtraFirstWins(Tail(rs))
         IN  [k \in DOMAIN h \cup DOMAIN t |-> IF k \in DOMAIN h THEN h[k] ELSE t[k]]

(* The reference result.  Ties (equal size / duration written differently) go to the first maximal *)
(* operand here; CombineMaxOK below accepts any maximal one.  partition: the last one that is set  *)
(* (pinned by the tests).  nodes, cpus_per_node and mode are NOT determined by the property (the   *)
(* implementation drops them): don't-care, not compared.                                          *)
CombineMax(rs) ==
    [Blank EXCEPT
       !.cpus   = MaxI(IntsOf(rs, "cpus")),
       !.gpus   = MaxI(IntsOf(rs, "gpus")),
       !.memory = IF MaxMemIdx(rs) = {} THEN <<>> ELSE rs[FirstOf(MaxMemIdx(rs))].memory,
       !.time   = IF MaxTimeIdx(rs) = {} THEN <<>> ELSE rs[FirstOf(MaxTimeIdx(rs))].time,
       !.partition = LET D == {i \in DOMAIN rs : rs[i].partition # ""}
                     IN  IF D = {} THEN "" ELSE rs[LastOf(D)].partition,
       !.extra  = ExtraFirstWins(rs)]

CombineMaxOK(rs, out) ==
    LET ref == CombineMax(rs) IN
    /\ out.cpus = ref.cpus /\ out.gpus = ref.gpus
    /\ out.partition = ref.partition /\ out.extra = ref.extra
    /\ IF MaxMemIdx(rs) = {} THEN out.memory = <<>>
       ELSE out.memory \in {rs[i].memory : i \in MaxMemIdx(rs)}
    /\ IF MaxTimeIdx(rs) = {} THEN out.time = <<>>
       ELSE out.time \in {rs[i].time : i \in MaxTimeIdx(rs)}

(* `big` is at least as large as `r` in every quantity the property names *)
GE(big, r) ==
    /\ IsSetI(r.cpus) => IsSetI(big.cpus) /\ big.cpus >= r.cpus
    /\ IsSetI(r.gpus) => IsSetI(big.gpus) /\ big.gpus >= r.gpus
    /\ IsSetO(r.memory) => IsSetO(big.memory) /\ MemCmp(Val(big.memory), Val(r.memory)) >= 0
    /\ IsSetO(r.time)   => IsSetO(big.time)   /\ TimeCmp(Val(big.time), Val(r.time)) >= 0
(* ... and not larger than all of them: every set quantity of the result comes from an operand *)
Tight(big, rs) ==
    /\ IsSetI(big.cpus) => \E i \in DOMAIN rs : rs[i].cpus = big.cpus
    /\ IsSetI(big.gpus) => \E i \in DOMAIN rs : rs[i].gpus = big.gpus
    /\ IsSetO(big.memory) => \E i \in DOMAIN rs : rs[i].memory = big.memory
    /\ IsSetO(big.time)   => \E i \in DOMAIN rs : rs[i].time = big.time

---------------------------------------------------------------------------
(* with_defaults: the receiver's set quantities stay, unset ones are filled from the defaults.     *)
(* extra_args and mode are not quantities: the result's extra_args must contain the receiver's     *)
(* entries and nothing that is in neither operand (WithDefaultsOK); mode is either operand's.      *)
(* When the merged record is not Valid (receiver cpus, defaults nodes) the call may raise.         *)
WithDefaults(r, d) ==
    [k \in Fields |->
        CASE k \in QFields -> IF IsSet(r, k) THEN r[k] ELSE d[k]
          [] k = "extra"   -> [x \in DOMAIN r.extra \cup DOMAIN d.extra |->
                                  IF x \in DOMAIN r.extra THEN r.extra[x] ELSE d.extra[x]]
          [] k = "mode"    -> r.mode]
WithDefaultsMayRaise(r, d) == ~Valid(WithDefaults(r, d))
WithDefaultsOK(r, d, out) ==
    LET ref == WithDefaults(r, d) IN
    /\ \A k \in QFields : out[k] = ref[k]
    /\ \A x \in DOMAIN r.extra : x \in DOMAIN out.extra /\ out.extra[x] = r.extra[x]
    /\ \A x \in DOMAIN out.extra : x \in DOMAIN ref.extra /\ out.extra[x] = ref.extra[x]
    /\ out.mode \in {r.mode, d.mode}
(* the law of the property *)
KeepsAndFills(r, d, out) ==
    \A k \in QFields : out[k] = IF IsSet(r, k) THEN r[k] ELSE d[k]

---------------------------------------------------------------------------
(* update(kwargs...): kwargs is a sequence of <<key, value>> in call order.  A field name replaces  *)
(* the field, "extra_args" (value: a function) is merged into extra, any other key becomes an      *)
(* extra_args entry.  The result is a NEW specification; if it is not Valid the call raises.       *)
RECURSIVE Update(_, _)
Update(r, kw) ==
    IF kw = <<>> THEN r
    ELSE LET k == Head(kw)[1]  v == Head(kw)[2]
             r1 == IF k = "extra_args"
                   THEN [r EXCEPT !.extra = [x \in DOMAIN r.extra \cup DOMAIN v |->
                                                 IF x \in DOMAIN v THEN v[x] ELSE r.extra[x]]]
                   ELSE IF k \in Fields \ {"extra"} THEN [r EXCEPT ![k] = v]
                   ELSE [r EXCEPT !.extra = [x \in DOMAIN r.extra \cup {k} |->
                                                 IF x = k THEN v ELSE r.extra[x]]]
         IN  Update(r1, Tail(kw))
UpdateRaises(r, kw) == ~Valid(Update(r, kw))

---------------------------------------------------------------------------
(* dict(): the set fields, plus extra_args and parallelization_mode always.  from_dict: the rest   *)
(* is None / default.                                                                              *)
DictKeys(r) == {k \in Fields : IsSet(r, k)}
Dict(r)     == [k \in DictKeys(r) |-> r[k]]
FromDict(d) == [k \in Fields |-> IF k \in DOMAIN d THEN d[k] ELSE NoneOf(k)]

(* to_slurm_options must mention every quantity that is set (a zero gpus request needs no option)  *)
(* and every extra_args entry.                                                                     *)
SlurmMentions(r) ==
    {k \in QFields : IsSet(r, k) /\ ~(k = "gpus" /\ r.gpus = 0)} \cup {"extra:" \o x : x \in DOMAIN r.extra}

(* THE OPTION STRING.  to_slurm_options returns blank-separated TOKENS  flag=value, one per set       *)
(* quantity (in the order of the code: cpus, gpus, nodes, cpus_per_node, memory, time, partition)     *)
(* followed by one per extra_args entry.  A token is [flag, val]; a value is tokenised by its shape   *)
(* into ONE uniform record (TLC cannot compare mixed types):                                          *)
(*     5          [kind |-> "int",  i |-> 5, o |-> <<>>,            s |-> ""]                         *)
(*     gpu:2      [kind |-> "gpu",  i |-> 2, o |-> <<>>,            s |-> ""]                         *)
(*     1.5GB      [kind |-> "mem",  i |-> 0, o |-> <<memory token>>, s |-> ""]                        *)
(*     2:00:00    [kind |-> "time", i |-> 0, o |-> <<time token>>,   s |-> ""]                        *)
(*     part       [kind |-> "str",  i |-> 0, o |-> <<>>,            s |-> "part"]                     *)
(* The FLAG NAMES of the quantities are ordinary strings, and extra_args keys are arbitrary strings:  *)
(* an extra_args key may spell the flag of a quantity (`gres` next to gpus for a second generic       *)
(* resource, `mem`, `time`, `partition`, `nodes`, `cpus-per-task`, `cpus-per-node`).  Such an entry   *)
(* is one MORE token; "mentions every quantity that is set" is about the quantity's OWN token         *)
(* (its flag with its value), which must be there whatever the extra_args are called -- and every     *)
(* extra_args entry must be there whatever quantities are set.  Neither replaces the other.           *)
SlurmFlag(k) == CASE k = "cpus"          -> "--cpus-per-task"
                  [] k = "gpus"          -> "--gres"
                  [] k = "nodes"         -> "--nodes"
                  [] k = "cpus_per_node" -> "--cpus-per-node"
                  [] k = "memory"        -> "--mem"
                  [] k = "time"          -> "--time"
                  [] k = "partition"     -> "--partition"
SlurmFlags    == {SlurmFlag(k) : k \in QFields}
OptVal(kind, i, o, s) == [kind |-> kind, i |-> i, o |-> o, s |-> s]
SlurmVal(r, k) == CASE k \in {"cpus", "nodes", "cpus_per_node"} -> OptVal("int", r[k], <<>>, "")
                    [] k = "gpus"      -> OptVal("gpu", r.gpus, <<>>, "")
                    [] k = "memory"    -> OptVal("mem", 0, r.memory, "")
                    [] k = "time"      -> OptVal("time", 0, r.time, "")
                    [] k = "partition" -> OptVal("str", 0, <<>>, r.partition)
Tok(flag, val) == [flag |-> flag, val |-> val]
MentionedQ(r)  == {k \in QFields : IsSet(r, k) /\ ~(k = "gpus" /\ r.gpus = 0)}
QuantityTok(r, k) == Tok(SlurmFlag(k), SlurmVal(r, k))
ExtraTok(r, x)    == Tok("--" \o x, OptVal("int", r.extra[x], <<>>, ""))
RequiredTokens(r) == {QuantityTok(r, k) : k \in MentionedQ(r)} \cup {ExtraTok(r, x) : x \in DOMAIN r.extra}

(* the reference string: quantities in the order of the code, then the extra_args (in any order) *)
QOrder == <<"cpus", "gpus", "nodes", "cpus_per_node", "memory", "time", "partition">>
RECURSIVE ExtraToks(_, _)
ExtraToks(r, K) == IF K = {} THEN <<>>
                   ELSE LET x == CHOOSE y \in K : TRUE IN <<ExtraTok(r, x)>> \o ExtraToks(r, K \ {x})
RECURSIVE QuantityToks(_, _)
QuantityToks(r, i) == IF i > Len(QOrder) THEN <<>>
                      ELSE (IF QOrder[i] \in MentionedQ(r) THEN <<QuantityTok(r, QOrder[i])>> ELSE <<>>)
                           \o QuantityToks(r, i + 1)
SlurmOptions(r) == QuantityToks(r, 1) \o ExtraToks(r, DOMAIN r.extra)

(* Acceptance of an OBSERVED token sequence: every required token occurs in it. *)
SlurmOK(r, opts) == \A t \in RequiredTokens(r) : \E i \in DOMAIN opts : opts[i] = t
(* the extra_args keys of r that spell the flag of a quantity r sets (what makes a case interesting) *)
Colliding(r) == {x \in DOMAIN r.extra : \E k \in MentionedQ(r) : SlurmFlag(k) = "--" \o x}

---------------------------------------------------------------------------
(* SIDE-EFFECT FREEDOM as a history property.  `objs` is the sequence of all specifications that   *)
(* exist (Id = position).  Every combinator appends its result as a new id and leaves every        *)
(* existing id unchanged; a call that raises creates nothing.  An operation is a record            *)
(*   [op, a (operand ids), kw (kwargs, for update)]                                                *)
Result(objs, o) ==
    CASE o.op = "update"        -> Update(objs[o.a[1]], o.kw)
      [] o.op = "combine_max"   -> CombineMax([i \in DOMAIN o.a |-> objs[o.a[i]]])
      [] o.op = "with_defaults" -> WithDefaults(objs[o.a[1]], objs[o.a[2]])
      [] o.op = "roundtrip"     -> FromDict(Dict(objs[o.a[1]]))
Raises(objs, o) == ~Valid(Result(objs, o))
(* An OBSERVATION reads a specification and creates nothing:                                        *)
(*   [op |-> "slurm", a |-> <<id>>]   to_slurm_options() of objs[id]; the observed token sequence   *)
(*   must satisfy SlurmOK for the CURRENT value of that id -- in particular for a specification     *)
(*   that update / with_defaults / combine_max built out of others (defaults that supply gpus and   *)
(*   a function that supplies extra_args gres meet only in the result).                             *)
IsObservation(o) == o.op = "slurm"
ObservationOK(objs, o, opts) == o.op = "slurm" /\ SlurmOK(objs[o.a[1]], opts)
Apply(objs, o)  == IF IsObservation(o) THEN objs
                   ELSE IF Raises(objs, o) THEN objs ELSE Append(objs, Result(objs, o))
(* Acceptance of an OBSERVED outcome (trace validation): a raise is explained iff the reference     *)
(* result is not Valid; a returned specification `new` is explained iff it is an allowed result    *)
(* (ties in combine_max, the don't-cares of with_defaults).                                        *)
ResultOK(objs, o, new) ==
    CASE o.op = "update"        -> ~Raises(objs, o) /\ new = Result(objs, o)
      [] o.op = "combine_max"   -> Valid(new) /\ CombineMaxOK([i \in DOMAIN o.a |-> objs[o.a[i]]], new)
      [] o.op = "with_defaults" -> ~Raises(objs, o) /\ WithDefaultsOK(objs[o.a[1]], objs[o.a[2]], new)
      [] o.op = "roundtrip"     -> new = objs[o.a[1]]
(* the step property: nothing that existed has changed, at most one id was added *)
ExistingUnchanged(objs, objs2) ==
    /\ Len(objs2) \in {Len(objs), Len(objs) + 1}
    /\ \A i \in DOMAIN objs : objs2[i] = objs[i]
=============================================================================
