--------------------------- MODULE TraceRewrites ---------------------------
(* Trace validation for Rewrites (C10).  One ndjson line = one history on one family of pipeline objects:       *)
(*   {ev: [{e, id, desc, kind, src, src2, args, new_ids, struct, exc, out, mode, conv, inputs, roots, val, vals}]} *)
(* (all fields always present, blanks where not applicable)                                                    *)
(*   new(id, desc)                          a pipeline built from a description (original names)               *)
(*   rewrite(kind, src, src2, args, new_ids, struct)  the rewrite succeeded; struct[k] = [outs, roots] observed  *)
(*                                          on new_ids[k] (for in-place kinds new_ids = <<src>>)                  *)
(*   refuse(kind, src, src2, args, exc)     the rewrite (or mutation) raised                                     *)
(*   mutate(id, kind, args)                 in-place update_defaults / update_bound / update_renames              *)
(*   eval(id, out, mode, conv, inputs, roots, val | vals)   one pipeline(out, **inputs) (mode call) or one          *)
(*                                          Pipeline.map(inputs) (mode map; vals = every returned output)          *)
(*   probe(id, struct)                      structure [outs, roots] of a throw-away copy() of object id             *)
(* args = [ren, scope, ins, outs, exc, S, N, out, p, k, f, v] ; names in events are CURRENT names.                *)
EXTENDS Rewrites, Json, IOUtils, TLCExt
Traces == ndJsonDeserialize(IOEnv.TRACE_FILE)
NT == Len(Traces)
ASSUME \A i \in 1..NT : TLCSet(i, 0)

VARIABLES tid, l, chk,       \* chk: the store changed in the last step (laws are evaluated once per store state)
          pre               \* the store before the last step (history variable for NoAliasing)
T  == Traces[tid]
Ev == T.ev[l]
IsEvent(e) == l <= Len(T.ev) /\ Ev.e = e /\ l' = l + 1 /\ pre' = objs /\ UNCHANGED tid

Init == tid \in 1..NT /\ l = 1 /\ chk = FALSE /\ pre = << >> /\ StoreInit

A  == Ev.args
O(a) == objs[a]
Known(o, names) == \A c \in names : HasCur(o, c)
SetsOf(ss) == {SeqToSet(ss[k]) : k \in DOMAIN ss}
NestS(o) == {OrigSet(o, s) : s \in SetsOf(A.S)}
NestKnown(o) == Known(o, UNION SetsOf(A.S) \cup SeqToSet(A.N)) /\ \A s \in SetsOf(A.S) : s # {}
(* the structure the user observes on the new / changed objects equals the model's *)
StructMatches == /\ Len(Ev.struct) = Len(Ev.new_ids)
                 /\ \A k \in DOMAIN Ev.new_ids :
                       /\ Ev.new_ids[k] \in DOMAIN objs'
                       /\ LET st == StructOf(objs'[Ev.new_ids[k]])
                          IN  st.outs = SeqToSet(Ev.struct[k].outs) /\ st.roots = SeqToSet(Ev.struct[k].roots)
SplitParts(o) == [k \in DOMAIN Ev.struct |-> OrigSet(o, SeqToSet(Ev.struct[k].outs))]

TNew == IsEvent("new") /\ New(Ev.id, Ev.desc) /\ chk' = TRUE

Rewrite(kind, a) ==
    LET o == O(a) IN
    CASE kind = "copy"        -> Len(Ev.new_ids) = 1 /\ Copy(a, Ev.new_ids[1])
      [] kind = "pickle"      -> Len(Ev.new_ids) = 1 /\ PickleRoundTrip(a, Ev.new_ids[1])
      [] kind = "join"        -> Len(Ev.new_ids) = 1 /\ Join(a, Ev.src2, Ev.new_ids[1])
      [] kind = "update_renames" -> Ev.new_ids = <<a>> /\ UpdateRenames(a, A.ren)
      [] kind = "overwrite_renames" -> Ev.new_ids = <<a>> /\ OverwriteRenames(a, A.ren)
      [] kind = "update_scope"   -> Ev.new_ids = <<a>> /\ UpdateScope(a, A.scope, A.ins, A.outs, A.exc)
      [] kind = "remove_scope"   -> Ev.new_ids = <<a>> /\ RemoveScope(a, A.ins, A.outs, A.exc)
      [] kind = "nest"        -> Ev.new_ids = <<a>> /\ NestKnown(o) /\ NestFuncs(a, NestS(o), OrigSet(o, SeqToSet(A.N)))
      [] kind = "simplified"  -> /\ Len(Ev.new_ids) = 1 /\ Len(Ev.struct) = 1
                                 /\ Known(o, {A.out} \cup SeqToSet(Ev.struct[1].outs))
                                 /\ Simplified(a, OrigOf(o, A.out), Ev.new_ids[1], OrigSet(o, SeqToSet(Ev.struct[1].outs)))
      [] kind = "split"       -> /\ Len(Ev.struct) = Len(Ev.new_ids)
                                 /\ \A k \in DOMAIN Ev.struct : Known(o, SeqToSet(Ev.struct[k].outs))
                                 /\ SplitDisconnected(a, Ev.new_ids, SplitParts(o))
      [] kind = "add_mapspec_axis" -> Ev.new_ids = <<a>> /\ HasCur(o, A.p) /\ AddMapspecAxis(a, OrigOf(o, A.p), A.k)
      [] OTHER -> FALSE
TRewrite == IsEvent("rewrite") /\ Ev.src \in Live /\ Rewrite(Ev.kind, Ev.src) /\ StructMatches /\ chk' = TRUE

(* A refusal is explained only when the model does not require the operation to succeed.  After a refused in-place  *)
(* operation the object is no longer observed.                                                                  *)
Keep == Step("refuse", {}, objs)
Refuse(kind, a) ==
    LET o == O(a) IN
    CASE kind = "join"        -> Ev.src2 \in Live /\ ~JoinMustAccept(o, O(Ev.src2), Ev.id) /\ Keep
      [] kind = "simplified"  -> ~(HasCur(o, A.out) /\ SimplifyMustAccept(o, OrigOf(o, A.out))) /\ Keep
      [] kind = "split"       -> ~SplitMustAccept(o) /\ Keep
      [] kind = "nest"        -> ~(NestKnown(o) /\ NestMustAccept(o, NestS(o), OrigSet(o, SeqToSet(A.N)))) /\ Discard(a, "refuse")
      [] kind = "update_renames" -> ~RenamesDefined(o, A.ren) /\ Discard(a, "refuse")
      [] kind = "overwrite_renames" -> ~OverwriteDefined(o, A.ren) /\ Discard(a, "refuse")
      [] kind = "update_scope"   -> ~ScopeDefined(o, A.scope, A.ins, A.outs, A.exc) /\ Discard(a, "refuse")
      [] kind = "remove_scope"   -> ~ScopeDefined(o, "", A.ins, A.outs, A.exc) /\ Discard(a, "refuse")
      [] kind = "add_mapspec_axis" -> ~(HasCur(o, A.p) /\ AddAxisWellFormed(o, OrigOf(o, A.p), A.k)) /\ Discard(a, "refuse")
      [] kind = "update_defaults"  -> ~(HasCur(o, A.p) /\ DefaultsWellFormed(o, OrigOf(o, A.p))) /\ Discard(a, "refuse")
      [] kind = "update_bound"     -> ~(HasCur(o, A.p) /\ HasCur(o, A.f) /\ OrigOf(o, A.f) \in AllOutputs(o.sem)
                                        /\ BoundWellFormed(o, FuncOf(o.sem, OrigOf(o, A.f)), OrigOf(o, A.p))) /\ Discard(a, "refuse")
      [] OTHER -> FALSE            \* copy and pickle round trip are total
TRefuse == IsEvent("refuse") /\ Ev.src \in Live /\ Refuse(Ev.kind, Ev.src) /\ chk' = TRUE

Mutate(kind, a) ==
    LET o == O(a) IN
    CASE kind = "update_defaults" -> HasCur(o, A.p) /\ MutateDefaults(a, OrigOf(o, A.p), A.v)
      [] kind = "update_bound"    -> /\ HasCur(o, A.p) /\ HasCur(o, A.f) /\ OrigOf(o, A.f) \in AllOutputs(o.sem)
                                     /\ MutateBound(a, FuncOf(o.sem, OrigOf(o, A.f)), OrigOf(o, A.p), A.v)
      [] kind = "update_renames"  -> MutateRenames(a, A.ren)
      [] kind = "overwrite_renames" -> OverwriteRenames(a, A.ren)
      [] OTHER -> FALSE
TMutate == IsEvent("mutate") /\ Ev.id \in Live /\ Mutate(Ev.kind, Ev.id) /\ chk' = TRUE

(* the names Pipeline.root_args lists are root arguments of the model (a bound parameter is none) *)
RootsOK(o) == SeqToSet(Ev.roots) \subseteq CurSet(o, FreeRoots(o.sem))
TEval == /\ IsEvent("eval") /\ Ev.id \in Live /\ chk' = FALSE
         /\ LET o == O(Ev.id) IN
            /\ RootsOK(o)
            /\ IF Ev.mode = "call" THEN EvalObsStep(Ev.id, Ev.out, Ev.inputs, "call", Ev.val)
               ELSE /\ NamesKnown(o, Ev.inputs) /\ ValidMapRequest(o.sem, UnrenPairs(o, Ev.inputs))
                    /\ {Ev.vals[k][1] : k \in DOMAIN Ev.vals} = CurSet(o, o.outs)
                    /\ LET den == EvalMap(o, Ev.inputs) IN \A k \in DOMAIN Ev.vals : Ev.vals[k][2] = den[OrigOf(o, Ev.vals[k][1])]
                    /\ UNCHANGED rvars

(* a throw-away copy of a live object shows the structure of that object's entry (cheap observation after every step:  *)
(* it re-reads the per-function renames / defaults / bound state, which is where objects could share mutable state)     *)
TProbe == /\ IsEvent("probe") /\ Ev.id \in Live /\ chk' = FALSE /\ Len(Ev.struct) = 1 /\ Ev.exc = ""
          /\ LET st == StructOf(O(Ev.id)) IN st.outs = SeqToSet(Ev.struct[1].outs) /\ st.roots = SeqToSet(Ev.struct[1].roots)
          /\ UNCHANGED rvars

Next == TNew \/ TRewrite \/ TRefuse \/ TMutate \/ TEval \/ TProbe
Spec == Init /\ [][Next]_<<rvars, tid, l, chk, pre>>

Track == IF l > TLCGet(tid) THEN TLCSet(tid, l) ELSE TRUE
InvNoAliasing == NoAliasingFrom(pre)
InvStoreOK    == chk => StoreOK
(* RewritePreserves on the descriptions actually met: renaming commutes with Eval, the observation through ren is the *)
(* evaluation of sem, components evaluate like the whole (call-style descriptions; every root argument supplied)    *)
KVal(n) == Atom("@k_" \o n)
InvRewritePreserves ==
    chk => \A a \in Live : LET o == objs[a]  kw == KwOfSet(FreeRoots(o.sem), KVal) IN
              ~HasAnyMs(o.sem) =>
                 /\ \A out \in o.outs : LawRenameCall(o, kw, out) /\ LawObsCall(o, kw, out)
                 /\ LawSplit(o, kw)
Accepted == \A i \in 1..NT : (TLCGet(i) = Len(Traces[i].ev) + 1) \/ PrintT(<<"REJECT", i, TLCGet(i)>>)
=============================================================================
