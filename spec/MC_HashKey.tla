---------------------------- MODULE MC_HashKey ----------------------------
(***************************************************************************)
(* Model-checking instance of HashKey (mechanism A, universe export).       *)
(*                                                                         *)
(* The universe is written here, in TLA+: 2 atoms per scalar type,          *)
(* containers of length <= 2, depth <= Depth (1 = quick, 2 = thorough).     *)
(* The full product is far beyond 10^3 values at depth 2 (mappings alone:   *)
(* 90 key pairs x 100 value pairs per mapping type), so containers draw      *)
(* their members from small POOLS chosen to contain the look-alikes the      *)
(* property names: int/float/bool of equal value, str vs bytes, [1,2] vs     *)
(* (1,2) vs deque vs array, {1:2} vs OrderedDict vs defaultdict vs Counter,  *)
(* both insertion orders of every 2-member set / mapping, mixed-type         *)
(* members and keys, arrays equal in data but different in dtype / shape,    *)
(* Series / DataFrames equal in data but different in index, order, name,    *)
(* columns; equal arrays in different memory layouts and a vs a.T; equal     *)
(* frozenset members / keys materialised with different iteration order;      *)
(* pandas objects equal in cells whose row / column labels are carried by a   *)
(* RangeIndex with another start / step (slices of a bigger frame), and the   *)
(* same labels carried by a RangeIndex and by a materialised Index.           *)
(* Everything is stated as set expressions below; nothing is sampled.        *)
(*                                                                         *)
(* One state per universe member (`case` = its index in U); all ordered      *)
(* pairs <<case, j>> are evaluated in the invariants of that state.          *)
(* Shard / NShards split the cases over several TLC processes.               *)
(*                                                                         *)
(* A second instance in this module (CallSpec, at the end) does the same for *)
(* the universe of CALLS of a memoized function (HashKey section 4).         *)
(***************************************************************************)
EXTENDS HashKey, Json, SequencesExt
CONSTANTS Depth, Shard, NShards

---------------------------------------------------------------------------
(* atoms: 2 per scalar type; 1 == 1.0 == True are the numeric look-alikes *)
I0 == IntV(0)    I1 == IntV(1)    I2 == IntV(2)      \* I0 is used as an index label only
BT == Bool(TRUE)   BF == Bool(FALSE)
F1 == Float(2)     F25 == Float(5)                \* 1.0 and 2.5
Sa == Str("a")     Sb == Str("b")
Ba == Bytes("a")   Bb == Bytes("b")
Atoms == {I1, I2, BT, BF, F1, F25, Sa, Sb, Ba, Bb}

(* sequences of length <= 2 over a pool; insertion sequences without ==-duplicates; mapping bodies *)
Len0       == {<<>>}
Len1(P)    == {<<x>> : x \in P}
Len2(P)    == {<<x, y>> : x \in P, y \in P}
UpTo2(P)   == Len0 \cup Len1(P) \cup Len2(P)
OfLen(P, n) == IF n = 0 THEN Len0 ELSE IF n = 1 THEN Len1(P) ELSE Len2(P)
Distinct2(P) == {q \in UpTo2(P) : Len(q) = 2 => ~PyEqual(q[1], q[2])}
Body1(KS, WS) == {<<Pair(k, x)>> : k \in KS, x \in WS}
Body2(KS, WS) == {<<Pair(k1, x1), Pair(k2, x2)>> : k1 \in KS, k2 \in KS, x1 \in WS, x2 \in WS}
Bodies(K1, KS, WS) == Len0 \cup Body1(K1, WS)
                      \cup {p \in Body2(KS, WS) : ~PyEqual(p[1].a[1], p[2].a[1])}
IntSeq(q) == IF q = <<>> THEN <<>> ELSE [i \in DOMAIN q |-> IntV(q[i])]

---------------------------------------------------------------------------
(* depth 1 *)
E1  == {I1, I2, F1, BT, Sa, Ba}        \* member pool: numeric look-alikes, str vs bytes, mixed types
KP1 == {I1, I2, Sa, F1, BT, Ba}        \* keys of one-item mappings
KP  == {I1, I2, Sa}                    \* keys of two-item mappings (both insertion orders, mixed types)
WP  == {I1, Sa}                        \* mapping values

D1Seq   == {Tuple(q) : q \in UpTo2(E1)} \cup {List(q) : q \in UpTo2(E1)}
D1Deque == {Deque(q, m) : q \in UpTo2({I1, I2, Sa}), m \in {0, 2}}
D1Set   == {SetV(q) : q \in Distinct2(E1)} \cup {FrozenSet(q) : q \in Distinct2(E1)}
D1Map   == {Dict(p) : p \in Bodies(KP1, KP, WP)}
           \cup {OrderedDict(p) : p \in Bodies(KP1, KP, WP)}
           \cup {DefaultDict("int", p) : p \in Bodies(KP, KP, WP)}
           \cup {DefaultDict("list", p) : p \in Len0 \cup Body1(KP, WP)}
           \cup {Counter(p) : p \in Bodies(KP1, KP, {I1, I2})}
           \* signed multisets: a zero count (== ignores it: a don't-care) and negative counts (significant content)
           \cup {Counter(<<Pair(Sa, x)>>) : x \in {I0, IntV(-1), IntV(-2)}}
           \cup {Counter(<<Pair(Sa, x), Pair(I1, I2)>>) : x \in {I0, IntV(-1)}}
D1Bytes == {ByteArray(q) : q \in UpTo2({IntV(97), IntV(98)})}
           \cup {PyArray(tc, q) : tc \in {"i", "l"}, q \in UpTo2({I1, I2})}

Shapes == {<<>>, <<0>>, <<1>>, <<2>>, <<1, 1>>, <<1, 2>>, <<2, 1>>}
RECURSIVE NElems(_)
NElems(sh) == IF sh = <<>> THEN 1 ELSE Head(sh) * NElems(Tail(sh))
DataFor(dt) == IF dt = "<f8" THEN {F1, F25} ELSE {I1, I2}
D1Arr == UNION {{NdArray(dt, IntSeq(sh), d) : d \in OfLen(DataFor(dt), NElems(sh))}
                : dt \in {"<i8", "<i4", "<f8"}, sh \in Shapes}

(* pandas: index labels 0/1 in natural order, permuted, repeated; int and float data *)
IndexFor(n) == IF n = 0 THEN {<<>>} ELSE IF n = 1 THEN {<<I0>>, <<I1>>}
               ELSE {<<I0, I1>>, <<I1, I0>>, <<I0, I0>>}
DefaultIndex(n) == IF n = 0 THEN <<>> ELSE IF n = 1 THEN <<I0>> ELSE <<I0, I1>>
SeriesData == UpTo2({I1, I2}) \cup {<<F1>>, <<F1, F25>>}
D1Series == UNION {{Series("s", ix, d) : ix \in IndexFor(Len(d))} : d \in SeriesData}
            \cup {Series("t", DefaultIndex(Len(d)), d) : d \in UpTo2({I1, I2})}
Col(q) == Tuple(q)
D1Frame ==
    UNION {{DataFrame(<<Str("A")>>, ix, <<Col(d)>>) : ix \in IndexFor(Len(d))} : d \in Len1({I1, I2}) \cup Len2({I1, I2})}
    \cup {DataFrame(<<Str("B")>>, <<I0>>, <<Col(d)>>) : d \in Len1({I1, I2})}
    \cup {DataFrame(<<Str("A"), Str("B")>>, ix, <<Col(<<x>>), Col(<<y>>)>>) : ix \in IndexFor(1), x \in {I1, I2}, y \in {I1, I2}}
    \cup {DataFrame(<<Str("B"), Str("A")>>, ix, <<Col(<<x>>), Col(<<y>>)>>) : ix \in IndexFor(1), x \in {I1, I2}, y \in {I1, I2}}
    \cup {DataFrame(<<Str("A")>>, <<>>, <<Col(<<>>)>>)}

(* encoder attribute 1: memory layout.  Square arrays a, a.T (non-symmetric), a symmetric one and a      *)
(* fourth, each materialised C-contiguous / Fortran / as a non-contiguous slice / as a transposed view:  *)
(* all four layouts of one array are Eq, while a and a.T (same memory in layouts 0 / 3) are not.         *)
Sq == <<I2, I2>>
LayData == {<<I1, I2, I1, I2>>, <<I1, I1, I2, I2>>, <<I1, I2, I2, I1>>, <<I2, I1, I1, I1>>}
D1Layout == {NdArrayL("<i8", Sq, d, lay) : d \in LayData, lay \in 0..3}
            \cup {NdArrayL("<f8", Sq, d, lay) : d \in {<<F1, F25, F1, F25>>, <<F1, F1, F25, F25>>}, lay \in 0..3}
            \cup {NdArrayL("|O", Sq, d, lay) : d \in {<<I1, Sa, Sb, I2>>, <<I1, Sb, Sa, I2>>}, lay \in {0, 1}}
            \cup {NdArrayL("<i8", <<I2>>, d, 2) : d \in Len2({I1, I2})}

(* encoder attribute 2: insertion order of frozensets that are members of a set / keys of a mapping.     *)
(* {0, 8} collide in the 8-slot table (iteration order = insertion order), {"a", "b"} follow the hash     *)
(* seed; the partner frozenset sorts BETWEEN the two iteration orders of the first, so a key that follows *)
(* iteration order flips the two members.  (Depth 2, but part of every tier.)                             *)
I8 == IntV(8)      Sab == Str("ab")
FlipFamily(X, y) ==
    X \cup {SetV(<<x, y>>) : x \in X} \cup {SetV(<<y, x>>) : x \in X}
      \cup {Dict(<<Pair(x, I1), Pair(y, I2)>>) : x \in X} \cup {Dict(<<Pair(y, I2), Pair(x, I1)>>) : x \in X}
      \cup {Counter(<<Pair(x, I1), Pair(y, I2)>>) : x \in X} \cup {DefaultDict("int", <<Pair(y, I2), Pair(x, I1)>>) : x \in X}
Flips == FlipFamily({FrozenSet(<<I0, I8>>), FrozenSet(<<I8, I0>>)}, FrozenSet(<<I1>>))
         \cup FlipFamily({FrozenSet(<<Sa, Sb>>), FrozenSet(<<Sb, Sa>>)}, FrozenSet(<<Sab>>))

(* encoder attribute 3: label representation of pandas objects (HashKey!DataFrameR).  Row labels of two rows:  *)
(* [0, 1] the default RangeIndex(0, 2) = big.iloc[0:2];  [1, 2] = big.iloc[1:3], a slice with another START;    *)
(* [0, 2] = big.iloc[0:4:2], another STEP;  [1, 0] = big.iloc[1::-1], a negative step.  Each with the SAME cell  *)
(* values (cells that repeat in the big frame), carried by a RangeIndex (rep 1) and by a materialised Index       *)
(* (rep 0): the two representations of one label sequence are Eq, different label sequences are not.  Likewise    *)
(* one row / no row, two columns, Series, and integer COLUMN labels carried by a RangeIndex (pd.DataFrame(ndarray)).*)
RangeLabels2 == {<<I0, I1>>, <<I1, I2>>, <<I0, I2>>, <<I1, I0>>}
RangeLabels1 == {<<I0>>, <<I1>>}
RangeCells2  == {<<I1, I2>>, <<I1, I1>>}
D1Range ==
    {DataFrameR(<<Str("A")>>, ix, <<Col(d)>>, r) : ix \in RangeLabels2, d \in RangeCells2, r \in 0..1}
    \cup {DataFrameR(<<Str("A")>>, ix, <<Col(<<x>>)>>, r) : ix \in RangeLabels1, x \in {I1, I2}, r \in 0..1}
    \cup {DataFrameR(<<Str("A")>>, <<>>, <<Col(<<>>)>>, 1)}
    \cup {DataFrameR(<<Str("A"), Str("B")>>, ix, <<Col(<<I1, I2>>), Col(<<I2, I1>>)>>, r) : ix \in RangeLabels2, r \in 0..1}
    \cup {DataFrameR(cl, <<I0>>, <<Col(<<I1>>), Col(<<I2>>)>>, r) : cl \in {<<I0, I1>>, <<I1, I2>>, <<I1, I0>>}, r \in 0..3}
    \cup {DataFrameR(<<I0>>, ix, <<Col(<<I1, I2>>)>>, r) : ix \in {<<I0, I1>>, <<I1, I2>>}, r \in 0..3}
    \cup {SeriesR("s", ix, d, r) : ix \in RangeLabels2, d \in RangeCells2, r \in 0..1}
    \cup {SeriesR("s", ix, <<I1>>, r) : ix \in RangeLabels1, r \in 0..1}
    \cup {SeriesR("s", <<>>, <<>>, 1)}

D1Obj == {Obj(c, <<x, y>>) : c \in {"PA", "PB"}, x \in {I1, Sa, F1}, y \in {I1, Sa, F1}}

D1 == D1Seq \cup D1Deque \cup D1Set \cup D1Map \cup D1Bytes \cup D1Arr \cup D1Series \cup D1Frame \cup D1Obj
      \cup D1Layout \cup Flips \cup D1Range

---------------------------------------------------------------------------
(* depth 2: members drawn from look-alike containers of depth 1 *)
L12 == List(<<I1, I2>>)     T12 == Tuple(<<I1, I2>>)
A12 == NdArray("<i8", <<I2>>, <<I1, I2>>)
P2 == {L12, List(<<I2, I1>>), List(<<I1>>), List(<<>>), T12, Tuple(<<I1, Sa>>), Tuple(<<>>),
       SetV(<<I1, I2>>), FrozenSet(<<I1, I2>>), Dict(<<Pair(I1, I2)>>), OrderedDict(<<Pair(I1, I2)>>),
       Deque(<<I1, I2>>, 0), A12, I1, Sa}
D2Seq == {Tuple(q) : q \in UpTo2(P2)} \cup {List(q) : q \in UpTo2(P2)}

(* hashable members: tuples that sorted() can / cannot compare, frozensets (a partial order) *)
H2 == {T12, Tuple(<<I1, Sa>>), Tuple(<<I2, Sb>>), Tuple(<<>>),
       FrozenSet(<<I1>>), FrozenSet(<<I2>>), FrozenSet(<<I1, I2>>), FrozenSet(<<Sa>>), FrozenSet(<<Sb>>), I1, Sa}
D2Set == {SetV(q) : q \in Distinct2(H2)} \cup {FrozenSet(q) : q \in Distinct2(H2)}

KP2 == {I1, Sa, T12, FrozenSet(<<Sa>>), FrozenSet(<<Sb>>)}
WP2 == {L12, I1}
D2Map == {Dict(p) : p \in Bodies(KP2, KP2, WP2)} \cup {OrderedDict(p) : p \in Bodies(KP2, KP2, WP2)}
         \cup {Dict(<<Pair(Sa, x)>>) : x \in P2} \cup {DefaultDict("list", <<Pair(Sa, x)>>) : x \in {L12, List(<<>>)}}

D2Arr == {NdArray("|O", <<IntV(Len(q))>>, q) : q \in Len1({I1, Sa, L12, List(<<I1>>), T12}) \cup Len2({I1, Sa, L12, List(<<I1>>), T12})}

Dab == Dict(<<Pair(Sa, I1), Pair(Sb, I2)>>)     Dba == Dict(<<Pair(Sb, I2), Pair(Sa, I1)>>)
D2Obj == {Obj(c, <<x, I1>>) : c \in {"PA", "PB"},
                              x \in {L12, T12, Dab, Dba, SetV(<<Sa, Sb>>), SetV(<<Sb, Sa>>), FrozenSet(<<Sa, Sb>>)}}

PandasPool == {Series("s", <<I0, I1>>, <<I1, I2>>), Series("s", <<I1, I0>>, <<I2, I1>>),
               DataFrameR(<<Str("A")>>, <<I0, I1>>, <<Col(<<I1, I2>>)>>, 1), DataFrameR(<<Str("A")>>, <<I1, I2>>, <<Col(<<I1, I2>>)>>, 1),
               DataFrame(<<Str("A")>>, <<I0, I1>>, <<Col(<<I1, I2>>)>>), DataFrame(<<Str("A")>>, <<I1, I0>>, <<Col(<<I1, I2>>)>>)}
D2Misc == {List(<<x>>) : x \in PandasPool} \cup {Tuple(<<x>>) : x \in PandasPool}
          \cup {Dict(<<Pair(Sa, x)>>) : x \in PandasPool}
          \cup {List(<<x>>) : x \in D2Obj} \cup {Dict(<<Pair(Sa, x), Pair(Sb, x)>>) : x \in D2Obj}

D2 == D2Seq \cup D2Set \cup D2Map \cup D2Arr \cup D2Obj \cup D2Misc

Universe == Atoms \cup D1 \cup (IF Depth >= 2 THEN D2 ELSE {})

---------------------------------------------------------------------------
U == SetToSeq(Universe)          \* evaluated once; TLC's set order is deterministic
N == Len(U)
KC == [i \in 1..N |-> KeyVal(U[i], AsCoded)]       PC == [i \in 1..N |-> Problems(U[i], AsCoded)]
KR == [i \in 1..N |-> KeyVal(U[i], Repaired)]      PR == [i \in 1..N |-> Problems(U[i], Repaired)]
KX == [i \in 1..N |-> KeyVal(U[i], SkipRange)]     \* the variant "None for a RangeIndex" (teeth)

VARIABLES case, out
Expect(i) ==
    LET eq == {j \in 1..N : Eq(U[i], U[j])}                          \* expected pattern (the oracle)
        dc == {j \in 1..N : DontCare(U[i], U[j])}
        kx == {j \in 1..N : KX[j] = KX[i]}                           \* key class under the variant "None for a RangeIndex"
    IN [i      |-> i,
        v      |-> U[i],
        eq     |-> eq,
        dc     |-> dc,
        native |-> ~HasObj(U[i]),                              \* natively handled: same key in every process
        asis_fs |-> HasAsIsFrozenSet(U[i]),                    \* pickle of the key may follow iteration order
        mprob  |-> PC[i],                                      \* the scheme as coded: where it is not total ...
        mkc    |-> IF PC[i] = {} THEN {j \in 1..N : PC[j] = {} /\ KC[j] = KC[i]} ELSE {},   \* ... and its key classes
        mkr    |-> {j \in 1..N : KR[j] = KR[i]},               \* key classes of the repaired scheme
        xcoll  |-> kx \ (eq \cup dc),                          \* where the variant breaks KeySound ...
        xsplit |-> (eq \ dc) \ kx]                             \* ... and KeyComplete
Init == /\ case \in {i \in 1..N : i % NShards = Shard}
        /\ out = Expect(case)
Next == UNCHANGED <<case, out>>
Spec == Init /\ [][Next]_<<case, out>>

---------------------------------------------------------------------------
(* sanity of the universe and of the oracle *)
InvWellFormed == WellFormed(U[case])
InvEqEquivalence == /\ case \in out.eq
                    /\ \A j \in 1..N : (j \in out.eq) = Eq(U[j], U[case])
                    /\ \A j \in out.eq : {k \in 1..N : Eq(U[j], U[k])} = out.eq
InvDontCareSym == /\ case \notin out.dc
                  /\ \A j \in 1..N : (j \in out.dc) = DontCare(U[j], U[case])
InvEqRefinesPy == \A j \in out.eq : PyEqual(U[case], U[j])
(* the laws of C15 for the repaired scheme: total, sound, complete (up to the don't-care class) *)
InvRepairedTotal    == PR[case] = {}
InvRepairedSound    == \A j \in 1..N : KR[j] = KR[case] => j \in out.eq \cup out.dc
InvRepairedComplete == \A j \in out.eq \ out.dc : KR[j] = KR[case]
(* the same two laws exactly as stated in HashKey (no cached arrays), on every LawStride-th case *)
LawStride == IF Depth >= 2 THEN 16 ELSE 4
InvLawsAsOperators  == (case % LawStride # 0) \/ \A j \in 1..N : KeySound(U[case], U[j], Repaired) /\ KeyComplete(U[case], U[j], Repaired)

(* export: the expected pattern, and where the scheme AS CODED is not total / sound / complete *)
Emit == /\ PrintT(<<"VAL", ToJson(out)>>)
        /\ \A j \in out.mkc \ (out.eq \cup out.dc) : PrintT(<<"CODED_COLLISION", case, j>>)
        /\ (out.mprob = {} => \A j \in out.eq \ (out.dc \cup out.mkc) : PC[j] # {} \/ PrintT(<<"CODED_SPLIT", case, j>>))

---------------------------------------------------------------------------
(* SECOND INSTANCE: calls of a memoized function (HashKey section 4), specification CallSpec.          *)
(*                                                                                                    *)
(* The universe of calls f( *args, **kw), for both signatures.  Keyword names "q", "r" (parameters of   *)
(* the fixed signature).  The argument pool CX holds, next to two ints and a list, the LOOK-ALIKES OF   *)
(* THE PARTS OF A CALL: tuples that could be an `args`, dicts with string keys that could be a          *)
(* `kwargs`, a (name, value) tuple that could be one keyword item.  The universe is closed under         *)
(* "packing": for every tuple t in CT and dict d in CD both the call f( *t, **d) and the positional-only  *)
(* call f(t, d) are members, likewise f(x, q=y) / f(x, y) / f(x, r=y) / f(x, ("q", y)) and f( *t) / f(t). *)
(* Quick tier (Depth 1): positional sequences of length 2 are ints x ints, tuple x dict, dict x tuple    *)
(* and 1 x anything; thorough (Depth >= 2): every sequence of length <= 2 over CX.                       *)
Nq == Str("q")     Nr == Str("r")
L1 == List(<<I1>>)
KwBodies == {<<>>, <<Pair(Nq, I1)>>, <<Pair(Nq, I2)>>, <<Pair(Nr, I1)>>, <<Pair(Nq, L1)>>,
             <<Pair(Nq, I1), Pair(Nr, I2)>>, <<Pair(Nr, I2), Pair(Nq, I1)>>}      \* the last two: one call, written in two orders
CT == {Tuple(<<>>), Tuple(<<I1>>), T12, Tuple(<<Nq, I1>>)}                         \* could be an `args` / a keyword item
CD == {Dict(<<>>), Dict(<<Pair(Nq, I1)>>), Dict(<<Pair(Nq, L1)>>), Dict(<<Pair(Nq, I1), Pair(Nr, I2)>>)}   \* could be a `kwargs`
CX == {I1, I2, L1} \cup CT \cup CD
CallArgSeqs == IF Depth >= 2 THEN UpTo2(CX)
               ELSE Len0 \cup Len1(CX) \cup Len2({I1, I2})
                    \cup {<<t, d>> : t \in CT, d \in CD} \cup {<<d, t>> : t \in CT, d \in CD}
                    \cup {<<I1, x>> : x \in CX}
CallUniverse == {c \in {Call(sig, q, k) : sig \in {"var", "fixed"}, q \in CallArgSeqs, k \in KwBodies} : Binds(c)}

CU == SetToSeq(CallUniverse)
CN == Len(CU)
CK  == [i \in 1..CN |-> MemoKey(CU[i], WrapperAsCoded, Repaired)]      \* the wrapper as coded over the repaired to_hashable
CKB == [i \in 1..CN |-> MemoKey(CU[i], {"bareargs"}, Repaired)]        \* the two variants (teeth)
CKV == [i \in 1..CN |-> MemoKey(CU[i], {"kwvalues"}, Repaired)]
SameFn(i, j) == CU[i].s = CU[j].s                                      \* calls of one function share one cache
FnIdx == [sg \in {"var", "fixed"} |-> {j \in 1..CN : CU[j].s = sg}]     \* the calls of each function
Fn(i) == FnIdx[CU[i].s]
CallLawStride == 2 * LawStride
BV == [i \in 1..CN |-> Tuple(Bound(CU[i]))]                            \* what the function receives
CV == [i \in 1..CN |-> CallV(CU[i])]                                   \* the object (args, kwargs)

(* The expected pattern is decided by the operators of HashKey (SameArguments, Eq, CallDontCare).  Only to    *)
(* keep the quadratic evaluation cheap they are applied to the candidates a necessary condition leaves:       *)
(* each of the three relations implies Python-equality of what the functions receive (pyb) or of the          *)
(* (args, kwargs) objects (pyc).  InvCallOracle re-evaluates them WITHOUT the prefilter on every              *)
(* CallLawStride-th case.                                                                                     *)
CallExpect(i) ==
    LET pyb  == {j \in Fn(i) : PyEqual(BV[i], BV[j])}
        pyc  == {j \in Fn(i) : PyEqual(CV[i], CV[j])}
        same == {j \in pyb : SameArguments(CU[i], CU[j])}               \* expected pattern (the oracle)
        dc   == {j \in pyb \cup pyc : CallDontCare(CU[i], CU[j])}
    IN [i     |-> i,
        v     |-> CU[i],
        bound |-> BV[i],                                               \* what the function must receive
        eq    |-> {j \in pyc : Eq(CU[i], CU[j])},                      \* the same call (possibly written in another order)
        same  |-> same,
        dc    |-> dc,
        mk    |-> {j \in Fn(i) : CK[j] = CK[i]},                       \* key classes of the wrapper as coded
        bare  |-> {j \in Fn(i) : CKB[j] = CKB[i]} \ (same \cup dc),    \* where the variants break MemoSound
        kwvalues |-> {j \in Fn(i) : CKV[j] = CKV[i]} \ (same \cup dc)]
CallInit == /\ case \in {i \in 1..CN : i % NShards = Shard}
            /\ out = CallExpect(case)
CallSpec == CallInit /\ [][Next]_<<case, out>>

(* sanity of the universe and of the oracle *)
InvCallWellFormed == CallWellFormed(CU[case])
InvCallOracle == /\ case \in out.eq /\ out.eq \subseteq out.same /\ case \notin out.dc
                 /\ \A j \in out.same \cup out.dc : SameFn(case, j)
                 /\ (case % CallLawStride = 0) =>
                        /\ \A j \in 1..CN : /\ (j \in out.same) = SameArguments(CU[j], CU[case])
                                            /\ (j \in out.dc) = CallDontCare(CU[j], CU[case])
                                            /\ (j \in out.eq) = Eq(CU[j], CU[case])
                        /\ \A j \in out.same : {k \in 1..CN : SameArguments(CU[j], CU[k])} = out.same
(* the laws for the wrapper as coded (over the repaired to_hashable): total, sound, complete *)
InvCallTotal    == MemoTotal(CU[case], Repaired)
InvCallSound    == \A j \in Fn(case) : CK[j] = CK[case] => j \in out.same \cup out.dc
InvCallComplete == \A j \in out.eq \ out.dc : CK[j] = CK[case]
InvCallLawsAsOperators ==
    (case % CallLawStride # 0) \/ \A j \in 1..CN : /\ MemoSound(CU[case], CU[j], WrapperAsCoded, Repaired)
                                                /\ MemoComplete(CU[case], CU[j], WrapperAsCoded, Repaired)
CallEmit == PrintT(<<"CALLV", ToJson(out)>>)
=============================================================================
