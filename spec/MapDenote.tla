----------------------------- MODULE MapDenote ------------------------------
(***************************************************************************)
(* Denotation of Pipeline.map (C01): what array every output of a pipeline *)
(* description denotes for given inputs, according to the MapSpec index    *)
(* notation.                                                               *)
(*                                                                         *)
(*  - a function with a MapSpec that has inputs is applied once per        *)
(*    position of its EXTERNAL index space (output axes that name an input *)
(*    axis): shared index names are zipped, distinct names form an outer   *)
(*    product; a mapped parameter is delivered sliced at the position      *)
(*    (":" axes whole), every other parameter whole;                       *)
(*  - output axes that name no input axis are INTERNAL: they are filled    *)
(*    from the array the function returns (shape = fn.internal);           *)
(*  - a function without a MapSpec, or with a MapSpec without inputs       *)
(*    ("... -> v[j]", a generator), is applied once to whole values.       *)
(*                                                                         *)
(* User functions are free constructors (PipelineStatic): the element of   *)
(* output o computed from arguments args at internal position <<j1,..>> is *)
(* the term  o(args..., #i j1, ...).                                       *)
(* Arrays are nested "#arr" terms, row-major, one nesting level per axis.  *)
(***************************************************************************)
EXTENDS PipelineStatic

ALL == -1                                   \* key component meaning ':'
IdxAtom(j) == Atom("#i" \o ToString(j))
MaskedT == Atom("#masked")

RECURSIVE At(_, _)
At(v, key) == IF Len(key) = 0 THEN v
              ELSE IF Head(key) = ALL THEN Arr([n \in 1..Len(v.a) |-> At(v.a[n], Tail(key))])
              ELSE At(v.a[Head(key) + 1], Tail(key))

IsArr(v) == v.f = "#arr"
RECURSIVE ShapeOf(_, _)
ShapeOf(v, rank) == IF rank = 0 THEN <<>>
                    ELSE IF ~IsArr(v) THEN <<-1>>                      \* not an array of that rank
                    ELSE IF Len(v.a) = 0 THEN <<0>> \o [k \in 1..(rank - 1) |-> 0]
                    ELSE <<Len(v.a)>> \o ShapeOf(v.a[1], rank - 1)
(* v is a rectangular nested array of exactly this shape *)
RECURSIVE HasShape(_, _)
HasShape(v, shape) == IF Len(shape) = 0 THEN TRUE
                      ELSE IsArr(v) /\ Len(v.a) = Head(shape) /\ \A n \in 1..Len(v.a) : HasShape(v.a[n], Tail(shape))

IndexSet(shape) == {t \in [1..Len(shape) -> 0..8] : \A k \in 1..Len(shape) : t[k] < shape[k]}
RECURSIVE BuildArr(_, _, _)                  \* E is a function value on index tuples
BuildArr(shape, prefix, E) == IF Len(shape) = 0 THEN E[prefix]
                              ELSE Arr([n \in 1..Head(shape) |-> BuildArr(Tail(shape), Append(prefix, n - 1), E)])
Prod(shape) == LET RECURSIVE P(_)
                   P(s) == IF Len(s) = 0 THEN 1 ELSE Head(s) * P(Tail(s))
               IN P(shape)

---------------------------------------------------------------------------
(* MapSpec bookkeeping of one function record fn *)
HasMapInputs(fn)  == fn.has_ms /\ Len(fn.ms.ins) > 0
OutAxes(fn)       == fn.ms.outs[1].axes
InSpecNames(fn)   == {fn.ms.ins[k].name : k \in DOMAIN fn.ms.ins}
InSpecOf(fn, p)   == fn.ms.ins[CHOOSE k \in DOMAIN fn.ms.ins : fn.ms.ins[k].name = p]
IsMappedParam(fn, p) == HasMapInputs(fn) /\ p \in InSpecNames(fn)
InputAxisNames(fn) == UNION {{fn.ms.ins[k].axes[m] : m \in DOMAIN fn.ms.ins[k].axes} : k \in DOMAIN fn.ms.ins} \ {":"}
PosIn(seq, x)     == CHOOSE k \in DOMAIN seq : seq[k] = x
ExtMask(fn)       == [k \in DOMAIN OutAxes(fn) |-> OutAxes(fn)[k] \in InputAxisNames(fn)]
(* number of internal axes before/at position k, to index fn.internal *)
InternalRank(fn, k) == Cardinality({m \in 1..k : ~ExtMask(fn)[m]})

---------------------------------------------------------------------------
(* Environment: function from names to values.  Arguments of one call. *)
EnvGet(env, n) == env[n]
BoundOrEnv(d, env, i, p) ==
    IF IsBound(d, i, p) THEN PGet(d.funcs[i].bound, p)
    ELSE IF p \in DOMAIN env THEN env[p]
    ELSE IF HasDefault(d, p) THEN DefaultOf(d, p)
    ELSE MissingV

(* size of axis `a` of function i: taken from any mapped parameter that carries it *)
AxisSize(d, env, i, a) ==
    LET fn == d.funcs[i]
        k  == CHOOSE k \in DOMAIN fn.ms.ins : \E m \in DOMAIN fn.ms.ins[k].axes : fn.ms.ins[k].axes[m] = a
        sp == fn.ms.ins[k]
    IN  ShapeOf(BoundOrEnv(d, env, i, sp.name), Len(sp.axes))[PosIn(sp.axes, a)]

OutShape(d, env, i) ==
    LET fn == d.funcs[i] IN
    [k \in DOMAIN OutAxes(fn) |-> IF ExtMask(fn)[k] THEN AxisSize(d, env, i, OutAxes(fn)[k])
                                  ELSE fn.internal[InternalRank(fn, k)]]
ExtShape(d, env, i) ==
    LET fn == d.funcs[i]  sh == OutShape(d, env, i)
        ext == SelectSeq([k \in DOMAIN sh |-> k], LAMBDA k : ExtMask(fn)[k])
    IN  [m \in DOMAIN ext |-> sh[ext[m]]]

(* key selecting the slice of mapped parameter p at full output position t *)
KeyFor(fn, p, t) == LET sp == InSpecOf(fn, p) IN
    [k \in DOMAIN sp.axes |-> IF sp.axes[k] = ":" THEN ALL ELSE t[PosIn(OutAxes(fn), sp.axes[k])]]

(* the keyword arguments of the invocation of function i that produces position t (external components of t matter) *)
ElemArg(d, env, i, p, t) ==
    LET fn == d.funcs[i]  v == BoundOrEnv(d, env, i, p) IN
    IF IsMappedParam(fn, p) /\ ~IsBound(d, i, p) THEN At(v, KeyFor(fn, p, t)) ELSE v
ElemKwargs(d, env, i, t) ==
    LET ps == d.funcs[i].params IN [k \in DOMAIN ps |-> <<ps[k], ElemArg(d, env, i, ps[k], t)>>]
ElemArgs(d, env, i, t) ==
    LET ps == d.funcs[i].params IN [k \in DOMAIN ps |-> ElemArg(d, env, i, ps[k], t)]
(* optional field `rescpus` = name of a parameter: the function receives (resources_variable) Resources whose cpus count   *)
(* is the length of that WHOLE argument (callable resources, resources_scope="map"), and its result depends on it:        *)
(* one more argument atom "@cpus<n>"                                                                                       *)
HasResCpus(fn) == "rescpus" \in DOMAIN fn /\ fn.rescpus # ""
ResAtoms(d, env, i) == LET fn == d.funcs[i] IN
    IF HasResCpus(fn) THEN <<Atom("@cpus" \o ToString(Len(BoundOrEnv(d, env, i, fn.rescpus).a)))>> ELSE <<>>
(* optional field `impl` = tag of the implementation (Pipeline.replace swaps in a function with the same signature and    *)
(* another body): one more argument atom "@impl:<tag>", so that results of different implementations differ                *)
ImplAtoms(fn) == IF "impl" \in DOMAIN fn /\ fn.impl # "" THEN <<Atom("@impl:" \o fn.impl)>> ELSE <<>>
InternalAtoms(fn, t) ==
    LET ks == SelectSeq([k \in DOMAIN t |-> k], LAMBDA k : ~ExtMask(fn)[k]) IN [m \in DOMAIN ks |-> IdxAtom(t[ks[m]])]

(* value of output o of function i in environment env *)
OutVal(d, env, i, o) ==
    LET fn == d.funcs[i] IN
    IF HasMapInputs(fn)
    THEN LET sh == OutShape(d, env, i)
         IN  BuildArr(sh, <<>>, [t \in IndexSet(sh) |->
                 IF ReturnsNone(d, i) THEN NoneT                       \* None is an ordinary (stored, reloadable) element value
                 ELSE Term(o, ElemArgs(d, env, i, t) \o ResAtoms(d, env, i) \o ImplAtoms(fn) \o InternalAtoms(fn, t))])
    ELSE LET args == [k \in DOMAIN fn.params |-> BoundOrEnv(d, env, i, fn.params[k])] \o ImplAtoms(fn)
         IN  IF ReturnsNone(d, i) THEN NoneT
             ELSE IF Len(fn.internal) = 0 THEN Term(o, args)
             ELSE BuildArr(fn.internal, <<>>,
                           [t \in IndexSet(fn.internal) |-> Term(o, args \o [m \in DOMAIN t |-> IdxAtom(t[m])])])

(* environment after all functions of generation <= g have run; inp = pairs name -> value *)
InitEnv(inp) == [n \in PKeys(inp) |-> PGet(inp, n)]
MaxGen(d) == IF NF(d) = 0 THEN 0 ELSE CHOOSE m \in {GenOf(d, i) : i \in FIdx(d)} : \A i \in FIdx(d) : GenOf(d, i) <= m
RECURSIVE EnvGen(_, _, _, _)
EnvGen(d, inp, F, g) ==                       \* F = set of functions that are run at all
    IF g = 0 THEN InitEnv(inp)
    ELSE LET prev == EnvGen(d, inp, F, g - 1)
             news == UNION {OutputsOf(d, i) : i \in {j \in F : GenOf(d, j) = g}}
         IN  [n \in DOMAIN prev \cup news |->
                 IF n \in DOMAIN prev THEN prev[n] ELSE OutVal(d, prev, FuncOf(d, n), n)]
MapDenoteF(d, inp, F) == EnvGen(d, inp, F, MaxGen(d))
MapDenote(d, inp)     == MapDenoteF(d, inp, FIdx(d))

---------------------------------------------------------------------------
(* Validity of a map request (the documented requirements). *)
MappedRankOK(d, env, i) ==
    LET fn == d.funcs[i] IN
    \A k \in DOMAIN fn.ms.ins :
        LET sp == fn.ms.ins[k]  v == BoundOrEnv(d, env, i, sp.name)
            sh == ShapeOf(v, Len(sp.axes))
        IN  sp.name \in ParamsOf(d, i) /\ (\A m \in DOMAIN sh : sh[m] >= 0) /\ HasShape(v, sh)
ZipDimsOK(d, env, i) ==
    LET fn == d.funcs[i] IN
    \A k1, k2 \in DOMAIN fn.ms.ins : \A m1 \in DOMAIN fn.ms.ins[k1].axes, m2 \in DOMAIN fn.ms.ins[k2].axes :
        (fn.ms.ins[k1].axes[m1] = fn.ms.ins[k2].axes[m2] /\ fn.ms.ins[k1].axes[m1] # ":") =>
            ShapeOf(BoundOrEnv(d, env, i, fn.ms.ins[k1].name), Len(fn.ms.ins[k1].axes))[m1]
          = ShapeOf(BoundOrEnv(d, env, i, fn.ms.ins[k2].name), Len(fn.ms.ins[k2].axes))[m2]
InternalOK(fn) == IF fn.has_ms THEN Len(fn.internal) = Cardinality({k \in DOMAIN OutAxes(fn) : ~ExtMask(fn)[k]})
                  ELSE Len(fn.internal) = 0
FuncOK(d, env, i) == LET fn == d.funcs[i] IN
    /\ InternalOK(fn)
    /\ \A p \in ParamsOf(d, i) : BoundOrEnv(d, env, i, p) # MissingV
    /\ HasMapInputs(fn) => (MappedRankOK(d, env, i) /\ ZipDimsOK(d, env, i))
RECURSIVE ValidUpTo(_, _, _, _)
ValidUpTo(d, inp, F, g) == IF g = 0 THEN TRUE
    ELSE /\ ValidUpTo(d, inp, F, g - 1)
         /\ \A i \in {j \in F : GenOf(d, j) = g} : FuncOK(d, EnvGen(d, inp, F, g - 1), i)
ValidMapRequestF(d, inp, F) == Acyclic(d) /\ PKeys(inp) \cap AllOutputs(d) = {} /\ ValidUpTo(d, inp, F, MaxGen(d))
ValidMapRequest(d, inp) == ValidMapRequestF(d, inp, FIdx(d))
=============================================================================
