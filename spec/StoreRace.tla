------------------------------ MODULE StoreRace ------------------------------
(* Several writers store the SAME path at the same time (pipefunc/_utils.py dump(), reached through FileArray.dump,   *)
(* the single-file outputs and RunInfo).  This happens across two runs of C05: a user function raises in a run with a *)
(* thread pool, Pipeline.map re-raises while other element tasks of that run are still executing, the run is resumed  *)
(* at once (cleanup=False), classifies the elements still in flight as missing and stores them again - concurrently   *)
(* with the left-over tasks.  MapCrash.tla's Atomic protocol (write a temporary sibling, rename it over the target)   *)
(* only keeps its promise if the temporary name is PRIVATE to the writer.                                             *)
(*                                                                                                                    *)
(* The file system is modelled with inodes: a name points to an inode, open("wb") of an existing name truncates the   *)
(* inode it points to (it does not create a new one), a writer keeps writing into the inode it opened whatever the    *)
(* names do, rename moves the name.                                                                                   *)
(*   Private = TRUE : every writer has its own temporary name (pid + thread id)      - the law below holds             *)
(*   Private = FALSE: the writers of one path share the temporary name               - TLC exhibits both failures     *)
EXTENDS Naturals, FiniteSets, TLC
CONSTANTS Writers, Private

Final == <<"final", 0>>
Tmp(w) == IF Private THEN <<"tmp", w>> ELSE <<"tmp", 0>>
Names == {Final} \cup {Tmp(w) : w \in Writers}

VARIABLES names,     \* [a subset of Names -> inode]  (the directory)
          content,   \* [inode -> "partial" | "complete"]
          fd,        \* [Writers -> inode or 0]  the inode the writer has open
          pc         \* [Writers -> "idle" | "opened" | "written" | "done" | "failed"]
vars == <<names, content, fd, pc>>

Inodes == DOMAIN content
Init == names = <<>> /\ content = <<>> /\ fd = [w \in Writers |-> 0] /\ pc = [w \in Writers |-> "idle"]

(* tmp.open("wb") *)
Open(w) ==
    /\ pc[w] = "idle"
    /\ IF Tmp(w) \in DOMAIN names
       THEN LET i == names[Tmp(w)] IN
            content' = [content EXCEPT ![i] = "partial"] /\ fd' = [fd EXCEPT ![w] = i] /\ UNCHANGED names
       ELSE LET i == Cardinality(Inodes) + 1 IN
            /\ content' = [j \in Inodes \cup {i} |-> IF j = i THEN "partial" ELSE content[j]]
            /\ names' = [n \in DOMAIN names \cup {Tmp(w)} |-> IF n = Tmp(w) THEN i ELSE names[n]]
            /\ fd' = [fd EXCEPT ![w] = i]
    /\ pc' = [pc EXCEPT ![w] = "opened"]

(* cloudpickle.dump + close: all of w's bytes are in the inode; another writer still writing into it leaves a mixture *)
Write(w) ==
    /\ pc[w] = "opened"
    /\ content' = [content EXCEPT ![fd[w]] = IF \E v \in Writers \ {w} : pc[v] = "opened" /\ fd[v] = fd[w]
                                             THEN "partial" ELSE "complete"]
    /\ pc' = [pc EXCEPT ![w] = "written"] /\ UNCHANGED <<names, fd>>

(* tmp.replace(path): fails when the temporary name is gone *)
Replace(w) ==
    /\ pc[w] = "written"
    /\ IF Tmp(w) \in DOMAIN names
       THEN /\ names' = [n \in (DOMAIN names \ {Tmp(w)}) \cup {Final} |-> IF n = Final THEN names[Tmp(w)] ELSE names[n]]
            /\ pc' = [pc EXCEPT ![w] = "done"]
       ELSE pc' = [pc EXCEPT ![w] = "failed"] /\ UNCHANGED names
    /\ UNCHANGED <<content, fd>>

(* Write(w) followed at once by Replace(w), as one step (the grain at which the harness drives the real code; this     *)
(* version of TLC has no action composition, so the composition is written out)                                       *)
Finish(w) ==
    /\ pc[w] = "opened"
    /\ content' = [content EXCEPT ![fd[w]] = IF \E v \in Writers \ {w} : pc[v] = "opened" /\ fd[v] = fd[w]
                                             THEN "partial" ELSE "complete"]
    /\ IF Tmp(w) \in DOMAIN names
       THEN /\ names' = [n \in (DOMAIN names \ {Tmp(w)}) \cup {Final} |-> IF n = Final THEN names[Tmp(w)] ELSE names[n]]
            /\ pc' = [pc EXCEPT ![w] = "done"]
       ELSE pc' = [pc EXCEPT ![w] = "failed"] /\ UNCHANGED names
    /\ UNCHANGED fd

Next == \E w \in Writers : Open(w) \/ Write(w) \/ Replace(w)
Spec == Init /\ [][Next]_vars

FinalState == IF Final \in DOMAIN names THEN content[names[Final]] ELSE "absent"
(* what C05 needs of a store: it never fails, and the final name never shows a partially written value *)
NoStoreFails   == \A w \in Writers : pc[w] # "failed"
FinalNeverTorn == FinalState # "partial"
AllDone        == (\A w \in Writers : pc[w] \in {"done", "failed"}) => (NoStoreFails /\ FinalState = "complete")
TypeOK == /\ DOMAIN names \subseteq Names /\ \A n \in DOMAIN names : names[n] \in Inodes
          /\ \A w \in Writers : fd[w] \in Inodes \cup {0}
=============================================================================
