------------------------------ MODULE DescKit -------------------------------
(* Constructors for pipeline descriptions and inputs used by model-checking scenarios. *)
EXTENDS MapDenote, SequencesExt
NoSeq == << >>
One(x) == << x >>
Spec1(n, ax) == [name |-> n, axes |-> ax]
MkFunc(name, ps, outs, hasms, ins, oaxes, internal) ==
    [name |-> name, params |-> ps, outputs |-> outs, defaults |-> NoSeq, bound |-> NoSeq, has_ms |-> hasms,
     ms |-> [ins |-> ins, outs |-> [k \in DOMAIN outs |-> [name |-> outs[k], axes |-> oaxes]]],
     internal |-> internal, cache |-> FALSE]
MapF(name, ps, outs, ins, oaxes)  == MkFunc(name, ps, outs, TRUE, ins, oaxes, NoSeq)
PlainF(name, ps, outs)            == MkFunc(name, ps, outs, FALSE, NoSeq, NoSeq, NoSeq)
GenF(name, ps, outs, ax, n)       == MkFunc(name, ps, outs, TRUE, NoSeq, One(ax), One(n))
IdxStr(t) == LET RECURSIVE S(_)
                 S(u) == IF Len(u) = 0 THEN "" ELSE "_" \o ToString(Head(u)) \o S(Tail(u))
             IN S(t)
InArr(name, shape) == BuildArr(shape, NoSeq, [t \in IndexSet(shape) |-> Atom("@" \o name \o IdxStr(t))])
=============================================================================
