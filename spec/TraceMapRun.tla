----------------------------- MODULE TraceMapRun ----------------------------
(* Trace validation for MapRun.  One ndjson line = one history of runs on one pipeline and run folder:     *)
(*   {desc, inputs, ev: [{e, F, cleanup, fixed, f, kwargs, results, loaded, cls, args, attributed, disk}]}  (all fields always present)     *)
(* e in begin | call | ret | fail | return | raise | reject                                                 *)
EXTENDS MapRun, MapFixed, Json, IOUtils, TLCExt
Traces == ndJsonDeserialize(IOEnv.TRACE_FILE)
NT == Len(Traces)
ASSUME \A i \in 1..NT : TLCSet(i, 0)

VARIABLES tid, l, exc      \* exc: the exception value [cls, args] of the (first) user-function failure of the current run
T  == Traces[tid]
Ev == T.ev[l]
IsEvent(e) == l <= Len(T.ev) /\ Ev.e = e /\ l' = l + 1 /\ UNCHANGED tid
NoExc == [cls |-> "", args |-> <<>>]

Init == tid \in 1..NT /\ l = 1 /\ MapInit(T.desc, T.inputs) /\ exc = NoExc

FByName(n) == CHOOSE i \in FIdx(d) : d.funcs[i].name = n
FSet(names) == {FByName(names[k]) : k \in DOMAIN names}

(* fixed_indices arrive raw (ints / slices); the selection is computed here *)
FixedOf(raw) == LET env == MapDenoteF(d, inp, FSet(Ev.F)) IN Resolve(d, env, raw)
TBegin  == IsEvent("begin")
           /\ Ev.new_inputs = <<>>                      \* a run with other inputs on a kept folder is never accepted (below)
           /\ (Len(Ev.fixedraw) > 0 => ValidFixedF(d, MapDenoteF(d, inp, FSet(Ev.F)), FSet(Ev.F), Ev.fixedraw))
           /\ Begin([F |-> FSet(Ev.F), cleanup |-> Ev.cleanup,
                     fixed |-> IF Len(Ev.fixedraw) > 0 THEN FixedOf(Ev.fixedraw) ELSE Ev.fixed,
                     cache |-> Ev.cache,
                     (* what the (same) cache object has seen so far: invocations completed in earlier cached runs *)
                     memo |-> IF Ev.cache THEN Memo \cup (IF Cached THEN {<<e[1], KwOfElem(e)>> : e \in done} ELSE {}) ELSE {}])
           /\ exc' = NoExc
TBeginWith == IsEvent("begin") /\ Ev.new_inputs # <<>> /\ Ev.cleanup /\ Len(Ev.fixedraw) = 0
              /\ BeginWith([F |-> FSet(Ev.F), cleanup |-> TRUE, fixed |-> <<>>, cache |-> Ev.cache,
                            memo |-> IF Ev.cache THEN Memo \cup (IF Cached THEN {<<e[1], KwOfElem(e)>> : e \in done} ELSE {}) ELSE {}],
                           Ev.new_inputs)
              /\ exc' = NoExc
TReplace == IsEvent("replace") /\ Replace(FByName(Ev.f), Ev.func) /\ UNCHANGED exc
(* C06 PartExact: what is completely stored now is exactly what the model says (earlier parts + this selection) *)
TStored == IsEvent("stored") /\ phase = "idle" /\ UNCHANGED mvars /\ UNCHANGED exc
           /\ StoredFromDisk({<<Ev.disk[k][1], Ev.disk[k][2]>> : k \in DOMAIN Ev.disk}) = stored
           /\ stored \subseteq EveryElement
(* optional field `strict` of a trace: the run's cache never evicts and the run is sequential, so an invocation whose       *)
(* keyword arguments equal those of a completed one MUST be answered from the cache (C09: no re-execution of a resident    *)
(* entry) - also when the stored result is None                                                                            *)
StrictT == "strict" \in DOMAIN T /\ T.strict
TCall   == IsEvent("call") /\ (LET i == FByName(Ev.f) IN
              \E t \in CallPositions(i) : Call(i, t, Ev.kwargs) /\ (StrictT => <<i, t>> \notin Hits)) /\ UNCHANGED exc
TRet    == IsEvent("ret")  /\ (LET i == FByName(Ev.f) IN
              \E t \in CallPositions(i) : ElemKwargs(d, den, i, t) = Ev.kwargs /\ Ret(i, t)) /\ UNCHANGED exc
TFail   == IsEvent("fail") /\ (LET i == FByName(Ev.f) IN
              \E t \in CallPositions(i) : ElemKwargs(d, den, i, t) = Ev.kwargs /\ Fail(i, t))
           /\ exc' = IF exc = NoExc THEN [cls |-> Ev.cls, args |-> Ev.args] ELSE exc
TReturn == IsEvent("return") /\ Return(Ev.results, Ev.loaded) /\ UNCHANGED exc
(* the failure surfaces unchanged (same class and args), attributed to the failing function and its kwargs;       *)
(* what was completely stored before stays loadable with the values of the denotation                            *)
TRaise  == /\ IsEvent("raise") /\ Raise /\ UNCHANGED exc
           /\ Ev.cls = exc.cls /\ Ev.args = exc.args /\ Ev.attributed
           /\ (\A k \in DOMAIN Ev.loaded : Ev.loaded[k][2] = den[Ev.loaded[k][1]])
           (* in-process execution (observed = first component non-empty): the ErrorSnapshot of the failing function,  *)
           (* reproduce()d directly and after save_to_file / load_from_file, raises this very exception               *)
           /\ (Ev.repro[1] # "" => Ev.repro = <<exc.cls, exc.args>>)
           /\ (Ev.repro_loaded[1] # "" => Ev.repro_loaded = <<exc.cls, exc.args>>)
(* a request the specification calls invalid must be rejected before anything happens *)
TReject == IsEvent("reject") /\ phase = "idle"
           /\ (~ValidMapRequestF(d, inp, FSet(Ev.F))
               \/ (Len(Ev.fixedraw) > 0 /\ ~ValidFixedF(d, MapDenoteF(d, inp, FSet(Ev.F)), FSet(Ev.F), Ev.fixedraw)))
           /\ UNCHANGED mvars /\ UNCHANGED exc

(* C04: what load_outputs / RunInfo.load return afterwards, in the same or in a fresh process, any number of times:  *)
(* outputs = denotation, inputs and defaults = what was given, shapes / masks / MapSpec strings / storage choices = the  *)
(* ones of the run                                                                                                     *)
InfoShape(i) == IF HasMapInputs(d.funcs[i]) THEN OutShape(d, den, i) ELSE d.funcs[i].internal
InfoMask(i)  == IF HasMapInputs(d.funcs[i]) THEN ExtMask(d.funcs[i]) ELSE [k \in DOMAIN d.funcs[i].internal |-> FALSE]
TLoad == IsEvent("load") /\ phase = "idle" /\ UNCHANGED mvars /\ UNCHANGED exc
         /\ Ev.cls = ""                                                           \* loading did not raise
         /\ (\A k1 \in DOMAIN Ev.loaded : Ev.loaded[k1][2] = den[Ev.loaded[k1][1]])
         /\ ({Ev.loaded[k2][1] : k2 \in DOMAIN Ev.loaded} = UNION {OutputsOf(d, i) : i \in cfg.F})
         /\ (\A k3 \in DOMAIN Ev.linputs : PHas(inp, Ev.linputs[k3][1]) /\ Ev.linputs[k3][2] = PGet(inp, Ev.linputs[k3][1]))
         /\ ({Ev.linputs[k4][1] : k4 \in DOMAIN Ev.linputs} = PKeys(inp))
         /\ (\A k5 \in DOMAIN Ev.ldefaults : HasDefault(d, Ev.ldefaults[k5][1]) /\ Ev.ldefaults[k5][2] = DefaultOf(d, Ev.ldefaults[k5][1]))
         /\ (\A k6 \in DOMAIN Ev.shapes : LET i == FuncOf(d, Ev.shapes[k6][1]) IN
                IF i = 0 THEN PHas(inp, Ev.shapes[k6][1])                  \* shapes of mapped root inputs are recorded too
                ELSE Ev.shapes[k6][2] = InfoShape(i) /\ Ev.shapes[k6][3] = InfoMask(i))
         /\ ({Ev.shapes[k7][1] : k7 \in DOMAIN Ev.shapes} \cap AllOutputs(d)
               = UNION {OutputsOf(d, i) : i \in {j \in cfg.F : d.funcs[j].has_ms}})
         /\ Ev.storage_out = Ev.storage_in /\ Ev.mapspecs_out = Ev.mapspecs_in

(* the run was interrupted (process death / exception); Ev.disk = what is completely stored afterwards *)
TInterrupt == IsEvent("interrupt") /\ Interrupt({<<Ev.disk[k][1], Ev.disk[k][2]>> : k \in DOMAIN Ev.disk}) /\ exc' = NoExc

(* re-running on a kept run folder (cleanup=False) with inputs that differ from the previous run's must be refused: *)
(* serving the stored elements would return stale values                                                           *)
TRejectChanged == IsEvent("reject") /\ phase = "idle" /\ ~Ev.cleanup
                  /\ Ev.new_inputs # <<>> /\ Ev.new_inputs # inp /\ UNCHANGED mvars /\ UNCHANGED exc

TLearnersDone == IsEvent("ldone") /\ LearnersDone /\ UNCHANGED exc

Next == TReplace \/ TBeginWith \/ TLearnersDone \/ TRejectChanged \/ TStored \/ TLoad \/ TInterrupt \/ TBegin \/ TCall \/ TRet \/ TFail \/ TReturn \/ TRaise \/ TReject
Spec == Init /\ [][Next]_<<mvars, tid, l, exc>>

Track == IF l > TLCGet(tid) THEN TLCSet(tid, l) ELSE TRUE
InvTypeOK == TypeOK
InvDoneStored == DoneStored
Accepted == \A i \in 1..NT : (TLCGet(i) = Len(Traces[i].ev) + 1) \/ PrintT(<<"REJECT", i, TLCGet(i)>>)
=============================================================================
