----------------------------- MODULE TraceMapRun ----------------------------
(* Trace validation for MapRun.  One ndjson line = one history of runs on one pipeline and run folder:     *)
(*   {desc, inputs, ev: [{e, F, cleanup, fixed, f, kwargs, results, loaded, cls, args, attributed, disk}]}  (all fields always present)     *)
(* e in begin | call | ret | fail | return | raise | reject                                                 *)
EXTENDS MapRun, Json, IOUtils, TLCExt
Traces == ndJsonDeserialize(IOEnv.TRACE_FILE)
NT == Len(Traces)
ASSUME \A i \in 1..NT : TLCSet(i, 0)

VARIABLES tid, l, exc      \* exc: the exception value [cls, args] of the (first) user-function failure of the current run
T  == Traces[tid]
Ev == T.ev[l]
IsEvent(e) == l <= Len(T.ev) /\ Ev.e = e /\ l' = l + 1 /\ UNCHANGED tid
NoExc == [cls |-> "", args |-> <<>>]

Init == tid \in 1..NT /\ l = 1 /\ MapInit(T.desc, T.inputs) /\ exc = NoExc

FByName(n) == CHOOSE i \in FIdx(d) : d.funcs[i].name = n
FSet(names) == {FByName(names[k]) : k \in DOMAIN names}

TBegin  == IsEvent("begin") /\ Begin([F |-> FSet(Ev.F), cleanup |-> Ev.cleanup, fixed |-> Ev.fixed]) /\ exc' = NoExc
TCall   == IsEvent("call") /\ (LET i == FByName(Ev.f) IN \E t \in CallPositions(i) : Call(i, t, Ev.kwargs)) /\ UNCHANGED exc
TRet    == IsEvent("ret")  /\ (LET i == FByName(Ev.f) IN
              \E t \in CallPositions(i) : ElemKwargs(d, den, i, t) = Ev.kwargs /\ Ret(i, t)) /\ UNCHANGED exc
TFail   == IsEvent("fail") /\ (LET i == FByName(Ev.f) IN
              \E t \in CallPositions(i) : ElemKwargs(d, den, i, t) = Ev.kwargs /\ Fail(i, t))
           /\ exc' = IF exc = NoExc THEN [cls |-> Ev.cls, args |-> Ev.args] ELSE exc
TReturn == IsEvent("return") /\ Return(Ev.results, Ev.loaded) /\ UNCHANGED exc
(* the failure surfaces unchanged (same class and args), attributed to the failing function and its kwargs;       *)
(* what was completely stored before stays loadable with the values of the denotation                            *)
TRaise  == IsEvent("raise") /\ Raise /\ UNCHANGED exc
           /\ Ev.cls = exc.cls /\ Ev.args = exc.args /\ Ev.attributed
           /\ \A k \in DOMAIN Ev.loaded : Ev.loaded[k][2] = den[Ev.loaded[k][1]]
(* a request the specification calls invalid must be rejected before anything happens *)
TReject == IsEvent("reject") /\ phase = "idle"
           /\ ~ValidMapRequestF(d, inp, FSet(Ev.F)) /\ UNCHANGED mvars /\ UNCHANGED exc

(* the run was interrupted (process death / exception); Ev.disk = what is completely stored afterwards *)
TInterrupt == IsEvent("interrupt") /\ Interrupt({<<Ev.disk[k][1], Ev.disk[k][2]>> : k \in DOMAIN Ev.disk}) /\ exc' = NoExc

Next == TInterrupt \/ TBegin \/ TCall \/ TRet \/ TFail \/ TReturn \/ TRaise \/ TReject
Spec == Init /\ [][Next]_<<mvars, tid, l, exc>>

Track == IF l > TLCGet(tid) THEN TLCSet(tid, l) ELSE TRUE
InvTypeOK == TypeOK
InvDoneStored == DoneStored
Accepted == \A i \in 1..NT : (TLCGet(i) = Len(Traces[i].ev) + 1) \/ PrintT(<<"REJECT", i, TLCGet(i)>>)
=============================================================================
