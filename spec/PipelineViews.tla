--------------------------- MODULE PipelineViews ----------------------------
(***************************************************************************)
(* Derived views of a Pipeline object and their coherence under mutation   *)
(* (growth beyond the listed properties; related to C02 and C10).          *)
(*                                                                         *)
(* A Pipeline caches what it derives from its functions (root_args,        *)
(* topological_generations, defaults, leaf/root nodes, all_output_names,   *)
(* arg_combinations ...) and clears those caches when it is mutated        *)
(* through add / drop / replace / update_defaults / update_bound (on a     *)
(* member function).  Coherence: after ANY sequence of such mutations      *)
(* every view equals the view computed from the CURRENT description.       *)
(* The description d is a variable; each mutation is an action on it; the  *)
(* views are operators of PipelineStatic over d.                           *)
(***************************************************************************)
EXTENDS PipelineStatic

VARIABLE d
(* --- views --------------------------------------------------------------- *)
NeededAll(out)   == Needed(d, <<>>, out)
RootArgsOf(out)  == {p \in RootNames(d) : \E i \in NeededAll(out) : p \in ParamsOf(d, i) /\ ~IsBound(d, i, p)}
AllRootArgs      == {p \in RootNames(d) : \E i \in FIdx(d) : p \in ParamsOf(d, i) /\ ~IsBound(d, i, p)}
Generation(g)    == {d.funcs[i].name : i \in {j \in FIdx(d) : GenOf(d, j) = g}}
NGenerations     == IF NF(d) = 0 THEN 0 ELSE CHOOSE m \in {GenOf(d, i) : i \in FIdx(d)} : \A i \in FIdx(d) : GenOf(d, i) <= m
DefaultPairs     == {<<p, DefaultOf(d, p)>> : p \in {q \in AllParams(d) : HasDefault(d, q)}}
Consumed(i)      == \E j \in FIdx(d) : \E p \in ParamsOf(d, j) : p \in OutputsOf(d, i) /\ ~IsBound(d, j, p)
LeafFuncs        == {d.funcs[i].name : i \in {j \in FIdx(d) : ~Consumed(j)}}
RootFuncs        == {d.funcs[i].name : i \in {j \in FIdx(d) : StaticDeps(d, j) = {}}}

(* --- mutations ----------------------------------------------------------- *)
IdxOf(fname)     == CHOOSE i \in FIdx(d) : d.funcs[i].name = fname
SetPair(ps, k, v) == IF PHas(ps, k) THEN [n \in DOMAIN ps |-> IF ps[n][1] = k THEN <<k, v>> ELSE ps[n]] ELSE Append(ps, <<k, v>>)
(* pipeline.update_defaults({p: v}): every function that has parameter p gets the default *)
UpdateDefaults(p, v) ==
    d' = [d EXCEPT !.funcs = [i \in FIdx(d) |-> IF p \in ParamsOf(d, i)
                                                 THEN [d.funcs[i] EXCEPT !.defaults = SetPair(@, p, v)] ELSE d.funcs[i]]]
UpdateBound(fname, p, v) ==
    d' = [d EXCEPT !.funcs[IdxOf(fname)].bound = SetPair(@, p, v)]
Replace(fname, newf) == d' = [d EXCEPT !.funcs[IdxOf(fname)] = newf]
Add(newf)            == d' = [d EXCEPT !.funcs = Append(@, newf)]
Drop(fname)          == d' = [d EXCEPT !.funcs = SelectSeq(@, LAMBDA f : f.name # fname)]
=============================================================================
