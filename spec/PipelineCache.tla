--------------------------- MODULE PipelineCache ----------------------------
(***************************************************************************)
(* C09 "Caching never changes what a pipeline returns" (call side).         *)
(*                                                                         *)
(* A history is a sequence of top-level calls and mutations on ONE          *)
(* pipeline.  The description d (PipelineStatic) is a variable: mutation    *)
(* events update it, every call is judged against the description as it is  *)
(* NOW.  User functions are free term constructors, so the output term of  *)
(* a function determines all its transitive inputs: "the cached entry is    *)
(* still valid" is "the term the function would produce now was produced    *)
(* before".                                                                *)
(*                                                                         *)
(* Layer A (ideal rule, used by TracePipelineCache to judge recorded        *)
(*   executions of the real code): CBegin / CCall / CReturn / CReturnFull / *)
(*   COutside / CMutate.                                                    *)
(* Layer B (implementation-shaped model of pipefunc/_pipeline/_cache.py +   *)
(*   the cache branches of Pipeline._run, model-checked by MC_PipelineCache)*)
(*   ImplKey / HitMap / IVal / IPuts / ICacheMut, invariant Coherent, and the *)
(*   switch Scheme = "asis" | "repaired".                                   *)
(* Both layers share the mutation operators and the diagnosis operator that *)
(* names the cause of a stale value.                                        *)
(*                                                                         *)
(* Stated don't-care set of layer A (nothing here is ever a violation):     *)
(*  - a call that fails WITHOUT caching (missing argument, surplus keyword, *)
(*    requested output supplied): any outcome of the cached pipeline;       *)
(*  - a keyword shadowed by a bound value of the function that takes it     *)
(*    (C02's don't-care): ignored by Eval, as by the code;                   *)
(*  - a cache=TRUE function that executes although it could have been       *)
(*    answered from the cache, unless the call exactly repeats the previous  *)
(*    one, its documented key was observed in pipeline.cache.cache before   *)
(*    the call and the observed size/capacity exclude an eviction during    *)
(*    the call (what the code stores and evicts is its own business:        *)
(*    "never stored" / "evicted" is not "re-executed");                      *)
(*  - a function that executes although a hit further down made it          *)
(*    unnecessary.                                                          *)
(*                                                                         *)
(* EXTENSION POINT (map side, not built here): Pipeline.map consults        *)
(* `_get_or_set_cache` (pipefunc/map/_run.py) for EVERY function, keyed by  *)
(* (output_name, the function's own kwargs).  Its model belongs next to     *)
(* section 4 below as MapKey(dd, i, selected_kwargs) with the invariant     *)
(* "a hit only on equal kwargs"; its trace events would be added to         *)
(* TracePipelineCache as additional actions.  Nothing in this module        *)
(* constrains map runs.                                                     *)
(***************************************************************************)
EXTENDS PipelineCall, SequencesExt

CONSTANT Scheme      \* "asis": the key scheme of the code as it is; "repaired": the design of the proposed fix

---------------------------------------------------------------------------
(* 1. Shared static notions                                                 *)

Cached(dd, i)      == dd.funcs[i].cache
(* function i and every function it statically depends on (edges through bound parameters do not exist) *)
Ancestors(dd, i)   == SClosure(dd, {i})
(* Pipeline.root_args(output of i): non-output names reaching i through non-bound parameters *)
RootArgsOf(dd, i)  == {p \in UNION {ParamsOf(dd, j) : j \in Ancestors(dd, i)} :
                          p \notin AllOutputs(dd) /\ \E j \in Ancestors(dd, i) : p \in ParamsOf(dd, j) /\ ~IsBound(dd, j, p)}
(* the call supplies a value for an output of a function i depends on (a supplied sibling output of i itself does  *)
(* not change what i computes)                                                                                  *)
SuppliedOnPath(dd, k, i) == \E n \in PKeys(k) : n \in AllOutputs(dd) /\ FuncOf(dd, n) \in Ancestors(dd, i) \ {i}

(* what executing function i NOW, in call k, returns for its output o (PipelineStatic!ValOf without the keyword     *)
(* short-cut; a function declared `retnone` returns None whatever its arguments)                                 *)
OutTerm(dd, k, i, o) == LET ps == dd.funcs[i].params
                        IN  IF ReturnsNone(dd, i) THEN NoneT ELSE Term(o, [q \in 1..Len(ps) |-> ArgVal(dd, k, i, ps[q])])
OutTerms(dd, k, i)   == {OutTerm(dd, k, i, o) : o \in OutputsOf(dd, i)}
OutSeq(dd, k, i)     == LET os == dd.funcs[i].outputs IN [j \in 1..Len(os) |-> OutTerm(dd, k, i, os[j])]
IdxOf(s, x)          == CHOOSE j \in DOMAIN s : s[j] = x

---------------------------------------------------------------------------
(* 2. Mutations of a description (Pipeline.update_defaults, PipeFunc.update_bound, Pipeline.replace)      *)

SetPair(ps, k, v) == IF PHas(ps, k) THEN [j \in DOMAIN ps |-> IF ps[j][1] = k THEN <<k, v>> ELSE ps[j]]
                     ELSE Append(ps, <<k, v>>)
(* pipeline.update_defaults({p: v}): every function that has parameter p and does not bind it *)
MutDefaults(dd, p, v) ==
    [dd EXCEPT !.funcs = [i \in FIdx(dd) |-> IF p \in ParamsOf(dd, i) /\ ~IsBound(dd, i, p)
                                              THEN [dd.funcs[i] EXCEPT !.defaults = SetPair(@, p, v)]
                                              ELSE dd.funcs[i]]]
(* pipeline[output of i].update_bound({p: v}) *)
MutBound(dd, i, p, v) == [dd EXCEPT !.funcs[i].bound = SetPair(@, p, v)]
(* pipeline.replace(new) where new has the output name(s) of function i *)
MutReplace(dd, i, nf) == [dd EXCEPT !.funcs[i] = nf]

MutKinds == {"update_defaults", "update_bound", "replace"}
(* a mutation event m = [kind, f (function name), p, v, func (the new function for replace)] *)
FIdxNamed(dd, n)  == CHOOSE i \in FIdx(dd) : dd.funcs[i].name = n
MutApplicable(dd, m) ==
    CASE m.kind = "update_defaults" -> \E i \in FIdx(dd) : m.p \in ParamsOf(dd, i) /\ ~IsBound(dd, i, m.p)
      [] m.kind = "update_bound"    -> /\ \E i \in FIdx(dd) : dd.funcs[i].name = m.f
                                       /\ m.p \in ParamsOf(dd, FIdxNamed(dd, m.f))
                                       /\ ~PHas(dd.funcs[FIdxNamed(dd, m.f)].defaults, m.p)
      [] m.kind = "replace"         -> /\ \E i \in FIdx(dd) : dd.funcs[i].name = m.f
                                       /\ m.func.outputs = dd.funcs[FIdxNamed(dd, m.f)].outputs
      [] OTHER -> FALSE
ApplyMut(dd, m) ==
    CASE m.kind = "update_defaults" -> MutDefaults(dd, m.p, m.v)
      [] m.kind = "update_bound"    -> MutBound(dd, FIdxNamed(dd, m.f), m.p, m.v)
      [] m.kind = "replace"         -> MutReplace(dd, FIdxNamed(dd, m.f), m.func)

---------------------------------------------------------------------------
(* 3. Diagnosis: WHY is the value vobs, delivered for output o of function i in call `know` under description   *)
(* dnow, not the current one?  vobs was produced earlier by an execution of i in call pkw under description      *)
(* version pdv.  dvers = sequence of [kind, d]: version 1 is the initial description, every later version is the *)
(* result of one mutation.  The answer only names the defect family (signature of a violation); acceptance or    *)
(* rejection never depends on it.                                                                               *)
RootVal(dd, k, r) == IF PHas(k, r) THEN PGet(k, r) ELSE IF HasDefault(dd, r) THEN DefaultOf(dd, r) ELSE MissingV
(* the two calls agree on every root argument of i except on one that i itself binds (and an upstream function takes) *)
OnlyShadowedDiffer(dd, i, k1, k2) ==
    /\ \E p \in RootArgsOf(dd, i) : IsBound(dd, i, p) /\ RootVal(dd, k1, p) # RootVal(dd, k2, p)
    /\ \A r \in RootArgsOf(dd, i) : ~IsBound(dd, i, r) => RootVal(dd, k1, r) = RootVal(dd, k2, r)
Diagnose(dvers, know, i, o, vobs, pkw, pdv) ==
    LET dnow  == dvers[Len(dvers)].d
        dprod == dvers[pdv].d
        brk   == {m \in (pdv + 1)..Len(dvers) : OutTerm(dvers[m].d, pkw, i, o) # vobs}
    IN  IF brk # {}
        THEN "stale-after-" \o dvers[CHOOSE m \in brk : \A x \in brk : m <= x].kind
        ELSE IF SuppliedOnPath(dprod, pkw, i)  THEN "populated-with-supplied-intermediate"
        ELSE IF SuppliedOnPath(dnow, know, i)  THEN "read-with-supplied-intermediate"
        ELSE IF OnlyShadowedDiffer(dnow, i, pkw, know) THEN "bound-shadows-root-argument"
        ELSE "same-key-for-different-arguments"

---------------------------------------------------------------------------
(* 4. Layer A: the ideal rule                                                                                   *)

VARIABLES resident,   \* terms produced by executions of user functions so far in the history
          last,       \* the previous event if it was a successful call: [valid, out, kw, mode]
          must        \* functions that must not execute in the current call (exact repeat, entry observed resident)
avars == <<resident, last, must>>

NoLast == [valid |-> FALSE, out |-> "", kw |-> <<>>, mode |-> "call"]
AInit  == resident = {} /\ last = NoLast /\ must = {}

(* The DOCUMENTED key of function i in call k (Pipeline docstring, compute_cache_key docstring):                *)
(*   (output_name, ((root argument, value), ...)), no caching when a non-root input is supplied directly.        *)
(* It is only used to interpret the OBSERVATION of the public mapping pipeline.cache.cache: the code            *)
(* legitimately stores nothing for some calls (a root argument left to an upstream default, an intermediate      *)
(* supplied), so "no entry" never creates an obligation.                                                        *)
DocKeyDefined(dd, k, i) == ~SuppliedOnPath(dd, k, i) /\ \A r \in RootArgsOf(dd, i) : PHas(k, r) \/ HasDefault(dd, r)
DocKeyArgs(dd, k, i)    == {<<r, IF PHas(k, r) THEN PGet(k, r) ELSE DefaultOf(dd, r)>> : r \in RootArgsOf(dd, i)}
(* obs = [keys : Seq([o : Seq(name), args : Seq(<<name, value>>)]), size, cap]  read before the call; cap = 0: unbounded *)
(* an observed key matches when its root-argument items are exactly the documented ones; further items are    *)
(* tolerated only if they are not named like an argument of the pipeline (a repaired scheme may qualify the key) *)
ObservedResident(dd, k, i, obs) ==
    /\ DocKeyDefined(dd, k, i)
    /\ \E j \in DOMAIN obs.keys :
          LET items == SeqToSet(obs.keys[j].args) IN
          /\ obs.keys[j].o = dd.funcs[i].outputs
          /\ {it \in items : it[1] \in RootArgsOf(dd, i)} = DocKeyArgs(dd, k, i)
          /\ \A it \in items : it[1] \in RootArgsOf(dd, i) \/ it[1] \notin AllParams(dd) \cup AllOutputs(dd)
(* nothing can be evicted during the call: every put of the call fits *)
NoEviction(dd, k, o, obs) == obs.cap = 0 \/ obs.size + Cardinality({i \in Needed(dd, k, o) : Cached(dd, i)}) <= obs.cap
SameCall(o, k, m) == last.valid /\ last.out = o /\ SeqToSet(last.kw) = SeqToSet(k) /\ last.mode = m

CBegin(o, k, m, obs) ==
    /\ Begin(o, k, m)
    /\ must' = IF SameCall(o, k, m) /\ NoEviction(d, k, o, obs)
               THEN {i \in Needed(d, k, o) : Cached(d, i) /\ ObservedResident(d, k, i, obs)} ELSE {}
    /\ UNCHANGED <<resident, last>>

(* function i may be answered from the cache: it is cache=TRUE and what it would return now was produced before *)
Hittable(i) == Cached(d, i) /\ OutTerms(d, kw, i) \subseteq resident

(* guards as state predicates (the trace specification reports which one failed) *)
CallNeeded(i)    == phase = "running" /\ i \in Needed(d, kw, out) \ done
CallArgsOK(i, a) == (\A p \in ParamsOf(d, i) : Source(d, kw, i, p) # "missing") /\ a = ArgsOf(d, kw, i)
CallDepsOK(i)    == \A j \in DirectDeps(d, kw, i) : j \in done \/ Hittable(j)     \* an uncached dependency must have executed
CallNotResident(i) == i \notin must

CCall(i, a) == /\ CallNeeded(i) /\ CallArgsOK(i, a) /\ CallDepsOK(i) /\ CallNotResident(i)
               /\ done' = done \cup {i}
               /\ resident' = resident \cup OutTerms(d, kw, i)
               /\ UNCHANGED <<d, phase, out, kw, mode, last, must>>

(* keywords extended by the current values of the outputs of the functions in H (functions answered from the cache) *)
KwWith(H) == LET names == SetToSeq(UNION {OutputsOf(d, i) : i \in H} \ PKeys(kw))
             IN  kw \o [j \in 1..Len(names) |-> <<names[j], ValOf(d, kw, names[j])>>]
Skipped   == Needed(d, kw, out) \ done
(* skipped functions whose value was really used: by an executed consumer, or as the requested output *)
Frontier  == {i \in Skipped : i = FuncOf(d, out) \/ \E j \in done : i \in DirectDeps(d, kw, j)}
(* pipeline(out): a hit cuts off everything upstream of it; whatever is not behind a hit must have executed *)
SkipOKCall == (\A i \in Frontier : Hittable(i)) /\ done = Needed(d, KwWith(Frontier), out)
(* full_output reports every intermediate value: only hittable functions may be skipped *)
SkipOKFull == \A i \in Skipped : Hittable(i)

CFinish == /\ Finish
           /\ last' = [valid |-> TRUE, out |-> out, kw |-> kw, mode |-> mode]
           /\ must' = {} /\ UNCHANGED resident
ReturnOK(v) == phase = "running" /\ mode = "call" /\ Defined(d, kw, out) /\ v = Eval(d, kw, out)
CReturn(v) == ReturnOK(v) /\ SkipOKCall /\ CFinish
ReturnFullOK(pairs) == /\ phase = "running" /\ mode = "full" /\ Defined(d, kw, out)
                       /\ pairs = {<<n, ValOf(d, kw, n)>> : n \in FullOutputNames(d, kw, out)}
CReturnFull(pairs) == ReturnFullOK(pairs) /\ SkipOKFull /\ CFinish

(* a call that fails WITHOUT caching (missing argument, surplus keyword, requested output supplied) is outside the *)
(* property: whatever the cached pipeline did is accepted; the functions it executed did produce their terms       *)
COutside == phase = "running" /\ Finish /\ last' = NoLast /\ must' = {} /\ UNCHANGED resident

CMutate(m) == /\ phase = "idle" /\ MutApplicable(d, m)
              /\ d' = ApplyMut(d, m)
              /\ last' = NoLast
              /\ UNCHANGED <<phase, out, kw, mode, done, resident, must>>

---------------------------------------------------------------------------
(* 5. Layer B: the key scheme and the cache branches of Pipeline._run, as implemented                            *)
(*                                                                                                               *)
(*   cache_key = compute_cache_key(func.output_name,                                                              *)
(*                                 self._func_defaults(func) | flat_scope_kwargs | func._bound, root_args)         *)
(*   None (no caching) iff a root argument is absent from that dictionary;                                         *)
(*   hit  -> value taken from the cache, in pipeline(out) mode nothing upstream is visited;                       *)
(*   miss -> arguments resolved (recursively), function executed, result stored under the key;                     *)
(*   update_defaults / update_bound / replace leave pipeline.cache untouched.                                      *)
(* Repaired design (the proposed fixes):                                                                            *)
(*   R1  no key (no caching) for a call that supplies an intermediate on the function's dependency path;            *)
(*   R2  the function's own bound values do not stand in for root arguments that upstream functions receive;        *)
(*   R3  the key also lists every bound value of the function and of the functions it depends on;                   *)
(*   R4  replace clears the cache.  (update_defaults needs nothing: defaults of root arguments are in the key.)      *)

Rep == Scheme = "repaired"
NoKey == [o |-> <<>>, args |-> {}]
KeyHas(dd, k, i, r) == (~Rep /\ IsBound(dd, i, r)) \/ PHas(k, r)
                       \/ (r \in ParamsOf(dd, i) /\ (PHas(dd.funcs[i].defaults, r) \/ HasDefault(dd, r)))
KeyVal(dd, k, i, r) == IF ~Rep /\ IsBound(dd, i, r) THEN PGet(dd.funcs[i].bound, r)
                       ELSE IF PHas(k, r) THEN PGet(k, r)
                       ELSE IF PHas(dd.funcs[i].defaults, r) THEN PGet(dd.funcs[i].defaults, r)
                       ELSE DefaultOf(dd, r)
BoundItems(dd, i) == UNION {{<<"bound:" \o dd.funcs[j].name \o ":" \o p, PGet(dd.funcs[j].bound, p)>>
                             : p \in PKeys(dd.funcs[j].bound)} : j \in Ancestors(dd, i)}
ImplKey(dd, k, i) == IF (Rep /\ SuppliedOnPath(dd, k, i)) \/ \E r \in RootArgsOf(dd, i) : ~KeyHas(dd, k, i, r)
                     THEN NoKey
                     ELSE [o |-> dd.funcs[i].outputs,
                           args |-> {<<r, KeyVal(dd, k, i, r)>> : r \in RootArgsOf(dd, i)}
                                    \cup (IF Rep THEN BoundItems(dd, i) ELSE {})]

(* the cache: a set of entries [k: key, v: Seq(value per output), pkw, pdv] (pkw, pdv: provenance for diagnosis)   *)
CacheHas(c, key) == \E e \in c : e.k = key
CacheGet(c, key) == CHOOSE e \in c : e.k = key
(* the hits of call k on cache state c: function -> cached value.  Keys of different functions differ and a     *)
(* function is visited at most once per call, so the hits depend on the cache at the start of the call only.    *)
HitMapK(dd, ks, c) == LET H == {i \in FIdx(dd) : Cached(dd, i) /\ ks[i] # NoKey /\ CacheHas(c, ks[i])}
                      IN  [i \in H |-> CacheGet(c, ks[i])]
HitMap(dd, k, c)   == HitMapK(dd, [i \in FIdx(dd) |-> ImplKey(dd, k, i)], c)

(* value of name n / of parameter p of function i during the call, as _run computes it given the hits hm *)
RECURSIVE IVal(_, _, _, _), IArg(_, _, _, _, _)
IArg(dd, k, hm, i, p) ==
    LET s == Source(dd, k, i, p) IN
    CASE s = "bound"   -> PGet(dd.funcs[i].bound, p)
      [] s = "kw"      -> PGet(k, p)
      [] s = "up"      -> IVal(dd, k, hm, p)
      [] s = "default" -> DefaultOf(dd, p)
      [] s = "missing" -> MissingV
IVal(dd, k, hm, n) ==
    IF PHas(k, n) THEN PGet(k, n)
    ELSE LET i == FuncOf(dd, n)  ps == dd.funcs[i].params
         IN  IF i \in DOMAIN hm THEN hm[i].v[IdxOf(dd.funcs[i].outputs, n)]
             ELSE IF ReturnsNone(dd, i) THEN NoneT
             ELSE Term(n, [q \in 1..Len(ps) |-> IArg(dd, k, hm, i, ps[q])])
IOutSeq(dd, k, hm, i) == LET os == dd.funcs[i].outputs  ps == dd.funcs[i].params
                         IN  [j \in 1..Len(os) |-> IF ReturnsNone(dd, i) THEN NoneT
                                                    ELSE Term(os[j], [q \in 1..Len(ps) |-> IArg(dd, k, hm, i, ps[q])])]

(* functions visited by the depth-first _run: a hit stops the descent unless full_output is requested *)
RECURSIVE IClosure(_, _, _, _)
IClosure(dd, k, hm, S) == LET S2 == S \cup UNION {DirectDeps(dd, k, i) : i \in S \ DOMAIN hm}
                          IN  IF S2 = S THEN S ELSE IClosure(dd, k, hm, S2)
IVisited(dd, k, hm, o, m) == IF m = "full" THEN Needed(dd, k, o)
                             ELSE IF PHas(k, o) \/ FuncOf(dd, o) = 0 THEN {} ELSE IClosure(dd, k, hm, {FuncOf(dd, o)})
IExecuted(dd, k, hm, o, m) == IVisited(dd, k, hm, o, m) \ DOMAIN hm
(* entries stored by the call: every executed cache=TRUE function whose key is defined *)
IPuts(dd, k, hm, o, m, ver) == {[k |-> ImplKey(dd, k, i), v |-> IOutSeq(dd, k, hm, i), pkw |-> k, pdv |-> ver]
                                : i \in {j \in IExecuted(dd, k, hm, o, m) : Cached(dd, j) /\ ImplKey(dd, k, j) # NoKey}}
ICacheAfterH(dd, k, hm, c, o, m, ver) == LET new == IPuts(dd, k, hm, o, m, ver)
                                         IN  {e \in c : \A x \in new : x.k # e.k} \cup new
ICacheAfter(dd, k, c, o, m, ver) == ICacheAfterH(dd, k, HitMap(dd, k, c), c, o, m, ver)
IReturn(dd, k, hm, o, m) == IF m = "full" THEN {<<n, IVal(dd, k, hm, n)>> : n \in FullOutputNames(dd, k, o)}
                            ELSE {<<o, IVal(dd, k, hm, o)>>}
Required(dd, k, o, m)    == IF m = "full" THEN {<<n, ValOf(dd, k, n)>> : n \in FullOutputNames(dd, k, o)}
                            ELSE {<<o, Eval(dd, k, o)>>}
(* the cache after a mutation *)
ICacheMut(c, m) == IF Rep /\ m.kind = "replace" THEN {} ELSE c

(* Coherent: every resident entry equals what an uncached evaluation of ANY call mapping to its key returns now. *)
(* Calls: the set of calls <<o, k>> that succeed without caching on dd.  KeyTable lists, for every such call and  *)
(* every cache=TRUE function it needs, the key the scheme computes and the value the function has now.           *)
KeyTable(dd, Calls) == UNION {{[k |-> ImplKey(dd, call[2], i), v |-> OutSeq(dd, call[2], i)]
                               : i \in {j \in Needed(dd, call[2], call[1]) : Cached(dd, j)}} : call \in Calls}
CoherentT(c, tab)      == \A e \in c : \A t \in tab : t.k = e.k => t.v = e.v
Coherent(dd, c, Calls) == CoherentT(c, KeyTable(dd, Calls))

(* the hits of the call that deliver a stale value, diagnosed (model side) *)
StaleHits(dd, k, hm, o, m) == {i \in IVisited(dd, k, hm, o, m) \cap DOMAIN hm : hm[i].v # OutSeq(dd, k, i)}
IDiagnose(dvers, k, c, o, m) ==
    LET dd == dvers[Len(dvers)].d
        hm == HitMap(dd, k, c)
        S  == StaleHits(dd, k, hm, o, m)
    IN  IF S = {} THEN "wrong-without-stale-hit"
        ELSE LET i  == CHOOSE x \in S : TRUE
                 e  == hm[i]
                 j  == CHOOSE x \in DOMAIN e.v : e.v[x] # OutSeq(dd, k, i)[x]
             IN  Diagnose(dvers, k, i, dd.funcs[i].outputs[j], e.v[j], e.pkw, e.pdv)
=============================================================================
