----------------------------- MODULE MC_MapFixed ----------------------------
(* C06: universe of partial-run histories, defined in TLA+.  A history is a sequence of raw fixed_indices keys for one  *)
(* independent axis of a scenario whose selections partition that axis (every order, ints / negative ints / slices     *)
(* incl. negative steps), followed by a full run; plus the rejected requests.  Laws: the selections are pairwise       *)
(* disjoint and cover the axis; SliceIndices is in range and monotone in the direction of the step.                    *)
EXTENDS MapFixed, DescKit, Json
CONSTANTS Scenario

VARIABLES case
ScDesc ==
    CASE Scenario = "outer"    -> [funcs |-> One(MapF("f", <<"a", "b">>, One("y"), <<Spec1("a", One("i")), Spec1("b", One("j"))>>, <<"i", "j">>))]
      [] Scenario = "zip"      -> [funcs |-> One(MapF("f", <<"a", "b">>, One("y"), <<Spec1("a", One("i")), Spec1("b", One("i"))>>, One("i")))]
      [] Scenario = "consumer" -> [funcs |-> <<MapF("f", <<"a", "b">>, One("y"), <<Spec1("a", One("i")), Spec1("b", One("j"))>>, <<"i", "j">>),
                                               MapF("g", <<"y", "s">>, One("w"), One(Spec1("y", <<"i", "j">>)), <<"i", "j">>)>>]
      [] Scenario = "reduceother" -> [funcs |-> <<MapF("f", <<"a", "b">>, One("y"), <<Spec1("a", One("i")), Spec1("b", One("j"))>>, <<"i", "j">>),
                                                  MapF("g", One("y"), One("w"), One(Spec1("y", <<"i", ":">>)), One("i"))>>]
      [] Scenario = "multi"    -> [funcs |-> <<MapF("f", One("a"), <<"y", "y2">>, One(Spec1("a", One("i"))), One("i")),
                                               MapF("g", <<"y2", "b">>, One("w"), <<Spec1("y2", One("i")), Spec1("b", One("j"))>>, <<"j", "i">>)>>]
      (* an internal axis in front of the partitioned axis *)
      [] Scenario = "internalfirst" -> [funcs |-> <<MkFunc("f", One("a"), One("y"), TRUE, One(Spec1("a", One("i"))), <<"n", "i">>, One(2)),
                                                    MapF("g", One("y"), One("w"), One(Spec1("y", <<"n", "i">>)), <<"n", "i">>)>>]
      (* fan-out: the element-wise consumer is listed before the reducing one: axis i is reduced, every request on it is invalid *)
      [] Scenario = "fanout"   -> [funcs |-> <<MapF("f", One("a"), One("y"), One(Spec1("a", One("i"))), One("i")),
                                               MapF("g", One("y"), One("w"), One(Spec1("y", One("i"))), One("i")),
                                               PlainF("h", One("y"), One("r"))>>]
      (* a reducer that HAS a MapSpec (over another axis) and takes y whole: axis i is reduced there too *)
      [] Scenario = "mappedreducer" -> [funcs |-> <<MapF("f", One("a"), One("y"), One(Spec1("a", One("i"))), One("i")),
                                                    MapF("g", <<"y", "b">>, One("w"), One(Spec1("b", One("j"))), One("j"))>>]
      (* two mapped outputs of EQUAL shape over DIFFERENT axes feeding an outer product: whatever is derived per output  *)
      (* (learner sequences, masks) must be derived from the output's own axes, not from its shape                        *)
      [] Scenario = "square"   -> [funcs |-> <<MapF("f", One("a"), One("y"), One(Spec1("a", One("i"))), One("i")),
                                               MapF("g", One("b"), One("v"), One(Spec1("b", One("j"))), One("j")),
                                               MapF("h", <<"y", "v">>, One("w"), <<Spec1("y", One("i")), Spec1("v", One("j"))>>, <<"i", "j">>)>>]
      (* a producer of a rank-2 array consumed by two mapped functions that each name ANOTHER axis of it (the other one     *)
      (* taken whole).  The description states the generator MapSpec; the harness builds the producer WITHOUT a MapSpec      *)
      (* (`hide_ms`): the MapSpec pipefunc generates from the consumers must denote the same, in every listing order.         *)
      [] Scenario = "autogen"  -> [funcs |-> <<MkFunc("f", One("s"), One("v"), TRUE, NoSeq, <<"i", "j">>, <<2, 3>>),
                                               MapF("g", One("v"), One("r"), One(Spec1("v", <<"i", ":">>)), One("i")),
                                               MapF("h", One("v"), One("c"), One(Spec1("v", <<":", "j">>)), One("j"))>>]
ScInputs ==
    CASE Scenario = "outer"       -> <<<<"a", InArr("a", One(3))>>, <<"b", InArr("b", One(2))>>>>
      [] Scenario = "zip"         -> <<<<"a", InArr("a", One(3))>>, <<"b", InArr("b", One(3))>>>>
      [] Scenario = "consumer"    -> <<<<"a", InArr("a", One(3))>>, <<"b", InArr("b", One(2))>>, <<"s", Atom("@s")>>>>
      [] Scenario = "reduceother" -> <<<<"a", InArr("a", One(3))>>, <<"b", InArr("b", One(2))>>>>
      [] Scenario = "multi"       -> <<<<"a", InArr("a", One(3))>>, <<"b", InArr("b", One(2))>>>>
      [] Scenario = "internalfirst" -> One(<<"a", InArr("a", One(3))>>)
      [] Scenario = "fanout"      -> One(<<"a", InArr("a", One(3))>>)
      [] Scenario = "mappedreducer" -> <<<<"a", InArr("a", One(3))>>, <<"b", InArr("b", One(2))>>>>
      [] Scenario = "square"      -> <<<<"a", InArr("a", One(3))>>, <<"b", InArr("b", One(3))>>>>
      [] Scenario = "autogen"     -> One(<<"s", Atom("@s")>>)
Axis == "i"
N == 3

IntKeys   == {<<"int", v, 0, 0>> : v \in -N..(N - 1)}
SliceKeys == {<<"slice", s, e, st>> : s \in {NoneMark, 0, 1, 2, -1}, e \in {NoneMark, 1, 2, 3, -1}, st \in {NoneMark, 2, -1}}
Keys == IntKeys \cup SliceKeys
Sel(k) == {KeyIndices(k, N)[m] : m \in DOMAIN KeyIndices(k, N)}
NonEmpty == {k \in Keys : Sel(k) # {}}
All == 0..(N - 1)

PartsAll == {<<k1>> : k1 \in {k \in NonEmpty : Sel(k) = All}}
         \cup {p \in NonEmpty \X NonEmpty : Sel(p[1]) \cap Sel(p[2]) = {} /\ Sel(p[1]) \cup Sel(p[2]) = All}
         \cup {p \in IntKeys \X IntKeys \X IntKeys :
                  Sel(p[1]) \cap Sel(p[2]) = {} /\ Sel(p[1]) \cap Sel(p[3]) = {} /\ Sel(p[2]) \cap Sel(p[3]) = {}
                  /\ Sel(p[1]) \cup Sel(p[2]) \cup Sel(p[3]) = All}
Parts == IF Scenario \in {"fanout", "mappedreducer", "autogen"} THEN {} ELSE PartsAll
Rejects == {<<"i", <<"int", N, 0, 0>>>>, <<"i", <<"int", -N - 1, 0, 0>>>>, <<"nope", <<"int", 0, 0, 0>>>>}
           \cup (IF Scenario = "reduceother" THEN {<<"j", <<"int", 0, 0, 0>>>>} ELSE {})
           \cup (IF Scenario \in {"fanout", "mappedreducer"} THEN {<<"i", <<"int", 0, 0, 0>>>>, <<"i", <<"slice", 0, 2, NoneMark>>>>} ELSE {})

Init == case \in [kind : {"parts"}, parts : Parts, req : {<<"", <<"int", 0, 0, 0>>>>}]
                 \cup [kind : {"reject"}, parts : {<<>>}, req : Rejects]
Next == UNCHANGED case
Spec == Init /\ [][Next]_case

Env == MapDenote(ScDesc, ScInputs)
LawPartition == case.kind = "parts" =>
    /\ \A a, b \in DOMAIN case.parts : a # b => Sel(case.parts[a]) \cap Sel(case.parts[b]) = {}
    /\ UNION {Sel(case.parts[a]) : a \in DOMAIN case.parts} = All
    /\ \A a \in DOMAIN case.parts : ValidFixed(ScDesc, Env, <<<<Axis, case.parts[a]>>>>)
LawRejects == case.kind = "reject" => ~ValidFixed(ScDesc, Env, <<case.req>>)
LawSliceIndices == \A k \in SliceKeys : LET s == KeyIndices(k, N) IN
    /\ \A m \in DOMAIN s : s[m] \in All
    /\ \A m \in DOMAIN s : m > 1 => s[m] - s[m - 1] = (IF k[4] = NoneMark THEN 1 ELSE k[4])
EmitScen == PrintT(<<"SCEN", ToJson([scenario |-> Scenario, desc |-> ScDesc, inputs |-> ScInputs])>>)
Emit == PrintT(<<"CASE", ToJson(case)>>)
EmitSlices == PrintT(<<"SLICES", ToJson([k \in SliceKeys |-> KeyIndices(k, N)])>>)
=============================================================================
