---------------------------- MODULE MC_Storage ----------------------------
(* Model-checking instances of Storage.                                                              *)
(*                                                                                                   *)
(* Mode = "laws"   : every geometry of the universe, every mutator sequence up to Depth over the      *)
(*                   FULL key alphabet (all ints, negatives, the nearest out-of-range ints, the six   *)
(*                   slices, both wrong ranks, persist-then-reopen); the laws are invariants. The    *)
(*                   cfg uses VIEW LawView (history dropped), so states = reachable arrays.           *)
(* Mode = "export" : the same machine with `hist` making every sequence a state; the leaves are the  *)
(*                   op-sequence universe the harness replays on the real classes (printed as JSON).  *)
(*                   Per geometry a plan <<d, f>> bounds it: sequences of length d whose last f       *)
(*                   steps range over the full alphabet and whose first d - f steps over the reduced  *)
(*                   one (last cell by -1, ':' per axis, persist-then-reopen); the plan is the first  *)
(*                   of (3,3) (3,2) (3,1) (2,2) (2,1) (1,1) within Depth whose count is <= Budget     *)
(*                   (always at least (1,1): every key of the alphabet is exported).  KeyLimit: a    *)
(*                   product alphabet larger than this is replaced by the "star" alphabet (StarKeys). *)
(* Mode = "slices" : universe export of SliceIndices for the conformance check against CPython.      *)
EXTENDS Storage, Json
CONSTANTS Mode, MaxRank, MaxSize, Depth, Budget, KeyLimit, LawKeysAll, SliceBound, SliceMaxN
VARIABLES g, st, hist, prev, plan
vars == <<g, st, hist, prev, plan>>

Min(a, b) == IF a < b THEN a ELSE b
(* products saturating at Budget + 1 (TLC integers are 32-bit) *)
SatMul(x, y) == IF x > Budget \div y THEN Budget + 1 ELSE x * y
RECURSIVE SatPow(_, _)
SatPow(b, e) == IF e = 0 THEN 1 ELSE SatMul(SatPow(b, e - 1), b)

---------------------------------------------------------------------------
(* geometry universe: rank 1..MaxRank, sizes 1..MaxSize with as many DISTINCT sizes as possible (a key *)
(* checked against the wrong axis then leaves its range), every one of the 2^rank masks (pipefunc     *)
(* itself never builds an array without external axes, but the classes are public and the property   *)
(* quantifies over all masks).                                                                        *)
Shapes(r) == {s \in [1..r -> 1..MaxSize] : Cardinality(Range(s)) = Min(r, MaxSize)}
Masks(r)  == [1..r -> BOOLEAN]
Geoms     == UNION {{Geom(s, m) : s \in Shapes(r), m \in Masks(r)} : r \in 1..MaxRank}

RedAlphabet(n)  == {<<-1>>, <<N, N, N>>}
(* The dump-key alphabet.  AllKeys = the full product of the per-axis alphabets (+ both wrong ranks).  In    *)
(* export mode a product larger than KeyLimit is replaced by the "star": one axis ranges over its whole      *)
(* alphabet while the others range over the reduced alphabet, plus six all-slice keys (axis k takes slice    *)
(* number k + j) and both wrong ranks.  The laws are always checked over the full product.                   *)
ProductSize(sizes) == Prod([k \in DOMAIN sizes |-> 2 * sizes[k] + 8])
StarKeys(sizes) ==
         UNION {{[k \in DOMAIN sizes |-> IF k = a THEN c ELSE base[k]] :
                    c \in CompAlphabet(sizes[a]), base \in Tuples(sizes, RedAlphabet)} : a \in DOMAIN sizes}
    \cup {[k \in DOMAIN sizes |-> SliceSeq[((k + j) % 6) + 1]] : j \in 0..5}
    \cup WrongRankKeys(sizes)
UseStar(G)      == Mode = "export" /\ ProductSize(G.shape) > KeyLimit
DumpKeysAll(G)  == IF UseStar(G) THEN StarKeys(G.shape) ELSE AllKeys(G.shape)
ReducedKeys(G)  == Tuples(G.shape, RedAlphabet)
(* every third value written to an array without internal shape is Python's None (NoneElem): a WRITTEN None is an       *)
(* ordinary element (unmasked, has_index true), which an implementation testing `value is None` would confuse with absent *)
ValueAt(G, t)   == IF G.internal = << >> /\ t % 3 = 2 THEN [shape |-> << >>, data |-> <<NoneElem>>]
                   ELSE [shape |-> G.internal, data |-> [j \in 1..Prod(G.internal) |-> 10 * t + j]]

PlanSeq == << <<3, 3>>, <<3, 2>>, <<3, 1>>, <<2, 2>>, <<2, 1>>, <<1, 1>> >>
PlanOf(G) ==
    LET K == Cardinality(DumpKeysAll(G)) + 1
        R == Cardinality(ReducedKeys(G)) + 1
        c == SelectSeq(PlanSeq, LAMBDA pl : pl[1] <= Depth /\ SatMul(SatPow(K, pl[2]), SatPow(R, pl[1] - pl[2])) <= Budget)
    IN  IF c = <<>> THEN <<1, 1>> ELSE Head(c)

---------------------------------------------------------------------------
SliceFields   == ((-SliceBound)..SliceBound) \cup {N}
SliceSteps    == ((-3..3) \ {0}) \cup {N}
SliceUniverse == {<<a, b, c>> : a \in SliceFields, b \in SliceFields, c \in SliceSteps}

InitStorage == /\ Mode # "slices"
               /\ g \in Geoms
               /\ st = NewState(g) /\ hist = <<>> /\ prev = AllMissing(g)
               /\ plan = IF Mode = "laws" THEN <<Depth, Depth>> ELSE PlanOf(g)
InitSlices  == /\ Mode = "slices"
               /\ g \in {[s |-> s, n |-> n] : s \in SliceUniverse, n \in 0..SliceMaxN}
               /\ st = SliceIndices(g.s, g.n) /\ hist = <<>> /\ prev = <<>> /\ plan = <<0, 0>>
Init == InitStorage \/ InitSlices

hlen == Len(hist)
DoDump(k) == LET v == ValueAt(g, hlen + 1)
                 d == Dump(g, st.w, k, v)
             IN  /\ st' = [st EXCEPT !.w = d.w]
                 /\ hist' = Append(hist, [op |-> "dump", key |-> k, val |-> v, exc |-> d.exc])
                 /\ prev' = st.w
DoPersistReopen == /\ st' = PersistReopen(st)
                   /\ hist' = Append(hist, [op |-> "persist_reopen", key |-> <<>>, val |-> Missing, exc |-> ""])
                   /\ prev' = st.w
Next == /\ Mode # "slices" /\ hlen < plan[1]
        /\ \/ \E k \in (IF hlen < plan[1] - plan[2] THEN ReducedKeys(g) ELSE DumpKeysAll(g)) : DoDump(k)
           \/ DoPersistReopen
        /\ UNCHANGED <<g, plan>>
Spec == Init /\ [][Next]_vars
LawView == <<g, st, hlen>>

---------------------------------------------------------------------------
(* laws as invariants (Mode = "laws") *)
IsS  == Mode # "slices"
GetKeys == IF LawKeysAll THEN AllKeys(Full(g)) ELSE ObsGetKeys(Full(g))
Dumped(i) == hist[i].op = "dump" /\ hist[i].exc = ""
Touched   == UNION {DumpCells(g, hist[i].key) : i \in {j \in DOMAIN hist : Dumped(j)}}
Last      == hist[hlen]

InvWellFormed == IsS => /\ WellFormed(g) /\ DOMAIN st.w = IndexSet(g.shape) /\ DOMAIN st.p = DOMAIN st.w
                        /\ \A p \in DOMAIN st.w : st.w[p] = Missing \/ IsBlock(g, st.w[p])
(* unwritten <=> masked, with "unwritten" read off the history *)
InvUnwrittenMasked == IsS => \A p \in IndexSet(g.shape) : (st.w[p] = Missing) <=> (p \notin Touched)
(* read-your-writes over the history: a cell holds the value of the last successful dump covering it *)
InvLastWriteWins == IsS => \A p \in Touched :
    LET i == CHOOSE j \in DOMAIN hist : /\ Dumped(j) /\ p \in DumpCells(g, hist[j].key)
                                        /\ \A m \in DOMAIN hist : (m > j /\ Dumped(m)) => p \notin DumpCells(g, hist[m].key)
    IN  st.w[p] = hist[i].val
InvDump == (IsS /\ hlen > 0 /\ Last.op = "dump") =>
               /\ LawDump(g, prev, Last.key, Last.val)
               /\ Dump(g, prev, Last.key, Last.val).w = st.w
InvPersistReopen == (IsS /\ hlen > 0 /\ Last.op = "persist_reopen") => st.w = prev /\ st.p = st.w
InvErrors   == IsS => LawErrors(g, st.w, GetKeys)
InvCells    == IsS => LawCells(g, st.w)
InvNegative == IsS => LawNegative(g, st.w)
InvSlices   == IsS => LawSlices(g, st.w, GetKeys)
InvMask     == IsS => LawMask(g, st.w)
InvToArray  == IsS => LawToArray(g, st.w)

(* laws of SliceIndices (Mode = "slices"): inside the axis, arithmetic progression with the slice's step *)
InvSliceSound == ~IsS => LET step == IF g.s[3] = N THEN 1 ELSE g.s[3] IN
    /\ \A i \in DOMAIN st : 0 <= st[i] /\ st[i] < g.n
    /\ \A i \in 1..(Len(st) - 1) : st[i + 1] - st[i] = step
    /\ g.s = <<N, N, N>> => st = [i \in 1..g.n |-> i - 1]
    /\ g.s = <<N, N, -1>> => st = [i \in 1..g.n |-> g.n - i]

---------------------------------------------------------------------------
(* export *)
EmitGeom  == (Mode = "export" /\ hlen = 0) =>
                 PrintT(<<"GEOM", ToJson([g |-> Basic(g), plan |-> plan, gkeys |-> ObsGetKeys(Full(g)),
                                         nkeys |-> Cardinality(DumpKeysAll(g)),
                                         star |-> UseStar(g)])>>)
EmitSeq   == (Mode = "export" /\ hlen = plan[1]) => PrintT(<<"SEQ", ToJson([g |-> Basic(g), ops |-> hist])>>)
EmitSlice == (Mode = "slices") => PrintT(<<"SLICE", ToJson([s |-> g.s, n |-> g.n, out |-> st])>>)
=============================================================================
