------------------------------- MODULE MapRun -------------------------------
(***************************************************************************)
(* State machine of Pipeline.map / map_async on a description d with       *)
(* inputs inp (pipefunc/map/_prepare.py, _run_info.py, _run.py).           *)
(*                                                                         *)
(* One RUN:  Begin(cfg)  (prepare_run: validation, optional cleanup, store *)
(* initialisation)  then, generation by generation, one task per missing   *)
(* selected element of every function of the generation:                   *)
(*    Call(i,t)  the user function is entered with the sliced kwargs       *)
(*    Ret(i,t)   it returned (the element is then stored)                  *)
(*    Fail(i,t)  it raised                                                 *)
(* in ANY interleaving the executor produces, then Return / Raise.         *)
(* A HISTORY is a sequence of runs on the same run folder: `stored`        *)
(* (elements completely stored) survives from run to run unless the run    *)
(* starts with cleanup.                                                    *)
(*                                                                         *)
(* Elements are identified by <<function index, position>>, position = a   *)
(* tuple over the function's output axes with internal components 0        *)
(* (<<>> for a function applied once).                                     *)
(***************************************************************************)
EXTENDS MapDenote

VARIABLES d, inp,      \* description and inputs of the pipeline (fixed within a history)
          phase,       \* "idle" | "running"
          cfg,         \* configuration of the current run (see Begin)
          den,         \* denoted environment of the current run: name -> value (MapDenoteF)
          called,      \* elements whose user function was entered in the current run
          done,        \* elements whose user function returned in the current run
          failed,      \* elements whose user function raised in the current run
          stored       \* elements completely stored in the run folder / memory store (history state)
mvars == <<d, inp, phase, cfg, den, called, done, failed, stored>>

NoCfg == [F |-> {}, cleanup |-> TRUE, fixed |-> <<>>]

MapInit(desc, inputs) ==
    /\ d = desc /\ inp = inputs /\ phase = "idle" /\ cfg = NoCfg /\ den = [n \in {} |-> 0]
    /\ called = {} /\ done = {} /\ failed = {} /\ stored = {}

---------------------------------------------------------------------------
(* positions at which function i is invoked (internal components fixed to 0) *)
CallPositions(i) ==
    LET fn == d.funcs[i] IN
    IF HasMapInputs(fn)
    THEN LET sh == OutShape(d, den, i) IN {t \in IndexSet(sh) : \A k \in DOMAIN t : ~ExtMask(fn)[k] => t[k] = 0}
    ELSE {<<>>}

(* fixed_indices: pairs axis -> set of selected indices (the harness resolves ints/slices; ResolveFixed in    *)
(* MapFixed.tla is the specification of that resolution).  A position is selected iff each of its named axes  *)
(* that is fixed lies in the selection.                                                                        *)
Selected(i, t) ==
    LET fn == d.funcs[i] IN
    ~HasMapInputs(fn) \/ \A k \in DOMAIN t :
        (ExtMask(fn)[k] /\ PHas(cfg.fixed, OutAxes(fn)[k])) => t[k] \in SeqToSet(PGet(cfg.fixed, OutAxes(fn)[k]))

(* the elements of producer j that the invocation <<i, t>> consumes: through a mapped parameter only the positions that  *)
(* its key selects (':' = all along that axis), through an unmapped parameter the whole array                            *)
ConsumedOf(i, t, j) ==
    LET fi == d.funcs[i]  fj == d.funcs[j]
        ps == {p \in ParamsOf(d, i) : p \in OutputsOf(d, j) /\ ~IsBound(d, i, p) /\ p \notin DOMAIN InitEnv(inp)}
        Match(u, key) == \A k \in DOMAIN u : (ExtMask(fj)[k] /\ k \in DOMAIN key) => (key[k] = ALL \/ key[k] = u[k])
    IN  IF ps = {} THEN {}
        ELSE IF ~HasMapInputs(fj) \/ \E p \in ps : ~IsMappedParam(fi, p) THEN {<<j, u>> : u \in CallPositions(j)}
        ELSE {<<j, u>> : u \in {v \in CallPositions(j) : \E p \in ps : Match(v, KeyFor(fi, p, t))}}
Elements(i)   == {<<i, t>> : t \in {u \in CallPositions(i) : Selected(i, u)}}
AllElements   == UNION {Elements(i) : i \in cfg.F}
(* The pipeline cache in map (_get_or_set_cache, C09): with a cache, an invocation whose keyword arguments equal those  *)
(* of an invocation of the same function that has completed (in this run, or in an earlier run with the same cache:     *)
(* cfg.memo) may be answered from the cache: the user function is not entered, the element is complete.                *)
(* cfg.cache / cfg.memo are optional fields of the run configuration.                                                   *)
Cached   == "cache" \in DOMAIN cfg /\ cfg.cache
Memo     == IF "memo" \in DOMAIN cfg THEN cfg.memo ELSE {}
KwOfElem(e) == ElemKwargs(d, den, e[1], e[2])
Hits     == IF ~Cached THEN {}
            ELSE {e \in AllElements \ called :
                     (\E e2 \in done : e2[1] = e[1] /\ KwOfElem(e2) = KwOfElem(e)) \/ <<e[1], KwOfElem(e)>> \in Memo}
Avail    == done \cup stored \cup Hits
Complete(i)   == Elements(i) \subseteq Avail
(* the functions of F that i consumes an output of (unless that parameter is bound) *)
DepsIn(i)     == StaticDeps(d, i) \cap cfg.F

---------------------------------------------------------------------------
Begin(c) ==
    /\ phase = "idle"
    /\ ValidMapRequestF(d, inp, c.F)
    /\ phase' = "running" /\ cfg' = c
    /\ den' = MapDenoteF(d, inp, c.F)
    /\ called' = {} /\ done' = {} /\ failed' = {}
    /\ stored' = IF c.cleanup THEN {} ELSE stored
    /\ UNCHANGED <<d, inp>>

(* a new run with OTHER inputs is legitimate on a cleaned folder (the cache object of the pipeline survives: cfg.memo) *)
BeginWith(c, newinp) ==
    /\ phase = "idle" /\ c.cleanup
    /\ ValidMapRequestF(d, newinp, c.F)
    /\ phase' = "running" /\ cfg' = c /\ inp' = newinp
    /\ den' = MapDenoteF(d, newinp, c.F)
    /\ called' = {} /\ done' = {} /\ failed' = {} /\ stored' = {}
    /\ UNCHANGED d

(* Pipeline.replace between runs: function i gets another implementation (same outputs).  What the cache holds for i and   *)
(* for every function downstream of i is stale from now on: no later run may be answered from it (entries of functions    *)
(* that do not depend on i may survive; pipefunc clears everything, which is within this).                                *)
Affected(i) == {j \in FIdx(d) : j = i \/ i \in SClosure(d, StaticDeps(d, j))}
Replace(i, fn) ==
    /\ phase = "idle" /\ i \in FIdx(d) /\ fn.outputs = d.funcs[i].outputs
    /\ d' = [d EXCEPT !.funcs[i] = fn]
    /\ cfg' = [F |-> cfg.F, cleanup |-> cfg.cleanup, fixed |-> cfg.fixed, cache |-> Cached,
               memo |-> {m \in Memo \cup (IF Cached THEN {<<e[1], KwOfElem(e)>> : e \in done} ELSE {}) : m[1] \notin Affected(i)}]
    /\ called' = {} /\ done' = {}
    /\ UNCHANGED <<inp, phase, den, failed, stored>>

(* InputsComplete + ExactlyOnce + NoRecompute + NoLaterGeneration are the enabling condition *)
Call(i, t, kwargs) ==
    /\ phase = "running"
    /\ i \in cfg.F /\ <<i, t>> \in Elements(i)
    /\ <<i, t>> \notin called                            \* at most once per element and run
    /\ <<i, t>> \notin stored                            \* stored work is not redone
    /\ \A j \in DepsIn(i) : ConsumedOf(i, t, j) \subseteq Avail   \* never before all values it consumes are complete
    /\ \A e \in failed : GenOf(d, e[1]) >= GenOf(d, i)   \* no function of a later generation after a failure
    /\ kwargs = ElemKwargs(d, den, i, t)                 \* sliced exactly as the MapSpec says
    /\ called' = called \cup {<<i, t>>}
    /\ UNCHANGED <<d, inp, phase, cfg, den, done, failed, stored>>

Ret(i, t) ==
    /\ phase = "running" /\ <<i, t>> \in called \ (done \cup failed)
    /\ done' = done \cup {<<i, t>>}
    /\ UNCHANGED <<d, inp, phase, cfg, den, called, failed, stored>>

Fail(i, t) ==
    /\ phase = "running" /\ <<i, t>> \in called \ (done \cup failed)
    /\ failed' = failed \cup {<<i, t>>}
    /\ UNCHANGED <<d, inp, phase, cfg, den, called, done, stored>>

Finish == phase' = "idle" /\ UNCHANGED <<d, inp, cfg, den, called, done, failed>>

(* successful return: every selected element of every function is complete; results are the denotation; *)
(* everything computed is now stored (file storage wrote it on the way, memory storage persists here)    *)
Return(results, loaded) ==
    /\ phase = "running" /\ failed = {}
    /\ \A i \in cfg.F : Complete(i)
    /\ called = done
    /\ cfg.fixed = <<>> =>
          \A o \in UNION {OutputsOf(d, i) : i \in cfg.F} : PHas(results, o) /\ PGet(results, o) = den[o]
    /\ \A k \in DOMAIN loaded : loaded[k][2] = den[loaded[k][1]]      \* what load_outputs reads back afterwards
    /\ stored' = stored \cup done \cup Hits
    /\ Finish

(* learners (create_learners): the same elements are executed one by one by SequenceLearners, in any order that respects  *)
(* what each element consumes; when every learner is done everything is stored; nothing is returned                        *)
LearnersDone ==
    /\ phase = "running" /\ failed = {}
    /\ \A i \in cfg.F : Complete(i)
    /\ called = done
    /\ stored' = stored \cup done
    /\ Finish

(* a failure surfaces: the run ends after at least one user function raised *)
Raise ==
    /\ phase = "running" /\ failed # {}
    /\ UNCHANGED stored
    /\ Finish

(* row-major linear index of position t of function i over its EXTERNAL shape *)
ExtPos(i, t) == LET fn == d.funcs[i]
                    ks == SelectSeq([k \in DOMAIN t |-> k], LAMBDA k : ExtMask(fn)[k])
                IN  [m \in DOMAIN ks |-> t[ks[m]]]
LinOf(i, t) == LET sh == ExtShape(d, den, i)  te == ExtPos(i, t)
                   RECURSIVE L(_, _)
                   L(k, acc) == IF k > Len(sh) THEN acc ELSE L(k + 1, acc * sh[k] + te[k])
               IN  IF Len(t) = 0 THEN 0 ELSE L(1, 0)
(* After an interruption (the process died, or the run raised) the only state that survives is what is completely *)
(* stored: `disk` = set of <<output name, linear index>> whose stored value is complete (observed by the harness   *)
(* from the run folder).  An element is stored iff every output of its function is complete at its index.        *)
EveryElement == UNION {{<<i, t>> : t \in CallPositions(i)} : i \in cfg.F}       \* regardless of the current selection
StoredFromDisk(disk) == {e \in EveryElement : \A o \in OutputsOf(d, e[1]) : <<o, LinOf(e[1], e[2])>> \in disk}
Interrupt(disk) ==
    /\ phase \in {"running", "idle"}
    /\ phase' = "idle" /\ stored' = StoredFromDisk(disk)
    /\ called' = {} /\ done' = {} /\ failed' = {}
    /\ UNCHANGED <<d, inp, cfg, den>>

(* invariants *)
TypeOK == phase \in {"idle", "running"} /\ done \subseteq called /\ failed \subseteq called /\ done \cap failed = {}
DoneStored == phase = "running" => called \cap stored = {}      \* nothing stored is recomputed
=============================================================================
