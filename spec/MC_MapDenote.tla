---------------------------- MODULE MC_MapDenote ----------------------------
(* A universe of mapped pipelines defined in TLA+ (mechanism A) for C01 and the properties that reuse it.  *)
(* Producer f: inputs a (and optionally b) with every arrangement of axis names over {i, j, k} incl. ':',  *)
(* every order of the output axes, an optional internal axis n at any position, an optional second output; *)
(* or a generator "... -> y[n]".  Consumer g of y: none / element-wise / partial ':' reduction of one axis  *)
(* / full reduction (no MapSpec) / element-wise zip with a fresh root input.  Every axis size in 1..MaxSize. *)
(* Laws of MapDenote are checked per case; each case is printed with its denotation for the harness.       *)
EXTENDS MapDenote, SequencesExt, Json
CONSTANTS MaxSize, Rich, Shard, NShards

VARIABLES case
Spec_dummy == TRUE

Str(t) == IF Len(t) = 0 THEN "" ELSE LET RECURSIVE S(_)
                                         S(u) == IF Len(u) = 0 THEN "" ELSE "_" \o ToString(Head(u)) \o S(Tail(u))
                                     IN S(t)
InputArr(name, shape) == BuildArr(shape, <<>>, [t \in IndexSet(shape) |-> Atom("@" \o name \o Str(t))])

Perms(s) == {p \in [1..Len(s) -> SeqToSet(s)] : \A x, y \in 1..Len(s) : x # y => p[x] # p[y]}
Named(axes) == {axes[k] : k \in DOMAIN axes} \ {":"}
InsAt(s, pos, x) == SubSeq(s, 1, pos - 1) \o <<x>> \o SubSeq(s, pos, Len(s))

ASpecs == IF Rich THEN {<<"i">>, <<"i", "j">>, <<"j", "i">>, <<"i", ":">>, <<":", "i">>, <<"i", "j", "k">>, <<"i", ":", "j">>}
          ELSE {<<"i">>, <<"i", "j">>, <<"i", ":">>, <<":", "i">>}
BSpecs == IF Rich THEN {<<>>, <<"i">>, <<"j">>, <<"k">>, <<"j", "i">>, <<"k", ":">>, <<":", "j">>}
          ELSE {<<>>, <<"i">>, <<"k">>, <<":", "j">>}
Consumers == {"none", "elementwise", "partial", "full", "zipnew"}

MkFn(name, ps, outs, hasms, ins, oaxes, internal) ==
    [name |-> name, params |-> ps, outputs |-> outs, defaults |-> <<>>, bound |-> <<>>, has_ms |-> hasms,
     ms |-> [ins |-> ins, outs |-> [k \in DOMAIN outs |-> [name |-> outs[k], axes |-> oaxes]]],
     internal |-> internal, cache |-> FALSE]

(* the consumer of y (axes yax) *)
NoSeq == << >>
InY(ax) == [name |-> "y", axes |-> ax]
InC(ax) == [name |-> "c", axes |-> ax]
One(x) == << x >>
Consumer(kind, yax) ==
    CASE kind = "elementwise" -> One(MkFn("g", <<"y", "s">>, One("w"), TRUE, One(InY(yax)), yax, NoSeq))
      [] kind = "partial"     -> One(MkFn("g", One("y"), One("w"), TRUE, One(InY(One(":") \o Tail(yax))), Tail(yax), NoSeq))
      [] kind = "full"        -> One(MkFn("g", <<"s", "y">>, One("w"), FALSE, NoSeq, NoSeq, NoSeq))
      [] kind = "zipnew"      -> One(MkFn("g", <<"c", "y">>, One("w"), TRUE, <<InY(yax), InC(One(yax[1]))>>, yax, NoSeq))
      [] kind = "none"        -> NoSeq
ConsumerOK(kind, yax) == CASE kind = "partial" -> Len(yax) >= 2 [] OTHER -> TRUE

(* case record: [desc, sizes (function axis -> size), inputs] *)
MapCases ==
    {[a |-> aa, b |-> bb, oax |-> oo, ipos |-> ip, multi |-> mu, cons |-> co] :
        aa \in ASpecs, bb \in BSpecs, oo \in UNION {Perms(SetToSeq(Named(a2) \cup Named(b2))) : a2 \in ASpecs, b2 \in BSpecs},
        ip \in 0..4, mu \in BOOLEAN, co \in Consumers}
CaseOK(c) == /\ SeqToSet(c.oax) = Named(c.a) \cup Named(c.b) /\ Len(c.oax) = Cardinality(Named(c.a) \cup Named(c.b))
             /\ c.ipos <= Len(c.oax) + 1
             /\ (c.ipos > 0 => Len(c.oax) < 3)
             /\ (~Rich => (c.multi => c.cons \in {"none", "elementwise"}))
             /\ ConsumerOK(c.cons, IF c.ipos > 0 THEN InsAt(c.oax, c.ipos, "n") ELSE c.oax)
DescOf(c) ==
    LET yax  == IF c.ipos > 0 THEN InsAt(c.oax, c.ipos, "n") ELSE c.oax
        ins  == <<[name |-> "a", axes |-> c.a]>> \o (IF Len(c.b) > 0 THEN <<[name |-> "b", axes |-> c.b]>> ELSE <<>>)
        ps   == IF Len(c.b) > 0 THEN <<"a", "s", "b">> ELSE <<"s", "a">>
        outs == IF c.multi THEN <<"y", "y2">> ELSE <<"y">>
        f    == MkFn("f", ps, outs, TRUE, ins, yax, IF c.ipos > 0 THEN <<2>> ELSE <<>>)
    IN  [funcs |-> <<f>> \o Consumer(c.cons, yax)]
AxesUsed(c) == Named(c.a) \cup Named(c.b) \cup (IF \E k \in DOMAIN c.a : c.a[k] = ":" THEN {"p"} ELSE {}) \cup (IF \E k \in DOMAIN c.b : c.b[k] = ":" THEN {"q"} ELSE {})
SizeMaps(c) == [AxesUsed(c) -> 1..MaxSize]
ShapeFor(axes, sz, colon) == [k \in DOMAIN axes |-> IF axes[k] = ":" THEN sz[colon] ELSE sz[axes[k]]]
YAx(c) == IF c.ipos > 0 THEN InsAt(c.oax, c.ipos, "n") ELSE c.oax
InputsOf(c, sz) ==
    <<<<"a", InputArr("a", ShapeFor(c.a, sz, "p"))>>, <<"s", Atom("@s")>>>>
    \o (IF Len(c.b) > 0 THEN <<<<"b", InputArr("b", ShapeFor(c.b, sz, "q"))>>>> ELSE <<>>)
    \o (IF c.cons = "zipnew" THEN <<<<"c", InputArr("c", <<IF YAx(c)[1] = "n" THEN 2 ELSE sz[YAx(c)[1]]>>)>>>> ELSE <<>>)

(* generator cases: "... -> y[n]" with internal shape <<2>>, followed by a consumer *)
GenDesc(co) == [funcs |-> One(MkFn("f", One("s"), One("y"), TRUE, NoSeq, One("n"), One(2))) \o Consumer(co, One("n"))]

ConsIdx(k) == CASE k = "none" -> 0 [] k = "elementwise" -> 1 [] k = "partial" -> 2 [] k = "full" -> 3 [] k = "zipnew" -> 4
InShard(c) == (c.ipos + 5 * (IF c.multi THEN 1 ELSE 0) + 10 * ConsIdx(c.cons) + 3 * Len(c.a) + 7 * Len(c.b)) % NShards = Shard
Universe ==
    UNION {{[desc |-> DescOf(c), inputs |-> InputsOf(c, sz)] : sz \in SizeMaps(c)} : c \in {cc \in MapCases : CaseOK(cc) /\ InShard(cc)}}
    \cup {[desc |-> GenDesc(co), inputs |-> <<<<"s", Atom("@s")>>>> \o (IF co = "zipnew" THEN <<<<"c", InputArr("c", <<2>>)>>>> ELSE <<>>)] :
             co \in (IF Shard = 0 THEN {"none", "elementwise", "full", "zipnew"} ELSE {})}

Init == case \in Universe
Next == UNCHANGED case
Spec == Init /\ [][Next]_case

Den == MapDenote(case.desc, case.inputs)
RECURSIVE Leaves(_, _)
Leaves(v, rank) == IF rank = 0 THEN {v} ELSE UNION {Leaves(v.a[k], rank - 1) : k \in DOMAIN v.a}
MappedFuncs == {i \in FIdx(case.desc) : HasMapInputs(case.desc.funcs[i])}

LawValid == ValidMapRequest(case.desc, case.inputs)
(* output shape = product rule over the named axes (+ internal sizes) *)
LawShape == \A i \in MappedFuncs : \A o \in OutputsOf(case.desc, i) :
                HasShape(Den[o], OutShape(case.desc, Den, i))
(* every output position is filled, each with a different term (inputs are pairwise distinct atoms) *)
LawBijective == \A i \in MappedFuncs : \A o \in OutputsOf(case.desc, i) :
                LET sh == OutShape(case.desc, Den, i) IN Cardinality(Leaves(Den[o], Len(sh))) = Prod(sh)
(* number of invocations = size of the external index space *)
LawCalls == \A i \in MappedFuncs :
                LET fn == case.desc.funcs[i]  sh == OutShape(case.desc, Den, i) IN
                Cardinality({t \in IndexSet(sh) : \A k \in DOMAIN t : ~ExtMask(fn)[k] => t[k] = 0}) = Prod(ExtShape(case.desc, Den, i))

Emit == PrintT(<<"CASE", ToJson([desc |-> case.desc, inputs |-> case.inputs])>>)
EmitDen == PrintT(<<"CASE", ToJson([desc |-> case.desc, inputs |-> case.inputs,
                                     den |-> [o \in AllOutputs(case.desc) |-> Den[o]]])>>)
=============================================================================
