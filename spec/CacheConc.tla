----------------------------- MODULE CacheConc ------------------------------
(***************************************************************************)
(* LRUCache / HybridCache with shared=True used from P processes: the      *)
(* operations of pipefunc/cache.py split exactly where the code takes      *)
(* `_cache_lock`.                                                          *)
(*   get(k), as written:   A  unlocked membership test (absent -> None)    *)
(*                         B  locked section: read / bump the entry        *)
(*                            (KeyError if the entry was evicted between)  *)
(*   get(k), repaired:     the test is inside the locked section (atomic)  *)
(*   put / clear:          one locked section (atomic)                     *)
(*   callers' idiom  `if k in cache: r = cache.get(k)`  (_get_or_set_cache,*)
(*   get_result_from_cache, memoize): the test, then a get                 *)
(* The model is implementation-shaped (switch Fixed) so that TLC exhibits  *)
(* the check-then-act race; complete behaviours are printed as lock        *)
(* hand-over scripts for the scheduler-controlled lock of the harness.     *)
(***************************************************************************)
EXTENDS Cache, Json
CONSTANTS Kind, Max, Keys, Fixed, Export, ProgSet
(* ProgSet: which pair of per-process programs (sequences of ops) to run, see Progs *)

VARIABLES c,      \* the shared container (a Cache.tla record)
          prog,   \* [Proc -> remaining ops]
          pc,     \* [Proc -> "idle" | "tested" | "idiom"]
          err,    \* some operation raised KeyError
          noneServed, \* the callers' idiom handed None to its caller although it had seen the key
          hist
vars == <<c, prog, pc, err, noneServed, hist>>
Proc == {1, 2}

OpPut(k, v) == [op |-> "put", k |-> k, v |-> v, d |-> 1]
OpGet(k)    == [op |-> "get", k |-> k]
OpIdiom(k)  == [op |-> "idiom", k |-> k]
KS == CHOOSE s \in [1..Cardinality(Keys) -> Keys] : \A i, j \in 1..Cardinality(Keys) : i # j => s[i] # s[j]
(* programs: process 1 reads a key it has put, process 2 puts enough fresh keys to evict it *)
Progs == CASE ProgSet = 1 -> <<<<OpPut(KS[1], 1), OpGet(KS[1])>>, <<OpPut(KS[2], 2), OpPut(KS[3], 3)>>>>
           [] ProgSet = 2 -> <<<<OpPut(KS[1], 1), OpIdiom(KS[1])>>, <<OpPut(KS[2], 2), OpPut(KS[3], 3)>>>>
           [] ProgSet = 3 -> <<<<OpPut(KS[1], 1), OpGet(KS[1]), OpGet(KS[2])>>, <<OpPut(KS[2], 2), OpGet(KS[1]), OpPut(KS[3], 3)>>>>
           [] ProgSet = 4 -> <<<<OpGet(KS[1]), OpPut(KS[1], 1), OpGet(KS[1])>>, <<[op |-> "clear"], OpPut(KS[2], 2)>>>>

Init == /\ c = New(Kind, Max, 0, 1, 1) /\ prog = [p \in Proc |-> Progs[p]] /\ pc = [p \in Proc |-> "idle"]
        /\ err = FALSE /\ noneServed = FALSE /\ hist = <<>>

Log(p, what) == hist' = Append(hist, [p |-> p, s |-> what, n |-> Len(Progs[p]) - Len(prog[p]) + 1])
Cur(p) == Head(prog[p])
Pop(p) == prog' = [prog EXCEPT ![p] = Tail(prog[p])]
Atomic(p, o) == \E out \in Outcomes(c, o) : c' = out[1]

(* an operation that is one locked section *)
Locked(p) == /\ prog[p] # <<>> /\ pc[p] = "idle" /\ Cur(p).op \in {"put", "clear"}
             /\ Atomic(p, Cur(p)) /\ Pop(p) /\ Log(p, "locked") /\ UNCHANGED <<pc, err, noneServed>>
(* repaired get: atomic *)
GetAtomic(p) == /\ Fixed /\ prog[p] # <<>> /\ pc[p] \in {"idle", "idiom"} /\ Cur(p).op \in {"get", "idiom"}
                /\ (pc[p] = "idle" => Cur(p).op = "get")
                /\ \E out \in Outcomes(c, OpGet(Cur(p).k)) :
                      /\ c' = out[1]
                      /\ noneServed' = (noneServed \/ (pc[p] = "idiom" /\ out[2] = NoneV))
                /\ Pop(p) /\ pc' = [pc EXCEPT ![p] = "idle"] /\ Log(p, "locked") /\ UNCHANGED err
(* as written: A = unlocked test *)
GetTest(p) == /\ ~Fixed /\ prog[p] # <<>> /\ pc[p] \in {"idle", "idiom"} /\ Cur(p).op \in {"get", "idiom"}
              /\ (pc[p] = "idle" => Cur(p).op = "get")
              /\ IF Present(c, Cur(p).k)
                 THEN pc' = [pc EXCEPT ![p] = "tested"] /\ UNCHANGED <<prog, noneServed>>
                 ELSE /\ Pop(p) /\ pc' = [pc EXCEPT ![p] = "idle"]
                      /\ noneServed' = (noneServed \/ pc[p] = "idiom")      \* get returned None to the idiom
              /\ Log(p, "test") /\ UNCHANGED <<c, err>>
(* as written: B = locked section after a successful test *)
GetLocked(p) == /\ ~Fixed /\ pc[p] = "tested"
                /\ IF Present(c, Cur(p).k)
                   THEN (\E out \in Outcomes(c, OpGet(Cur(p).k)) : c' = out[1]) /\ UNCHANGED err
                   ELSE err' = TRUE /\ UNCHANGED c                           \* KeyError: evicted in between
                /\ Pop(p) /\ pc' = [pc EXCEPT ![p] = "idle"] /\ Log(p, "locked") /\ UNCHANGED noneServed
(* the callers' idiom: `if k in cache:` then get; absent -> the caller computes (no cache op) *)
IdiomTest(p) == /\ prog[p] # <<>> /\ pc[p] = "idle" /\ Cur(p).op = "idiom"
                /\ IF Present(c, Cur(p).k) THEN pc' = [pc EXCEPT ![p] = "idiom"] /\ UNCHANGED prog
                   ELSE Pop(p) /\ UNCHANGED pc
                /\ Log(p, "contains") /\ UNCHANGED <<c, err, noneServed>>

Next == \E p \in Proc : Locked(p) \/ GetAtomic(p) \/ GetTest(p) \/ GetLocked(p) \/ IdiomTest(p)
Spec == Init /\ [][Next]_vars

Done == \A p \in Proc : prog[p] = <<>>
NoKeyError   == ~err
NoNoneServed == ~noneServed
InvWellFormed == WellFormed(c)
InvLenBounded == LenBounded(c)
Emit == (Export /\ Done) => PrintT(<<"SCRIPT", ToJson([kind |-> Kind, max |-> Max, progs |-> Progs, steps |-> hist])>>)
=============================================================================
