-------------------------- MODULE MC_PipelineCall ---------------------------
(* Small universe of pipeline descriptions, defined here in TLA+ (mechanism A), with the laws of          *)
(* PipelineStatic checked per description, plus exhaustive exploration of the PipelineCall state machine   *)
(* over every (description, requested output, argument cut).  Each case is printed for the harness, which *)
(* builds the real Pipeline in every listing order and calls it.                                          *)
EXTENDS PipelineCall, SequencesExt, Json
CONSTANTS N,        \* number of functions (2 or 3)
          Rich,     \* TRUE: also reversed parameter order and more options
          Shard, NShards

Roots == <<"x", "y", "z">>
Opts  == IF Rich THEN {"none", "default_x_first", "default_x_all", "bound_b_first", "bound_c_up", "multi_a", "multi_a_bound_c_up"}
         ELSE {"none", "default_x_first", "bound_c_up", "multi_a"}

ParamSeqs(av) == ({<<>>} \cup {<<av[i]>> : i \in DOMAIN av})
                 \cup {<<av[i], av[j]>> : <<i, j>> \in {ij \in (DOMAIN av) \X (DOMAIN av) : ij[1] # ij[2]}}
Sorted(av, ps) == Len(ps) < 2 \/ \E i, j \in DOMAIN av : i < j /\ ps = <<av[i], av[j]>>
PSeqs(av) == IF Rich THEN ParamSeqs(av) ELSE {ps \in ParamSeqs(av) : Sorted(av, ps)}

DV(n) == [f |-> "@d_" \o n, a |-> <<>>]      \* default value of n
BV(n) == [f |-> "@b_" \o n, a |-> <<>>]      \* bound value of n
KV(n) == [f |-> "@k_" \o n, a |-> <<>>]      \* keyword value supplied for n

MkF(name, ps, outs, dfl, bnd) ==
    [name |-> name, params |-> ps, outputs |-> outs, defaults |-> dfl, bound |-> bnd,
     has_ms |-> FALSE, ms |-> [ins |-> <<>>, outs |-> <<>>], internal |-> <<>>, cache |-> FALSE]

HasX(ps) == \E k \in DOMAIN ps : ps[k] = "x"
FirstUp(ps, ups) == IF \E k \in DOMAIN ps : ps[k] \in ups
                    THEN <<ps[CHOOSE k \in DOMAIN ps : ps[k] \in ups /\ \A m \in DOMAIN ps : ps[m] \in ups => k <= m]>>
                    ELSE <<>>

Desc(pa, pb, pc, opt) ==
    LET multi  == opt \in {"multi_a", "multi_a_bound_c_up"}
        aouts  == IF multi THEN <<"a", "a2">> ELSE <<"a">>
        dflA   == IF opt \in {"default_x_first", "default_x_all"} /\ HasX(pa) THEN <<<<"x", DV("x")>>>> ELSE <<>>
        dflB   == IF (opt = "default_x_all" \/ (opt = "default_x_first" /\ ~HasX(pa))) /\ HasX(pb) THEN <<<<"x", DV("x")>>>> ELSE <<>>
        dflC   == IF (opt = "default_x_all" \/ (opt = "default_x_first" /\ ~HasX(pa) /\ ~HasX(pb))) /\ HasX(pc) THEN <<<<"x", DV("x")>>>> ELSE <<>>
        bndB   == IF opt = "bound_b_first" /\ Len(pb) > 0 THEN <<<<pb[1], BV(pb[1])>>>> ELSE <<>>
        upc    == FirstUp(pc, {"a", "a2", "b"})
        bndC   == IF opt \in {"bound_c_up", "multi_a_bound_c_up"} /\ Len(upc) > 0 THEN <<<<upc[1], BV(upc[1])>>>> ELSE <<>>
        fa     == MkF("fa", pa, aouts, dflA, <<>>)
        fb     == MkF("fb", pb, <<"b">>, dflB, bndB)
        fc     == MkF("fc", pc, <<"c">>, dflC, bndC)
    IN  [funcs |-> IF N = 2 THEN <<fa, fb>> ELSE <<fa, fb, fc>>]

AvB(opt) == IF opt \in {"multi_a", "multi_a_bound_c_up"} THEN Roots \o <<"a", "a2">> ELSE Roots \o <<"a">>
AvC(opt) == AvB(opt) \o <<"b">>

Universe == {Desc(pa, pb, pc, opt) : pa \in PSeqs(Roots), pb \in UNION {PSeqs(AvB(o)) : o \in Opts},
                                     pc \in (IF N = 2 THEN {<<>>} ELSE UNION {PSeqs(AvC(o)) : o \in Opts}), opt \in Opts}
(* a parameter named a2 only exists with the multi-output option *)
WellNamed(dd) == \A i \in FIdx(dd) : \A p \in ParamsOf(dd, i) : p \in RootNames(dd) \cup AllOutputs(dd) => (p = "a2" => "a2" \in AllOutputs(dd))
Valid(dd) == ("a2" \in AllParams(dd) => "a2" \in AllOutputs(dd))

---------------------------------------------------------------------------
Names(dd)  == AllParams(dd) \cup AllOutputs(dd)
KwOf(C)    == LET s == SetToSeq(C) IN [k \in 1..Len(s) |-> <<s[k], KV(s[k])>>]
Cuts(dd, o) == {C \in SUBSET (Names(dd) \ {o}) : Defined(dd, KwOf(C), o) /\ Surplus(dd, KwOf(C), o) = {}}

RECURSIVE HasMissing(_)
HasMissing(v) == v.f = "#missing" \/ \E k \in DOMAIN v.a : HasMissing(v.a[k])

Rev(dd) == [funcs |-> [k \in 1..NF(dd) |-> dd.funcs[NF(dd) + 1 - k]]]

(* laws per description *)
LawAcyclic(dd)  == Acyclic(dd)
LawClosed(dd)   == \A o \in AllOutputs(dd) : \A C \in SUBSET (Names(dd) \ {o}) :
                      LET k == KwOf(C) IN \A i \in Needed(dd, k, o) : DirectDeps(dd, k, i) \subseteq Needed(dd, k, o)
LawDefined(dd)  == \A o \in AllOutputs(dd) : \A C \in SUBSET (Names(dd) \ {o}) :
                      LET k == KwOf(C) IN Defined(dd, k, o) <=> ~HasMissing(Eval(dd, k, o))
LawOrder(dd)    == \A o \in AllOutputs(dd) : \A C \in Cuts(dd, o) :
                      Eval(Rev(dd), KwOf(C), o) = Eval(dd, KwOf(C), o) /\ Cuts(Rev(dd), o) = Cuts(dd, o)
LawRootCut(dd)  == \A o \in AllOutputs(dd) : \E C \in Cuts(dd, o) : C \subseteq RootNames(dd)
(* supplying a name cuts off its producer unless another path needs it *)
LawSupplied(dd) == \A o \in AllOutputs(dd) : \A C \in Cuts(dd, o) : \A n \in C \cap AllOutputs(dd) :
                      \A i \in Needed(dd, KwOf(C), o) : \A p \in ParamsOf(dd, i) : (p = n /\ ~IsBound(dd, i, p)) => Source(dd, KwOf(C), i, p) = "kw"

---------------------------------------------------------------------------
(* Part 1: universe export.  The case is the description d; one state per description. *)
UInit == d \in {dd \in Universe : Valid(dd)} /\ phase = "idle" /\ out = "" /\ kw = <<>> /\ mode = "call" /\ done = {}
UNext == UNCHANGED cvars
USpec == UInit /\ [][UNext]_cvars
InvAcyclic  == LawAcyclic(d)
InvClosed   == LawClosed(d)
InvDefined  == LawDefined(d)
InvOrder    == LawOrder(d)
InvRootCut  == LawRootCut(d)
InvSupplied == LawSupplied(d)
Emit == PrintT(<<"CASE", ToJson([desc |-> d,
                                  cuts |-> [o \in AllOutputs(d) |-> {SetToSeq(C) : C \in Cuts(d, o)}]])>>)

---------------------------------------------------------------------------
(* Part 2: every behaviour of the call state machine for every (description, output, keyword set, mode);  *)
(* deadlock checking ON: a running call can always make a step until it returns or raises.              *)
BNext == \/ \E o \in AllOutputs(d), C \in SUBSET Names(d), m \in {"call", "full"} : Begin(o, KwOf(C), m)
         \/ \E i \in FIdx(d) : Call(i, ArgsOf(d, kw, i))
         \/ Return(Eval(d, kw, out))
         \/ ReturnFull({<<n, ValOf(d, kw, n)>> : n \in FullOutputNames(d, kw, out)})
         \/ RaiseUnused \/ RaiseMissing \/ RaiseOutputSupplied
BSpec == UInit /\ [][BNext]_cvars
InvDoneOnlyNeeded == DoneOnlyNeeded
(* a call that can return has executed exactly the needed functions *)
InvReturnExact == (phase = "running" /\ ENABLED Return(Eval(d, kw, out))) => done = Needed(d, kw, out)
=============================================================================
