--------------------------- MODULE MC_MapSpecSem ---------------------------
(***************************************************************************)
(* Model-checking instance of MapSpecSem (mechanism A, universe export).   *)
(* Every case is one initial state <<case, out>>; the laws of MapSpecSem   *)
(* are invariants evaluated per case, and the invariant Emit prints the    *)
(* expected results as one JSON line per case for the harness (c08.py),    *)
(* which builds the real pipefunc.map.MapSpec objects and compares.        *)
(*                                                                         *)
(* Part selects the universe (one TLC process per Part and Shard):         *)
(*   "sem"  MapSpec x input shapes: shape(), output_key, input_keys for    *)
(*          ALL linear indices; shape mismatches by mutation of one shape  *)
(*          or by exchanging the shapes of two inputs; the shape mappings  *)
(*          are presented in EVERY insertion order (out.calls)             *)
(*   "syn"  MapSpec under several naming schemes: str, from_string with    *)
(*          whitespace, rename, add_axes                                   *)
(*   "bad"  malformed ASTs by mutation of well-formed ones                 *)
(*   "tok"  mutated token sequences (inside and outside the grammar)       *)
(*   "his"  mechanism B: HISTORIES on one object and the objects derived   *)
(*          from it (use, add_axes, rename, reparse in every order up to   *)
(*          HisLen): a small state machine, every reachable state is one   *)
(*          history with the expected observation of every object in it    *)
(*   "acc"  second pass: ASTs that the real code RETURNED for inputs on    *)
(*          which the spec only requires "rejected, or accepted as a       *)
(*          well-formed MapSpec" are read back and judged by Violations    *)
(*   "rec"  mechanism C: observations recorded from the real code on       *)
(*          seeded random specs LARGER than the universes (rank <= 5,      *)
(*          sizes <= 6, <= 4 inputs) are judged by the same operators      *)
(*                                                                         *)
(* A STRUCTURE is a MapSpec up to naming: [R |-> output rank, ins |->      *)
(* sequence of axes tuples over the canonical index names i, j, k and ':'];*)
(* the output axes are <<i, j, k>>[1..R] (canonical index naming: any      *)
(* well-formed regular MapSpec of output rank R is a renaming of one).     *)
(* Indices of the output that no input uses are internal axes.             *)
(***************************************************************************)
EXTENDS MapSpecSem, TLC, Json, IOUtils

CONSTANTS Part, Shard, NShards,
          MaxIn,            \* structures have 0..MaxIn inputs (each of rank 1..3), 1..3 output axes
          SortFrom,         \* with >= SortFrom inputs only non-decreasing input sequences (symmetry cut)
          MaxDim,           \* every index size ranges over 1..MaxDim ...
          BigIn, BigDim,    \* ... but over 1..BigDim for structures with >= BigIn inputs
          MaxAxes, BigAxes, \* bound on the total number of input axes (structures with < / >= BigIn inputs)
          LawDim,           \* size of the axis added when checking LawAddAxesDenotes
          MutIn, MutRank,   \* "bad": base structures have <= MutIn inputs of rank <= MutRank
          TokIn, TokRank, TokR, TokMod,  \* "tok": base structures: <= TokIn inputs, rank <= TokRank, output rank
                                         \* <= TokR, and StructCode % TokMod = 0
          HisIn, HisRank, HisR,          \* "his": base structures: <= HisIn inputs, rank <= HisRank, output rank <= HisR
          HisLen, HisMod                 \* histories of <= HisLen operations for bases with StructCode % HisMod = 0,
                                         \* of <= HisLen - 1 operations for the other bases
VARIABLES case, out
vars == <<case, out>>

---------------------------------------------------------------------------
(* Naming.  inN/outN: array names by position, idx: the names of i, j, k, fresh: unused index      *)
(* names, newN: unused array names.  Scoped names, underscores, digits, non-alphabetical order.     *)
IdxPool == <<"i", "j", "k">>
Schemes == <<
   [inN |-> <<"a", "b", "c">>,          outN |-> <<"y", "z">>,        idx |-> <<"i", "j", "k">>,
    fresh |-> <<"l", "p">>,             newN |-> <<"n", "w.q">>],
   [inN |-> <<"s.a", "b", "t.c">>,      outN |-> <<"s.y", "z">>,      idx |-> <<"k", "i", "j">>,
    fresh |-> <<"a", "h">>,             newN |-> <<"s.n", "v">>],
   [inN |-> <<"x1", "foo.bar", "_u">>,  outN |-> <<"out.q", "r_2">>,  idx |-> <<"idx_1", "n", "m">>,
    fresh |-> <<"_", "ax2">>,           newN |-> <<"foo.baz", "x_1">>] >>

(* the lexicon: what the harness must confirm with str.isidentifier *)
Idents      == {"a", "b", "c", "y", "z", "i", "j", "k", "l", "p", "n", "h", "v", "m", "x1", "_u", "r_2", "idx_1",
                "_", "ax2", "x_1", "zz"}
ScopedNames == {"w.q", "s.a", "t.c", "s.y", "s.n", "foo.bar", "out.q", "foo.baz"}
BadArrayNames == {"1a", "a-b", "s.1x", "a.b.c"}        \* not (identifier or identifier.identifier)
BadIndexNames == {"1i", "i-j", "s.x"}                   \* not an identifier
Lex == Lexicon(Idents, ScopedNames)
ASSUME PrintT(<<"LEX", ToJson([idents |-> Idents, scoped |-> ScopedNames,
                               badarr |-> BadArrayNames, badidx |-> BadIndexNames])>>)
ASSUME MaxDim >= 3 /\ BigDim >= 3 /\ NShards >= 1 /\ Shard \in 0..(NShards - 1)

---------------------------------------------------------------------------
(* Structures *)
Pow4 == <<1, 4, 16>>
AxCode(a)    == IF a = COLON THEN 0 ELSE FirstPos(IdxPool, a)
AxesCode(ax) == Len(ax) * 64 + SeqSum([k \in DOMAIN ax |-> AxCode(ax[k]) * Pow4[k]])      \* injective
AxesOptions(R, maxrank) ==
    UNION {{ax \in [1..r -> {IdxPool[q] : q \in 1..R} \cup {COLON}] : SeqDistinct(SelectSeq(ax, LAMBDA v : v # COLON))}
           : r \in 1..maxrank}
InSeqs(R, n, maxrank) ==
    {s \in [1..n -> AxesOptions(R, maxrank)] :
        n >= SortFrom => \A p \in 1..(n - 1) : AxesCode(s[p]) <= AxesCode(s[p + 1])}
Structs(maxin, maxrank, maxR) ==
    UNION {UNION {{[R |-> R, ins |-> s] : s \in InSeqs(R, n, maxrank)} : n \in 0..maxin} : R \in 1..maxR}
AxesBound(n) == IF n >= BigIn THEN BigAxes ELSE MaxAxes
RankCap(n)   == IF AxesBound(n) - (n - 1) < 3 THEN AxesBound(n) - (n - 1) ELSE 3     \* every input has rank >= 1
AllStructs ==                      \* the structures of parts "sem" and "syn"
    UNION {UNION {{[R |-> R, ins |-> s] : s \in {t \in InSeqs(R, n, RankCap(n)) :
                        SeqSum([x \in DOMAIN t |-> Len(t[x])]) <= AxesBound(n)}}
                  : n \in 0..MaxIn} : R \in 1..3}
StructCode(s) == s.R + 3 * SeqSum([x \in DOMAIN s.ins |-> AxesCode(s.ins[x]) * (2 * x - 1)])
InShard(s)    == StructCode(s) % NShards = Shard
SchemeOf(s)   == ((StructCode(s) \div 7) % Len(Schemes)) + 1
NOutOf(s)     == ((StructCode(s) \div 5) % 2) + 1

NameAx(ax, sch) == [k \in DOMAIN ax |-> IF ax[k] = COLON THEN COLON ELSE sch.idx[FirstPos(IdxPool, ax[k])]]
Named(s, sch, no) ==
    MapSpec([x \in DOMAIN s.ins |-> ArraySpec(sch.inN[x], NameAx(s.ins[x], sch))],
            [o \in 1..no |-> ArraySpec(sch.outN[o], NameAx(SubSeq(IdxPool, 1, s.R), sch))])

---------------------------------------------------------------------------
(* Part "sem": shapes.  d gives a size to every output index (external or internal); ':' axes get  *)
(* sizes that vary with their position.  Consistent shapes for ALL d; for the one size assignment   *)
(* Ramp (sizes 1, 2, 3: pairwise different) additionally every single-shape mutation: one axis      *)
(* resized, one shape shortened / lengthened, the internal sizes shortened.                         *)
DimBound(s)         == IF Len(s.ins) >= BigIn THEN BigDim ELSE MaxDim
ColonSize(x, k, md) == ((x + k) % md) + 1
InShapes(s, d, md)  == [x \in DOMAIN s.ins |-> [k \in DOMAIN s.ins[x] |->
                           IF s.ins[x][k] = COLON THEN ColonSize(x, k, md) ELSE d[FirstPos(IdxPool, s.ins[x][k])]]]
UsedIdx(s)          == UNION {SeqElems(s.ins[x]) : x \in DOMAIN s.ins} \ {COLON}
InternalDims(s, d)  == LET ks == SelectSeq([k \in 1..s.R |-> k], LAMBDA k : IdxPool[k] \notin UsedIdx(s))
                       IN  [q \in DOMAIN ks |-> d[ks[q]]]
Ramp(s)             == [k \in 1..s.R |-> k]
NoMut               == [t |-> "none", x |-> 0, k |-> 0]
ShapeMuts(s, d) ==
    {NoMut} \cup
    (IF d # Ramp(s) THEN {}
     ELSE {[t |-> "resize", x |-> p[1], k |-> p[2]] :
              p \in {q \in (DOMAIN s.ins) \X (1..3) : q[2] <= Len(s.ins[q[1]])}}
          \cup {[t |-> "drop", x |-> x, k |-> 0] : x \in DOMAIN s.ins}
          \cup {[t |-> "grow", x |-> x, k |-> 0] : x \in DOMAIN s.ins}
          \* the shapes of two inputs exchanged (each array gets the other's): "the right shapes under the wrong names"
          \cup {[t |-> "exchange", x |-> p[1], k |-> p[2]] :
                   p \in {q \in (DOMAIN s.ins) \X (DOMAIN s.ins) :
                            q[1] < q[2] /\ InShapes(s, d, DimBound(s))[q[1]] # InShapes(s, d, DimBound(s))[q[2]]}}
          \cup (IF InternalDims(s, d) # <<>> THEN {[t |-> "intshort", x |-> 0, k |-> 0]} ELSE {}))
MutShapes(insh, mu, md) ==
    CASE mu.t = "resize" -> [insh EXCEPT ![mu.x][mu.k] = (@ % md) + 1]
      [] mu.t = "drop"   -> [insh EXCEPT ![mu.x] = SubSeq(@, 1, Len(@) - 1)]
      [] mu.t = "grow"   -> [insh EXCEPT ![mu.x] = Append(@, 2)]
      [] mu.t = "exchange" -> [insh EXCEPT ![mu.x] = insh[mu.k], ![mu.k] = insh[mu.x]]
      [] OTHER           -> insh
MutInternal(int, mu) == IF mu.t = "intshort" THEN SubSeq(int, 1, Len(int) - 1) ELSE int

SemCase(s, d, mu) ==
    [kind |-> "sem", mut |-> mu.t, sch |-> SchemeOf(s), ramp |-> d = Ramp(s),
     m |-> Named(s, Schemes[SchemeOf(s)], NOutOf(s)),
     insh |-> MutShapes(InShapes(s, d, DimBound(s)), mu, DimBound(s)),
     internal |-> MutInternal(InternalDims(s, d), mu)]
(* internal_shapes is passed when there is something to say (an internal axis, or sizes given) *)
WithInternal(c) == c.internal # <<>> \/ (\E k \in DOMAIN Mask(c.m) : ~Mask(c.m)[k])
(* out.calls: the arguments of shape() as mappings, in every insertion order (the first one in the    *)
(* order of the MapSpec); out.shape is the expected outcome of EVERY one of these calls.               *)
SemOut(c) ==
    LET sh    == Shape(c.m, c.insh, c.internal)
        calls == Presentations(c.m, c.insh, c.internal, WithInternal(c))
    IN  IF sh.ok
        THEN LET ext == ExtShape(sh)
                 N   == SeqProduct(ext)
             IN  [shape |-> sh, ext |-> ext, n |-> N, calls |-> calls,
                  okeys |-> [l \in 1..N |-> OutputKey(c.m, ext, l - 1)],       \* element l: linear index l-1
                  ikeys |-> [l \in 1..N |-> InputKeys(c.m, ext, l - 1)]]
        ELSE [shape |-> sh, ext |-> <<>>, n |-> 0, calls |-> calls, okeys |-> <<>>, ikeys |-> <<>>]
InitSem == \E s \in {x \in AllStructs : InShard(x)} :
             \E d \in [1..s.R -> 1..DimBound(s)] :
               \E mu \in ShapeMuts(s, d) :
                  /\ case = SemCase(s, d, mu)
                  /\ out = SemOut(case)

---------------------------------------------------------------------------
(* Part "syn": every structure under every naming scheme with 1 and 2 outputs. *)
RenameArgs(m, sch) ==
    LET first == IF m.ins # <<>> THEN m.ins[1].name ELSE m.outs[1].name
    IN  << <<<<first, sch.newN[1]>>>>,                                           \* one array (scoped / plain)
           <<<<first, sch.newN[2]>>>>,
           [o \in DOMAIN m.outs |-> <<m.outs[o].name, sch.newN[o]>>],          \* all outputs
           <<<<"zz", sch.newN[1]>>>> >>                                          \* a name that does not occur
        \o (IF m.ins # <<>> THEN << <<<<m.ins[1].name, m.outs[1].name>>, <<m.outs[1].name, m.ins[1].name>>>> >>
            ELSE <<>>)                                                          \* simultaneous swap
        \o (IF Len(m.ins) >= 2 THEN << <<<<m.ins[1].name, m.ins[2].name>>, <<m.ins[2].name, m.ins[1].name>>>> >>
            ELSE <<>>)
AddArgs(m, sch) ==
    << <<sch.fresh[1]>>, <<sch.fresh[1], sch.fresh[2]>>,      \* accepted
       <<OutAxes(m)[1]>>, <<sch.fresh[2], OutAxes(m)[Len(OutAxes(m))]>>,       \* clash with an existing index
       <<COLON>>, <<sch.fresh[1], COLON>>,                     \* ':' would reach the outputs
       <<"1i">> >>                                             \* not an identifier
(* the arrow-count mutants of str(m), each without whitespace and with whitespace in every position; *)
(* the chained "next step" is an array that does not occur in m                                      *)
ArrowCases(m, sch) ==
    LET sq == ArrowMutants(PrintMS(m), sch.newN[2])
    IN  [q \in DOMAIN sq |-> [t |-> sq[q].t, toks |-> sq[q].toks, gaps |-> Spread(sq[q].toks),
                               arrows |-> ArrowCount(sq[q].toks)]]
SynOut(m, sch) ==
    [toks |-> PrintMS(m), gaps |-> Spread(PrintMS(m)),
     arrows |-> ArrowCases(m, sch),
     ren  |-> [q \in DOMAIN RenameArgs(m, sch) |->
                 [r |-> RenameArgs(m, sch)[q], ms |-> Rename(m, RenameArgs(m, sch)[q])]],
     add  |-> [q \in DOMAIN AddArgs(m, sch) |->
                 LET axs == AddArgs(m, sch)[q]
                     ok  == AddAxesAccepted(m, axs, Lex)
                 IN  [axs |-> axs, ok |-> ok, ms |-> IF ok THEN AddAxes(m, axs) ELSE NoMapSpec]]]
InitSyn == \E s \in {x \in AllStructs : InShard(x)} :
             \E q \in DOMAIN Schemes : \E no \in 1..2 :
                /\ case = [kind |-> "syn", sch |-> q, m |-> Named(s, Schemes[q], no)]
                /\ out = SynOut(case.m, Schemes[q])

---------------------------------------------------------------------------
(* Part "bad": mutation operators on the AST, one per documented rejection. *)
SetAxis(a, k, v) == ArraySpec(a.name, [a.axes EXCEPT ![k] = v])
SetAxes(a, ax)   == ArraySpec(a.name, ax)
SetIn(m, x, a)   == MapSpec([m.ins EXCEPT ![x] = a], m.outs)
SetOut(m, o, a)  == MapSpec(m.ins, [m.outs EXCEPT ![o] = a])
SwapFirstTwo(ax) == [ax EXCEPT ![1] = ax[2], ![2] = ax[1]]
ReplaceIndex(m, old, new) ==
    LET R(a) == ArraySpec(a.name, [k \in DOMAIN a.axes |-> IF a.axes[k] = old THEN new ELSE a.axes[k]])
    IN  MapSpec([x \in DOMAIN m.ins |-> R(m.ins[x])], [o \in DOMAIN m.outs |-> R(m.outs[o])])
AstMuts(m, sch) ==
    {[t |-> "unused_index", m |-> SetIn(m, mu[1], SetAxis(m.ins[mu[1]], mu[2], sch.fresh[1]))] :
        mu \in {p \in (DOMAIN m.ins) \X (1..3) : p[2] <= Rank(m.ins[p[1]])}}
    \cup {[t |-> "colon_out", m |-> SetOut(m, mu[1], SetAxis(m.outs[mu[1]], mu[2], COLON))] :
        mu \in {p \in (DOMAIN m.outs) \X (1..3) : p[2] <= Rank(m.outs[p[1]])}}
    \cup {[t |-> "colon_extra_axis", m |-> SetOut(m, mu[1], SetAxes(m.outs[mu[1]],
                                                  SubSeq(m.outs[mu[1]].axes, 1, mu[2] - 1) \o <<COLON>>
                                                  \o SubSeq(m.outs[mu[1]].axes, mu[2], Rank(m.outs[mu[1]]))))] :
        mu \in {p \in (DOMAIN m.outs) \X (1..4) : p[2] <= Rank(m.outs[p[1]]) + 1}}     \* y[i], z[i, :]
    \cup (IF Len(m.outs) < 2 THEN {}
          ELSE UNION {
            (IF Rank(m.outs[o]) >= 2
             THEN {[t |-> "out_drop_axis", m |-> SetOut(m, o, SetAxes(m.outs[o], SubSeq(m.outs[o].axes, 1, Rank(m.outs[o]) - 1)))],
                   [t |-> "out_swap_axes", m |-> SetOut(m, o, SetAxes(m.outs[o], SwapFirstTwo(m.outs[o].axes)))]}
             ELSE {})
            \cup {[t |-> "out_extra_axis", m |-> SetOut(m, o, SetAxes(m.outs[o], Append(m.outs[o].axes, sch.fresh[1])))],
                  [t |-> "out_other_index", m |-> SetOut(m, o, SetAxis(m.outs[o], 1, sch.fresh[1]))]}
            : o \in 1..2})
    \cup {[t |-> "bad_array_name", m |-> Rename(m, <<<<AllNames(m)[q], b>>>>)] :
              q \in DOMAIN AllNames(m), b \in BadArrayNames}
    \cup {[t |-> "bad_index_name", m |-> ReplaceIndex(m, OutAxes(m)[q], b)] : q \in DOMAIN OutAxes(m), b \in BadIndexNames}
    \cup {[t |-> "no_output", m |-> MapSpec(m.ins, <<>>)]}
BadOut(m) ==
    LET printable == Len(m.outs) >= 1
    IN  [why |-> Violations(m, Lex), regular |-> Regular(m), printable |-> printable,
         toks |-> IF printable THEN PrintMS(m) ELSE <<>>,
         ingrammar |-> printable /\ ParseMS(PrintMS(m), Lex).ok]
InitBad == \E s \in {x \in Structs(MutIn, MutRank, 3) : InShard(x)} : \E no \in 1..2 :
             \E mu \in AstMuts(Named(s, Schemes[SchemeOf(s)], no), Schemes[SchemeOf(s)]) :
                /\ case = [kind |-> "bad", mut |-> mu.t, m |-> mu.m]
                /\ out = BadOut(case.m)

---------------------------------------------------------------------------
(* Part "tok": mutation operators on the (whitespace-free) token sequence of a printed MapSpec.     *)
(* ParseMS decides whether the result is a sentence; the harness renders it by concatenation.       *)
ReplTokens == {"[", "]", ",", COLON, "->", "b"}
InsTokens  == {"->", ",", "..."}
Remove(t, i)    == SubSeq(t, 1, i - 1) \o SubSeq(t, i + 1, Len(t))
Insert(t, i, x) == SubSeq(t, 1, i - 1) \o <<x>> \o SubSeq(t, i, Len(t))          \* x becomes element i
TokMuts(t) ==
    {[t |-> "delete", toks |-> Remove(t, i)] : i \in DOMAIN t}
    \cup {[t |-> "duplicate", toks |-> Insert(t, i, t[i])] : i \in DOMAIN t}
    \cup {[t |-> "swap", toks |-> [t EXCEPT ![i] = t[i + 1], ![i + 1] = t[i]]] : i \in 1..(Len(t) - 1)}
    \cup {[t |-> "replace", toks |-> [t EXCEPT ![mu[1]] = mu[2]]] :
              mu \in {p \in (DOMAIN t) \X ReplTokens : t[p[1]] # p[2]}}
    \cup {[t |-> "insert", toks |-> Insert(t, mu[1], mu[2])] : mu \in (1..(Len(t) + 1)) \X InsTokens}
    \cup {[t |-> "ws", toks |-> Insert(t, i, WS)] : i \in 1..(Len(t) + 1)}      \* tolerated or `a [i]`
    \cup {[t |-> "extra_axis", toks |-> SubSeq(t, 1, mu[1] - 1) \o <<",", mu[2]>> \o SubSeq(t, mu[1], Len(t))] :
              mu \in {p \in (DOMAIN t) \X {COLON, "b"} : t[p[1]] = "]"}}         \* a[i] -> a[i,:] / a[i,b]
TokOut(toks) ==
    LET p == ParseMS(toks, Lex)
    IN  [ok |-> p.ok, ms |-> p.ms,
         must_reject |-> TextMustReject(toks), arrows |-> ArrowCount(toks),     \* not even leniently acceptable
         why |-> IF p.ok THEN Violations(p.ms, Lex) ELSE {},
         regular |-> p.ok /\ Regular(p.ms)]
InitTok == \E s \in {x \in Structs(TokIn, TokRank, TokR) : InShard(x) /\ StructCode(x) % TokMod = 0} :
             \E no \in 1..2 :
               \E mu \in TokMuts(Squeeze(PrintMS(Named(s, Schemes[SchemeOf(s)], no)))) :
                  /\ case = [kind |-> "tok", mut |-> mu.t, toks |-> mu.toks]
                  /\ out = TokOut(case.toks)

---------------------------------------------------------------------------
(* Part "his": histories (mechanism B).  A state is a history: case.ops the operations so far,      *)
(* out.objs the objects so far - the base object and one per deriving operation, each with its       *)
(* expected observation.  HisNext appends one enabled operation; every reachable state is exported   *)
(* (a history and all its prefixes), so the harness realises every order of use / derive up to the    *)
(* length bound on real objects: it performs the operations one after the other on the CURRENT (last  *)
(* derived) object, compares what "attr" / "keys" return on the way, and at the end observes EVERY     *)
(* object of the history completely.  The index sizes 2, 3, 4 are pairwise different and > 1.          *)
HisSizes(s)  == [k \in 1..s.R |-> k + 1]
HisScheme(c) == Schemes[c.sch]
HisBase(s)   == Obj(Named(s, Schemes[SchemeOf(s)], NOutOf(s)), InShapes(s, HisSizes(s), 3), InternalDims(s, HisSizes(s)))
HisObj(o)    == [m |-> o.m, insh |-> o.insh, internal |-> o.internal, obs |-> Observe(o)]
HisFresh(o, sch) == SelectSeq(sch.fresh, LAMBDA f : ~AddAxesClash(o.m, <<f>>))      \* index names not yet in use
HisRenames(m, sch) == LET ra == RenameArgs(m, sch)                 \* one array to a new (scoped / plain) name, and
                      IN  {ra[1]} \cup (IF m.ins # <<>> THEN {ra[5]} ELSE {})   \* the in/out swap
HisOps(o, sch) ==
    {OpAttr, OpKeys, OpReparse}
    \cup (LET fr == HisFresh(o, sch)                                    \* one new axis / two new axes at once
          IN  (IF Len(fr) >= 1 THEN {OpAdd(<<fr[1]>>, <<LawDim>>)} ELSE {})
              \cup (IF Len(fr) >= 2 THEN {OpAdd(<<fr[2], fr[1]>>, <<LawDim + 1, LawDim>>)} ELSE {}))
    \cup {OpRen(r) : r \in {x \in HisRenames(o.m, sch) : Rename(o.m, x) # o.m}}
HisBound(c) == IF c.code % HisMod = 0 THEN HisLen ELSE HisLen - 1
InitHis == \E s \in {x \in Structs(HisIn, HisRank, HisR) : InShard(x)} :
              /\ case = [kind |-> "his", sch |-> SchemeOf(s), code |-> StructCode(s), ops |-> <<>>]
              /\ out = [objs |-> <<HisObj(HisBase(s))>>]
HisNext ==
    /\ case.kind = "his" /\ Len(case.ops) < HisBound(case)
    /\ LET cur == out.objs[Len(out.objs)]
           o   == Obj(cur.m, cur.insh, cur.internal)
       IN  \E op \in {x \in HisOps(o, HisScheme(case)) : OpEnabled(o, x, Lex)} :
              \* the same operation twice in a row tells nothing new (use, use / reparse, reparse)
              /\ ~(case.ops # <<>> /\ case.ops[Len(case.ops)] = op)
              /\ case' = [case EXCEPT !.ops = Append(@, op)]
              /\ out' = IF Derives(op) THEN [objs |-> Append(out.objs, HisObj(StepObj(o, op, Lex)))] ELSE out

---------------------------------------------------------------------------
(* Part "acc": what the real code returned where the spec leaves the outcome open.  One JSON line   *)
(* per returned MapSpec: {id, ms, idents, scoped} (lexical classes of ITS names, from the harness).  *)
AccFile == IF Part = "acc" THEN ndJsonDeserialize(IOEnv.ACC_FILE) ELSE <<>>
InitAcc == \E i \in DOMAIN AccFile :
              /\ case = [kind |-> "acc", id |-> AccFile[i].id]
              /\ out = [why |-> Violations(AccFile[i].ms,
                                           Lexicon(SeqElems(AccFile[i].idents), SeqElems(AccFile[i].scoped)))]

---------------------------------------------------------------------------
(* Part "rec": one JSON line per recorded MapSpec: {id, ms, idents, scoped, insh, internal, pin,     *)
(* pint, built, shape_ok, shape, mask, obs: [{l, okey, ikeys}]}: what the constructor, shape(),       *)
(* output_key(), input_keys() did (built / shape_ok = FALSE: raised; a key <<-2>>: raised).  pin /     *)
(* pint are the mappings shape() was called with, entry by entry in the (seeded random) insertion      *)
(* order of the dicts; the verdict on shape() is ShapeNamed of exactly these.  out names the           *)
(* observations the spec rejects.                                                                     *)
RecFile == IF Part = "rec" THEN ndJsonDeserialize(IOEnv.ACC_FILE) ELSE <<>>
RecVerdict(r) ==
    LET L  == Lexicon(SeqElems(r.idents), SeqElems(r.scoped))
        sh == ShapeNamed(r.ms, r.pin, r.pint)
    IN  IF ~(WellFormed(r.ms, L) /\ Regular(r.ms)) THEN {"generator: not a regular well-formed MapSpec"}
        ELSE IF ~(/\ Presents(r.pin, InputNames(r.ms)) /\ Presents(r.pint, OutputNames(r.ms))
                  /\ ByPosition(InputNames(r.ms), r.pin) = r.insh
                  /\ \A q \in DOMAIN r.pint : r.pint[q].shape = r.internal)
             THEN {"generator: the recorded mappings do not present insh / internal"}
        ELSE IF ~r.built THEN {"__init__: a well-formed MapSpec was refused"}
        ELSE (IF sh.ok # r.shape_ok THEN {"shape: raised / returned"} ELSE {})
             \cup (IF sh.ok /\ r.shape_ok /\ (sh.shape # r.shape \/ sh.mask # r.mask) THEN {"shape: value"} ELSE {})
             \cup (IF sh.ok /\ \E q \in DOMAIN r.obs : OutputKey(r.ms, ExtShape(sh), r.obs[q].l) # r.obs[q].okey
                   THEN {"output_key"} ELSE {})
             \cup (IF sh.ok /\ \E q \in DOMAIN r.obs : InputKeys(r.ms, ExtShape(sh), r.obs[q].l) # r.obs[q].ikeys
                   THEN {"input_keys"} ELSE {})
InitRec == \E i \in DOMAIN RecFile :
              /\ case = [kind |-> "rec", id |-> RecFile[i].id]
              /\ out = [why |-> RecVerdict(RecFile[i])]

---------------------------------------------------------------------------
Init == \/ Part = "sem" /\ InitSem
        \/ Part = "syn" /\ InitSyn
        \/ Part = "bad" /\ InitBad
        \/ Part = "tok" /\ InitTok
        \/ Part = "his" /\ InitHis
        \/ Part = "acc" /\ InitAcc
        \/ Part = "rec" /\ InitRec
Next == Part = "his" /\ HisNext       \* all other parts: every case is an initial state (deadlock checking is off)
Spec == Init /\ [][Next]_vars

(* the laws, per case *)
IsSem == case.kind = "sem"
IsSyn == case.kind = "syn"
InvUniverse ==                     \* the generators produce what they claim
    /\ (IsSem \/ IsSyn) => WellFormed(case.m, Lex) /\ Regular(case.m)
    /\ case.kind = "bad" => /\ out.why # {}
                            /\ out.ingrammar <=> (out.printable /\ out.why \cap {"bad_array_name", "bad_index_name"} = {})
                            /\ out.ingrammar => ParseMS(out.toks, Lex).ms = case.m
    /\ case.kind = "tok" => (out.ok => LawRoundTrip(out.ms, Lex))          \* ParseMS, PrintMS are inverse
    /\ IsSyn => /\ Len(out.arrows) >= 7                                    \* every arrow mutant is one
                /\ \A q \in DOMAIN out.arrows : TextMustReject(out.arrows[q].toks)
InvRoundTrip   == IsSyn => LawRoundTrip(case.m, Lex)
InvWhitespace  == IsSyn => LawWhitespace(case.m, Lex)
InvRename      == IsSyn => \A q \in DOMAIN out.ren : LawRename(case.m, out.ren[q].r, Lex)
InvAddAxes     == IsSyn => \A q \in DOMAIN out.add : /\ LawAddAxes(case.m, out.add[q].axs, Lex)
                                                      /\ out.add[q].ok => Regular(out.add[q].ms)
InvArrow       == /\ IsSyn => \A q \in DOMAIN out.arrows : LawArrow(out.arrows[q].toks, Lex)
                  /\ case.kind = "tok" => LawArrow(case.toks, Lex) /\ (out.must_reject => ~out.ok)
(* a history: the objects are what the steps give, and every step obeys LawStep (the last one is     *)
(* checked here; the earlier ones in the prefix states)                                              *)
IsHis == case.kind = "his"
HisObjAt(k) == Obj(out.objs[k].m, out.objs[k].insh, out.objs[k].internal)
InvHistory ==
    IsHis => /\ Len(out.objs) = 1 + Cardinality({q \in DOMAIN case.ops : Derives(case.ops[q])})
             /\ \A k \in DOMAIN out.objs : /\ WellFormed(out.objs[k].m, Lex) /\ Regular(out.objs[k].m)
                                           /\ out.objs[k].obs.shape.ok
             /\ case.ops # <<>> =>
                   LET op   == case.ops[Len(case.ops)]
                       prev == HisObjAt(IF Derives(op) THEN Len(out.objs) - 1 ELSE Len(out.objs))
                   IN  /\ OpEnabled(prev, op, Lex) /\ LawStep(prev, op, Lex)
                       /\ HisObjAt(Len(out.objs)) = StepObj(prev, op, Lex)
InvShape       == IsSem => LawShape(case.m, case.insh, case.internal)
InvShapeByName == IsSem => /\ LawShapeByName(case.m, case.insh, case.internal, WithInternal(case))
                           /\ out.calls = Presentations(case.m, case.insh, case.internal, WithInternal(case))
                           /\ \A q \in DOMAIN out.calls :
                                 ShapeNamed(case.m, out.calls[q].pin, out.calls[q].pint) = out.shape
InvOutputKey   == (IsSem /\ out.shape.ok) => LawOutputKeyBijection(case.m, out.ext)
InvInputKeys   == (IsSem /\ out.shape.ok) => LawInputKeysSelect(case.m, case.insh, out.ext)
InvRenameDenotes == (IsSem /\ case.ramp /\ case.mut = "none") =>
    \A q \in DOMAIN RenameArgs(case.m, Schemes[case.sch]) :
        LawRenameDenotes(case.m, RenameArgs(case.m, Schemes[case.sch])[q], case.insh, case.internal)
InvAddAxesDenotes == (IsSem /\ case.ramp /\ case.mut = "none") =>
    LawAddAxesDenotes(case.m, <<Schemes[case.sch].fresh[1]>>, case.insh, case.internal, <<LawDim>>)

Emit == PrintT(<<"CASE", ToJson([c |-> case, o |-> out])>>)
=============================================================================
