#!/bin/bash
# tools/run_seeded.sh <dir with patch.diff [demo.py]> <PROP> [tier]   -- run a check against a seeded change.
# The change is applied in a scratch worktree of /repo (never in /repo itself); evidence/replay go to a scratch dir.
set -u
dir=$(cd "$1" && pwd); prop=$2; tier=${3:-quick}
wt=$(mktemp -d /tmp/pfverif_mut.XXXXXX); rmdir "$wt"
git -C /repo worktree add -q --detach "$wt" HEAD || exit 2
trap 'git -C /repo worktree remove --force "$wt" >/dev/null 2>&1; rm -rf "$out"' EXIT
out=$(mktemp -d /tmp/pfverif_mutout.XXXXXX)
if ! git -C "$wt" apply "$dir/patch.diff" 2>/dev/null && ! git -C "$wt" apply --3way "$dir/patch.diff" 2>/dev/null; then echo "PATCH DOES NOT APPLY"; exit 2; fi
if [ -f "$dir/demo.py" ]; then
  (cd "$wt" && PYTHONPATH=/verif/harness/shim:"$wt" timeout 300 /venv/bin/python "$dir/demo.py" >/dev/null 2>&1); echo "demo exit with change: $?"
fi
cd /verif
VERIF_REPO="$wt" VERIF_EVIDENCE_DIR="$out" VERIF_REPLAY_DIR="$out" ./check "$prop" --tier "$tier" > "$out/log" 2>&1
rc=$?
# the change must still be in place (a scratch worktree that vanished would silently mean "checked /repo")
if [ ! -d "$wt/pipefunc" ] || git -C "$wt" diff --quiet HEAD; then echo "SCRATCH WORKTREE LOST ITS CHANGE"; rc=2; fi
echo "check $prop ($tier) exit: $rc"
grep -m3 -A2 "^VIOLATION\|^MACHINERY" "$out/log" | cut -c1-400
tail -1 "$out/log" | cut -c1-300
exit $rc
