#!/usr/bin/env python3
"""Heuristic lint for one TLA+ pitfall that made a clause of TraceMapRun.TRaise vacuous for a while:

    A == X /\\ Y
         /\\ \\A k \\in S : P(k)
         /\\ Q                      <- NOT a bulleted list (the first conjunct is inline): Q is inside the quantifier

Prints every bullet line that starts with a quantifier, is followed by another bullet in the same column, and whose list
does not start with a bullet of its own.  No output = nothing suspicious."""
import glob
import re
import sys

STARTERS = ('==', '=>', 'IN', ':', 'THEN', 'ELSE', '(', '->', '\\/', '/\\', '<=>', '[]', '~', '=', ',', '[', '{', '|->')


def strip_comment(l: str) -> str:
    l = re.sub(r'\(\*.*?\*\)', lambda m: ' ' * len(m.group(0)), l)
    return re.sub(r'\\\*.*$', '', l).rstrip()


bad = 0
for f in sorted(glob.glob(sys.argv[1] if len(sys.argv) > 1 else '/verif/spec/*.tla')):
    raw = open(f).read().split('\n')
    lines = [strip_comment(l) for l in raw]
    defstart = 0
    for i, l in enumerate(lines):
        if re.match(r'^(\w[\w!]*)(\([^)]*\))?\s*==', l):
            defstart = i
        m = re.match(r'^(\s*)(/\\|\\/)\s*(\\A|\\E)\s', l)
        if not m:
            continue
        col = len(m.group(1))
        first, k = i, i - 1
        while k > defstart:
            if lines[k].strip():
                mk = re.match(r'^(\s*)(/\\|\\/)', lines[k])
                ind = len(lines[k]) - len(lines[k].lstrip())
                if mk and len(mk.group(1)) == col:
                    first = k
                elif ind <= col:
                    break
            k -= 1
        p = first - 1
        while p >= 0 and not lines[p].strip():
            p -= 1
        prev = lines[p]
        proper = prev.rstrip().endswith(STARTERS) or prev[col:col + 2] in ('/\\', '\\/')
        follows, q = False, i + 1
        while q < len(lines) and not re.match(r'^(\w[\w!]*)(\([^)]*\))?\s*==', lines[q]):
            if lines[q].strip():
                mq = re.match(r'^(\s*)(/\\|\\/)', lines[q])
                ind = len(lines[q]) - len(lines[q].lstrip())
                if mq and len(mq.group(1)) == col:
                    follows = True
                    break
                if ind < col:
                    break
            q += 1
        if not proper and follows:
            bad += 1
            print(f"{f}:{i + 1}: {raw[i].strip()[:100]}")
sys.exit(1 if bad else 0)
