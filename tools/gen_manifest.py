#!/usr/bin/env python3
"""Regenerate MANIFEST.json from the table below (single source of truth for what is claimed)."""
import json, subprocess, sys
from pathlib import Path
ROOT = Path(__file__).resolve().parents[1]
ALL = [f"C{i:02d}" for i in range(1, 21)]

CLAIMED = {
 "C14": dict(
   category="model_checking", design_ref="6 C14",
   text="TLC checks the replacement-policy model (spec/Cache.tla) over every mutator sequence up to a depth on 3 keys for "
        "LRU/Hybrid/Simple/Disk(+LRU front, reopen) and exports those sequences; every sequence plus random longer histories "
        "is executed on the real classes (shared and non-shared) and every recorded history is validated by TLC against the "
        "same operators (TraceCache.tla): result and all non-perturbing observations after every operation.",
   note="Trusted: TLC, JSON trace encoding, the ~100-line driver that calls the public cache API. Disk ctimes are spaced by the "
        "harness. Multi-process interleavings are explored only at lock granularity (CacheConc part)."
        " None (NoneV) is among the stored values; so is a value that cannot be serialised (putbad: refused as a no-op or kept by reference), and a directory cleared by another DiskCache object (wipe).",
   technique="TLA+ model (Cache.tla) checked by TLC; TLC-exported op sequences replayed on the real classes; recorded "
             "histories validated by TLC trace spec"),
 "C02": dict(
   category="model_checking", design_ref="6 C02",
   text="TLC checks the laws of the static call semantics (PipelineStatic.tla: Eval, Needed, argument sources, cuts; order "
        "independence, closure, definedness) on every description of a TLA+-defined universe and explores every behaviour of "
        "the call state machine (PipelineCall.tla) with deadlock checking; every description is built as a real Pipeline in "
        "every listing order and called with every valid cut (pipeline(), run, func, full_output) plus surplus/missing "
        "variants; arg_combinations must list only valid cuts; all recorded histories (begin/call/return/raise events with "
        "arguments and values) plus random DAGs up to 6 functions are validated by TLC (TracePipelineCall.tla).",
   note="Trusted: TLC, the term encoding, build.py (description -> PipeFunc). Keywords shadowed by a bound value are a stated "
        "don't-care."
        " Random DAGs also carry defaults on produced parameters, custom output_pickers and post_execution_hooks (TracePipelineCall.THook: the hook fires once per execution with the function's own result and kwargs). Growth beyond the property: derived views under mutation (PipelineViews / TracePipelineViews).",
   technique="TLA+ spec of call semantics checked by TLC; universe export + replay into Pipeline; TLC trace validation"),
 "C01": dict(
   category="model_checking", design_ref="6 C01",
   text="The MapSpec denotation is written in TLA+ (MapDenote.tla); TLC checks its laws (valid, shape product rule, every "
        "position filled by a distinct element, invocation count = external index space) on every member of a TLA+-defined "
        "universe of mapped pipelines (axis arrangements incl. ':'/zip/outer product, every output axis order, internal axis "
        "at every position, tuple outputs, generators, consumers, all axis sizes) and exports it; every case and seeded "
        "random pipelines (1-4 functions, rank<=3) are run through the real Pipeline.map on dict/file/shared-memory storage "
        "with list and ndarray inputs; TLC validates each recorded run against MapRun/MapDenote (TraceMapRun): the sliced "
        "kwargs of every invocation, exactly-once, inputs-complete, Result.output and load_outputs equal to the denotation.",
   note="Trusted: TLC, term/JSON encoding, build.py, pmap.py. Values are opaque terms (no dtype coercion). zarr absent. "
        "Bounds: rank<=3, sizes<=3 (universe sizes<=2)."
        " Internal shapes are supplied three ways (declared, passed to map, a wrong declaration overridden by map); some multi-output functions return a mapping picked by a custom output_picker.",
   technique="TLA+ denotation + run state machine; TLC universe export; TLC trace validation of real map runs"),
 "C03": dict(
   category="model_checking", design_ref="6 C03",
   text="TLC explores every interleaving of task start/completion (MC_MapRun over MapRun.tla) for 5-10 scenarios with up to "
        "MaxConc concurrent tasks, checking ExactlyOnce, InputsComplete, DoneStored, and prints every complete behaviour as "
        "a schedule script; a controllable Executor (gated threads) passed as executor= realises each script on the real "
        "code for dict/file/shared-memory and per-output storage mixes via map and map_async; the recorded order must equal "
        "the script and TLC validates each recorded run (results and reloaded outputs equal the denotation). Real thread and "
        "process pools (incl. per-output executors) with seeded delays are sampled and validated the same way.",
   note="Exact schedule control only for the thread-based controllable executor; real pools are sampled; SLURM executors "
        "not exercised. Events are ordered by the gate lock / an O_APPEND log, never by wall clock."
        " Partial-run (fixed_indices) + resume histories also go through real thread/process pools on every storage.",
   technique="TLC-enumerated schedules replayed through a controllable executor; TLC trace validation"),
 "C15": dict(
   category="model_checking", design_ref="6 C15",
   text="HashKey.tla defines abstract Python values, the equality oracle Eq and a branch-by-branch transcription of the key "
        "scheme (pickle fallback = uninterpreted injective constructor); TLC checks on a TLA+-defined universe of look-alike "
        "values (depth<=1 quick, <=2 thorough) that Eq is an equivalence and that the scheme is total, sound and complete "
        "(key equal iff Eq, up to a stated don't-care class) and exports the expected equality pattern; two child interpreters "
        "with different PYTHONHASHSEED materialise every value, compute to_hashable, hashability, canonical key serialisation "
        "and compare every ordered pair; memoize, cached pipeline calls and cached map are driven with the same pairs.",
   note="Trusted: TLC, the abstract->Python value encoder, Python's own ==. Don't-cares: numerically equal scalars of "
        "different numeric type, array typecode / deque.maxlen / default_factory, pickle-fallback objects with differing "
        "pickles, pickle bytes of as-is frozensets."
        " Also: memoize call keys (Call values, binding rules, MemoTotal/MemoSound/MemoComplete; universe closed under packing f(t, d) / f(*t, **d))."
        " Also: the representation of pandas labels (RangeIndex vs materialised) as an encoder attribute that Eq ignores."
        " Counters are signed multisets (zero counts: a don't-care of ==; negative counts: content).",
   technique="TLA+ value/key model checked by TLC; universe export; pairwise conformance in two interpreters"),
 "C05": dict(
   category="model_checking", design_ref="6 C05",
   text="(1) MapCrash.tla, an fs-level model of run / process death / resume with switches for the write protocol: TLC shows "
        "the original open-then-write protocol violates ResumeOK and that temp-file+rename with run_info written last "
        "satisfies ResumeOK, NoPartialServed, NoRecompute and liveness Terminates for <=2 crashes. (2) The raw-IO operation "
        "trace of a real uninterrupted run (fs interposer at write(2) granularity) is validated by TLC against that protocol "
        "(TraceFsProtocol). (3) For EVERY operation index of that trace (plus a torn variant of every raw write), for user "
        "raises at every call index and for sampled double crashes, forked children run/die/resume; the whole history "
        "(run, interrupt with what is completely stored, resumed run with results) is validated by TLC against MapRun: "
        "resumed results equal the denotation and nothing completely stored is recomputed.",
   note="Crash = death of the sequential process between OS-level operations (short writes included); no fsync/reordering. "
        "Stored = unpicklable file, observed independently of pipefunc. Process-pool runs are not crashed."
        " Resumed runs also go through real thread/process pools; forked children run in their own process group (stragglers are killed)."
        " (4) StoreRace.tla: N concurrent stores of ONE path (a left-over pool task of the interrupted run and the resumed run): TLC shows a shared temporary name violates NoStoreFails / FinalNeverTorn and a private one satisfies them; every schedule exported by MC_StoreRace is driven through the real dump() / FileArray.dump (the stored value blocks inside its own pickling) and validated by TraceStoreRace. Single results that are themselves tuples are part of the histories.",
   technique="TLA+ crash model checked by TLC; fs-trace validation; exhaustive crash-point replay validated by TLC"),
 "C08": dict(
   category="model_checking", design_ref="6 C08",
   text="MapSpecSem.tla: MapSpec AST, WellFormed, token-level Print/Parse, Shape, OutputKey, InputKeys, Rename, AddAxes and "
        "their laws (round trip, row-major bijection, input keys select exactly the named positions, product rule, "
        "rename/add_axes preserve well-formedness and denote the renamed/extended mapping); TLC checks the laws over a "
        "TLA+-defined universe (<=2-3 inputs, <=2 outputs, rank<=3, ':' axes, scoped names, sizes 1..3/4, all linear indices, "
        "mutation-generated malformed ASTs and token sequences) and exports expected values; every case is executed against "
        "the real pipefunc.map.MapSpec (from_string/str/shape/output_key/input_keys/rename/add_axes/rejections) and compared; "
        "returned ASTs for open outcomes are judged by TLC.",
   note="Trusted: TLC, the token renderer (tokens -> string with whitespace). Don't-cares: duplicate array names, repeated "
        "index inside one array, rank-0 arrays, text outside the grammar (rejected or accepted as well-formed)."
        " Also: MapSpec objects over histories of operations (LawStep: answers independent of earlier calls on the object or its ancestor) and arrow-count mutants (LawArrow)."
        " shape() is judged as called with MAPPINGS: every insertion order of the input / internal shape dicts (ShapeNamed, LawShapeByName).",
   technique="TLA+ MapSpec semantics with laws checked by TLC; universe export compared against MapSpec"),
 "C04": dict(
   category="model_checking", design_ref="6 C04",
   text="A map run happens in a child process (its manager processes die with it); the same process reloads twice, a fresh "
        "process reloads twice (thorough: also a brand-new interpreter): load_outputs for every output and RunInfo.load "
        "(inputs, defaults, shapes, shape masks, MapSpec strings, per-output storage map). TLC validates every history "
        "against MapRun + the TLoad action (TraceMapRun.tla): loaded outputs = MapDenote, inputs/defaults = given, shapes = "
        "product rule, masks = external/internal split of the MapSpec, storage map and MapSpec strings round-trip. Cases: "
        "MC_MapRun scenarios x file/dict/shared-memory storage, uniform and per-output mixes, plus a slice of the "
        "MC_MapDenote universe.",
   note="Serialisation fidelity of arbitrary user objects is cloudpickle's business; values are terms. load_xarray_dataset is "
        "covered by C19."
        " Also: the map_async entry (incl. cleanup=False into a new folder) and sessions (parts, resume through pools) before the reloads.",
   technique="TLC trace validation of run + reload histories recorded across processes"),
 "C16": dict(
   category="model_checking", design_ref="6 C16",
   text="TypeCompat.tla: annotation grammar, reference relation Sub by structural rules with an explicit don't-care set "
        "(source TypeVar, bare generic source, int->float), laws (reflexivity, Any top, union intro/elim, covariance, "
        "transitivity off the don't-care set) as TLC invariants over all annotations of depth<=1 (quick) / <=2 (thorough) and "
        "all ordered pairs; edge rule for pipelines (direct / element-wise / reduction with Array wrapping, generated "
        "MapSpecs and internal shapes unchecked). Exported verdicts are compared with is_type_compatible on annotation "
        "objects obtained from real function signatures, and exported 2-3 node pipelines are constructed for real "
        "(TypeError vs success, validate_type_annotations on/off). 70 literal triples of tests/test_typing.py calibrate the "
        "reference (disagreement = exit 2).",
   note="Trusted: TLC, the annotation materialiser (exec'd signatures). Forward references, numpy dtypes and user generics "
        "are outside the grammar."
        " Also: consumers with several array inputs (NetEdges, LawViaLocal, LawEdgewise; 43 sibling shapes)."
        " Also: other ways a parameter gets its value (signature / PipeFunc default / bound): LawDefaultKeepsEdges, LawBoundCutsOwnEdge."
        " Annotated metadata of every kind (hashable or not) is silent (LawMetadataSilent*); every third pipeline is built by add() one function at a time.",
   technique="TLA+ subtype relation checked by TLC; universe export compared against is_type_compatible and Pipeline()"),
 "C20": dict(
   category="model_checking", design_ref="6 C20",
   text="Resources.tla: records over integer quantities, memory as mantissa x unit with overflow-free comparison, wall time "
        "as a field sequence with Seconds, Valid, CombineMax, WithDefaults, Update, Dict/FromDict, SlurmMentions and the "
        "laws (CombineMax >= every operand per quantity, WithDefaults keeps set quantities, round trip); side-effect freedom "
        "as a history property over an object store (every combinator creates a new id, existing ones UNCHANGED). TLC checks "
        "the laws over TLA+-defined universes and exports cases; the real Resources API is run on every case with a deep "
        "snapshot comparison of every operand; recorded histories are validated by TLC (TraceResources.tla).",
   note="Don't-cares: with_defaults across exclusive fields may raise, extra_args/parallelization_mode merging, ties between "
        "equal sizes/durations, combine_max result fields the property does not name."
        " Also: explicit wall-time field weights and a format-free ordering law over time strings around the day boundaries (TimeXAdequate checked by TLC)."
        " to_slurm_options is judged as a token sequence (RequiredTokens, LawSlurmNoMerge) incl. extra_args keys that spell a real flag; observation op `slurm` in the object histories.",
   technique="TLA+ resource algebra checked by TLC; universe export + history trace validation"),
 "C06": dict(
   category="model_checking", design_ref="6 C06",
   text="MapFixed.tla specifies the selection of a raw fixed_indices key (CPython slice semantics, negative ints) and "
        "ValidFixed (unknown axis, reduced axis, out-of-range int); TLC enumerates per scenario every sequence of 1-3 keys "
        "(ints, negative ints, slices with None/negative bounds and steps) whose selections partition the independent axis, "
        "in every order, plus the requests that must be rejected, and checks the partition and slice laws (MC_MapFixed). "
        "Every history is executed for real (one map(fixed_indices=..., cleanup=False) per part, the completely stored "
        "elements observed after each part, then a full run) and validated by TLC against MapRun (TraceMapRun): each part "
        "calls precisely its selection, nothing twice, stored = what the model says (PartExact), the final run makes no "
        "call and returns/reloads the whole denotation; invalid requests are rejected before any call.",
   note="create_learners (plain and split_independent_axes) is driven element by element through the SequenceLearner functions "
        "(MapRun.LearnersDone); adaptive runners / SLURM are not used. The partial-run histories also go through real thread "
        "and process pools on every storage. Axis size 3; stored observed independently of pipefunc.",
   technique="TLA+ selection semantics + run history model; TLC-enumerated partitions replayed; TLC trace validation"),
 "C13": dict(
   category="model_checking", design_ref="6 C13",
   text="Map side: MC_MapRun with one designated failing invocation; TLC explores every interleaving (which siblings have "
        "finished when the failure is observed), checks NoLaterGeneration and, under weak fairness, the liveness property "
        "Terminates, and prints the behaviours as schedule scripts; the controllable executor realises them on every storage "
        "via map and map_async, a sequential run and real thread/process pools are added, five exception types (builtin "
        "with/without args, custom picklable, custom with __reduce__ state); TLC validates each recorded run (TraceMapRun: "
        "same class and args at the caller, note naming the failing function and kwargs, nothing of a later generation, "
        "earlier-generation results of file storage still loadable = denotation); ErrorSnapshot.reproduce() before and after "
        "save/load must raise the same exception. Call side: random DAGs with one failing function, TracePipelineFail.tla.",
   note="Liveness in the code is a 600 s watchdog; in the model a TLC liveness check. Loadability after a failure is only "
        "claimed for file storage (memory storages persist at the end of a run by design)."
        " Also: two failures on one pipeline object (call and map side; kwargs-dependent exception args; one shared exception instance); the ErrorSnapshot observation is part of the raise event judged by TLC."
        " Every fifth call-failure history runs on a pipeline restored from a pickle or deep-copied.",
   technique="TLC-enumerated failure schedules replayed via controllable executor; TLC trace validation; TLC liveness check"),
 "C17": dict(
   category="model_checking", design_ref="6 C17",
   text="Sweep.tla: Combos(items, dims, constants, derivers, exclude) as a sequence, LenOp, Product, Concat, Filtered, Count "
        "with the laws (each combination of the Cartesian product of the zipped groups exactly once, row-major order where "
        "the property fixes it, LenOp = Len(Combos), product = Cartesian product of the lists, + = concatenation, filtered = "
        "distinct projections, count per root-argument tuple) checked by TLC over TLA+-defined universes (single sweeps, "
        "pairs, triples, filters, counts; sharded) and exported; every case is run through the real Sweep / MultiSweep / "
        "generate_sweep / filtered_sweep / count_sweep and compared (order where fixed, multiset otherwise).",
   note="Don't-cares: order with non-item-order dims, Sweep({}) as a product operand, constants never override item keys, "
        "mismatched zips only checked to raise. Known findings F21 (product loses a later operand's zip), F71 (filtered_sweep "
        "keeps duplicates for repeated values)."
        " Also: sum expressions of any nesting (+, combine, MultiSweep(...): LawSumExpr) and object histories of sums (LawHistory: no existing object changes)."
        " Also: LawAddDerivers and object histories with products / add_derivers (LawObjHistory).",
   technique="TLA+ sweep algebra checked by TLC; exhaustive universe export compared against the sweep API"),
 "C19": dict(
   category="model_checking", design_ref="6 C19",
   text="XarrayLabels.tla (on top of MapDenote): Dims(o) = MapSpec output axes, which root inputs are carried un-reduced onto "
        "which axes tuple, MultiIndex grouping of inputs sharing an axes tuple, generator outputs as inputs under "
        "load_intermediate, variables without MapSpec, values = MapDenote, and the selection law (selecting by a coordinate "
        "value yields the elements whose term contains that input atom). TLC checks the laws over the MC_MapDenote universe "
        "restricted to rank<=2 inputs and exports, per case and per view (all outputs | single output x load_intermediate "
        "on/off), dims, candidate and acceptable coordinate sets and selections; the real map is run, "
        "xarray_dataset_from_results and load_xarray_dataset are projected and compared with the export and with each other "
        "(identical), selections are executed. Seeded random pipelines go through the same model.",
   note="xarray's own semantics (merge, sel) are trusted. Don't-cares: per-variable vs per-axis index naming after the merge, "
        "arrays produced by functions without MapSpec, tuple-valued coordinates selected by value."
        " Also: axes fed by several sources in every order (LawSources, LawSourceOrder)."
        " Names are opaque: scoped / dotted names under five kinds of renaming (LawRenamedAnalysis, LawRenamedCoords).",
   technique="TLA+ labelling model checked by TLC; universe export compared against real xarray datasets"),
 "C11": dict(
   category="model_checking", design_ref="6 C11",
   text="SubPipeline.tla: Computable(d, S, I) and NeededSet(d, S, I) (backward closure from S stopping at I, via "
        "PipelineStatic!NeededFor) with laws (least dependency-closed set, cut-off, Computable <=> denotation defined, "
        "substitution); TLC checks them over the MC_PipelineCall universe (plus nullary / all-defaults / all-bound options), "
        "all non-empty S and all cuts I, explores the run rule with deadlock checking, and exports (desc, S, I, computable, "
        "needed); each case runs through subpipeline().map, map(output_names=S) and map(auto_subpipeline=True); TLC "
        "validates the recorded MapRun events (exactly the needed functions ran, values = denotation with I substituted, "
        "non-computable requests rejected naming a missing name). Random DAGs and mapped pipelines with supplied array "
        "intermediates go through the same routes.",
   note="Don't-cares: provided names no needed function reads (tests pin 'Got extra inputs'), a provided output of a tuple "
        "producer whose sibling is still needed, rejections with both surplus and missing names."
        " Also: selection histories on one pipeline object (update_defaults on a member / drop between requests) and the map_async route.",
   technique="TLA+ needed-set semantics checked by TLC; universe export; TLC trace validation of restricted runs"),
 "C12": dict(
   category="model_checking", design_ref="6 C12",
   text="Validity.tla: Valid as a conjunction of twelve named clauses and a Prepare state machine ordered as prepare_run / "
        "RunInfo.create with an abstract disk; invariants RejectIsPure, NoCodeBeforeAccept, OnlyReject, ValidAccepted; TLC "
        "exhibits the impure ordering (storage name checked after DumpRunInfo) for the as-written switch and passes for the "
        "repaired one; 11 single-fault mutation operators are applied in TLA+ to the valid cases of the C01/C02 universes "
        "(mutants that stay valid are discarded and counted) and exported; every mutant is constructed / run for real against "
        "a byte-for-byte snapshot of a prepared run folder: rejected iff not Valid, no user call, folder unchanged. Twelve "
        "pytest.raises examples of the repository calibrate the clauses; random larger mutants are judged by TLC trace "
        "validation.",
   note="Exception class is not compared (the property says 'raises'); a different pipeline continuing a folder may be refused."
        " Also: call-style entries (call/run/func) for any requested output (ConstructionVerdictIsEntryBlind), ill-formed call mutants, cyclic examples."
        " Also: mutants on the sibling output of tuple producers (LawAxesByRole) and ordered default pairs incl. None / 0 (LawDefaultsSymmetric)."
        " Zips over three and four arrays with any one out of step (LawZipIsAboutAllArrays) and MapSpecs derived by NestedPipeFunc / add_mapspec_axis (LawNestKeepsAxesVerdict, LawAddAxisKeepsConsistency) are part of the mutant universe.",
   technique="TLA+ validity clauses + prepare state machine checked by TLC; mutant universe export compared against the code"),
 "C07": dict(
   category="model_checking", design_ref="6 C07",
   text="Storage.tla: a masked n-d object array with external/internal axes: NormalizeKey, Dump, GetItem (ints, negatives, "
        "slices over the interleaved shape), ToArray, Mask, MaskLinear (row-major over the external shape), HasIndex, "
        "GetFromIndex, PersistReopen, and SliceIndices transcribing CPython (checked against range(*slice.indices(n)) on "
        "9604 cases, mismatch = exit 2); TLC checks eleven laws over every geometry of rank<=3 with distinct sizes and every "
        "dump/reopen sequence to a depth, and exports op sequences; each is replayed on FileArray, DictArray, "
        "SharedMemoryDictArray (and any registered class) with all observers logged after every mutator; TLC validates the "
        "histories (TraceStorage.tla). Random longer histories on larger shapes are added; a NumPy masked reference "
        "cross-checks the spec (disagreement = exit 2); backends are compared directly too.",
   note="Every one of the 2^rank masks is in the universe (also arrays without external axes). Don't-cares: linear indices out of range, exception class of get_from_index on "
        "unwritten, MaskedArray vs masked constants, non-tuple keys / step 0.",
   technique="TLA+ masked-array model checked by TLC; exported op sequences replayed on every backend; TLC trace validation"),
 "C09": dict(
   category="model_checking", design_ref="6 C09",
   text="PipelineCache.tla, two layers. (A) the ideal rule for trace validation: a history of calls and mutations "
        "(update_defaults / update_bound / replace) on one pipeline whose description is a variable; every call that succeeds "
        "without caching must return Eval(d_now, kw, out); a cached function may be skipped only if its current output term "
        "was produced before; an exactly repeated call must not re-execute a cached function whose documented key is observed "
        "resident. (B) an implementation-shaped model of the key scheme with a switch as-is | repaired and invariant Coherent: "
        "TLC exhibits the stale-value families for the as-is scheme and passes for the repaired one, and exports witness "
        "histories. Twin pipelines (cached / uncached) over simple/lru/hybrid/disk caches and every cached subset are driven "
        "through TLC-exported and seeded random histories; TLC validates the cached twin's events (TracePipelineCache.tla).",
   note="Map side: MapRun.tla models cache hits (Hits/Memo/Avail: an invocation may be answered from the cache iff an equal-"
        "kwargs invocation of the same function completed before, in this or an earlier run with the same cache); pipelines "
        "with simple/lru/hybrid/disk caches are mapped twice over inputs with repeated values, sequentially and through a "
        "thread pool with a shared cache, and TLC validates the histories (TraceMapRun); functions whose result depends on "
        "callable map-scoped resources are run with different inputs sharing element values (MapRun.BeginWith: the evaluated "
        "resources belong to the key), and map -> Pipeline.replace -> map histories (MapRun.Replace) for every cache-flag "
        "combination. Not covered: the check-then-get idiom of _get_or_set_cache under eviction (design finding F25, CacheConc "
        "NoNoneServed). Eviction is not modelled; it only limits when the no-re-execution obligation applies.",
   technique="TLA+ cache-coherence model checked by TLC; twin-pipeline histories validated by TLC"),
 "C18": dict(
   category="model_checking", design_ref="6 C18",
   text="PipelineLazy.tla (on PipelineCall): Build (nothing runs), Evaluate (each needed function exactly once in any "
        "dependency-respecting order), ReEvaluate (no call), several handles inside one construct_dag() block, and "
        "TaskGraphOK (picker nodes contracted: acyclic, one node per needed function, edge set = producer->consumer "
        "dependencies); invariants NothingBeforeEvaluate, AtMostOncePerNode, ExactlyOnceNeeded, ValueIsEval, GraphIsOK; TLC "
        "explores the behaviours over the MC_PipelineCall universe with deadlock checking and requires TaskGraphOK to reject "
        "every single edge/node mutation of the reference graph. Every description x output x cut x listing order is built "
        "with lazy=True, with and without construct_dag, next to an eager twin; TLC validates the recorded histories "
        "(TracePipelineLazy.tla); random DAGs are added.",
   note="Interleaved evaluation of several live handles and lazy + user caches are not driven."
        " Also: failing functions (fault plans), construct_dag blocks left by exceptions (BlockLeft), pipeline-owned caches inside a block (OwnCacheInBlock)."
        " Lazy pipelines are also obtained by join / | / copy of lazy and eager parts (PipelineIsLazy, InvLazyExactlyWhenAssembledLazy).",
   technique="TLA+ lazy-evaluation state machine checked by TLC; universe export; TLC trace validation"),
 "C10": dict(
   category="model_checking", design_ref="6 C10",
   text="Rewrites.tla: an object store objs[id] = [sem (semantic description), ren (current spelling of every name), outs, "
        "merged, heads] with actions Copy, PickleRoundTrip, Join, UpdateRenames, UpdateScope / RemoveScope, NestFuncs, "
        "Simplified, SplitDisconnected, AddMapspecAxis and in-place mutations; EvalObs(id, out, inputs, mode) = Eval / "
        "MapDenote of sem through ren; the action property NoAliasing (an action on a changes no other object) and the "
        "RewritePreserves laws (renaming commutes with Eval, scope removal inverts addition, split components and join "
        "operands keep their values, AddAxis lifts pointwise) are checked by TLC over compositions of rewrites on small "
        "descriptions. Random DAGs (call style and mapped) x random rewrite sequences are executed for real; after every "
        "step all live objects are evaluated on all retained outputs (dotted-key and nested-dict conventions, call and map) "
        "and probed through a throw-away copy; TLC validates the event histories (TraceRewrites.tla). Refusing a rewrite "
        "that is defined for the pipeline is a violation.",
   note="Which functions simplify/nest merge is not modelled, only that retained outputs denote the same values. Legitimate "
        "refusals are stated in the spec. conservatively_combine, function-level update_renames, lazy pipelines and "
        "resources attributes are not driven."
        " Also: update_renames(overwrite=True) (Rewrites.OverwriteRenames) and directed defaults-alias / overwrite histories.",
   technique="TLA+ rewrite-store model checked by TLC; rewrite histories on real pipelines validated by TLC"),
}
NOT_YET = "check not built yet in this round (specification module planned in DESIGN.md section 6)"

def main():
    hooks_commits = []
    checks = []
    for pid in ALL:
        if pid not in CLAIMED:
            continue
        c = CLAIMED[pid]
        checks.append({
            "property_id": pid,
            "quick_cmd": f"./check {pid} --tier quick",
            "thorough_cmd": f"./check {pid} --tier thorough",
            "evidence_file": f"/verif/evidence/{pid}.json",
            "replay_cmd_template": f"./check {pid} --replay {{path}}",
            "engine": "tlc+pfverif",
            "level_claimed": {"category": c["category"], "text": c["text"], "design_ref": c["design_ref"]},
            "level_note": c["note"],
            "technique": c["technique"],
        })
    man = {
        "version": 1,
        "setup_cmd": "./setup.sh",
        "hooks": {
            "guard": "PIPEFUNC_VERIF",
            "enable": "no source hooks: the harness observes pipefunc through its public API (logging user functions, "
                      "executor=/storage= arguments, file-system interposition in harness child processes); "
                      "./check exports PIPEFUNC_VERIF=1 for uniformity",
            "baseline_off_cmd": "cd /repo && /venv/bin/python -m pytest -ra -q -p no:cacheprovider --timeout=900 "
                                "--continue-on-collection-errors",
            "source_commits": hooks_commits,
            "add_only": True,
        },
        "engines": [{"name": "tlc+pfverif", "path": "/verif/check",
                     "serves_properties": sorted(CLAIMED),
                     "kind_free_text": "TLA+ specifications in /verif/spec checked by TLC 1.8; Python harness "
                                       "(/verif/harness/pfverif) replays TLC-generated cases into pipefunc and feeds "
                                       "recorded traces back to TLC trace specifications"}],
        "checks": checks,
        "notes": "See DESIGN.md. Exit 0 = held (KNOWN-FINDING lines possible), 1 = VIOLATION, 2 = machinery failure.",
        "not_applicable": [{"property_id": p, "reason": NOT_YET} for p in ALL if p not in CLAIMED],
    }
    (ROOT / "MANIFEST.json").write_text(json.dumps(man, indent=1) + "\n")
    import jsonschema
    jsonschema.validate(man, json.load(open("/root/.vp/MANIFEST.schema.json")))
    print("MANIFEST.json written:", len(checks), "checks")

main()
