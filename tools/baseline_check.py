#!/usr/bin/env python3
"""Compare a junit xml of the repository's suite (guard off) with /root/.vp/BASELINE.json: every stable test must pass."""
import json, sys, xml.etree.ElementTree as ET
base = json.load(open("/root/.vp/BASELINE.json"))
stable = set(base["stable_pass"])
passed = set()
for tc in ET.parse(sys.argv[1]).getroot().iter("testcase"):
    ok = not any(ch.tag in ("failure", "error", "skipped") for ch in tc)
    if ok:
        passed.add(f"{tc.get('classname')}::{tc.get('name')}")
missing = sorted(stable - passed)
print(f"stable baseline tests: {len(stable)}, passing now: {len(stable & passed)}, missing: {len(missing)}")
for m in missing[:20]:
    print("  MISSING", m)
sys.exit(1 if missing else 0)
