#!/usr/bin/env python3
"""Regenerate the seeded-changes table inside DESIGN.md (between the seeded-table markers) from seeded/*/meta.json + result.json."""
import re, subprocess
from pathlib import Path
root = Path(__file__).resolve().parent.parent
table = subprocess.run(["python3", str(root / "tools/seeded_table.py")], capture_output=True, text=True, check=True).stdout
p = root / "DESIGN.md"
s = p.read_text()
b, e = "<!-- seeded-table-begin -->", "<!-- seeded-table-end -->"
assert b in s and e in s
s = s[: s.index(b) + len(b)] + "\n" + table + s[s.index(e):]
p.write_text(s)
print("table rows:", table.count("\n") - 2)
