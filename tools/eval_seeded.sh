#!/bin/bash
# tools/eval_seeded.sh [ids...]  -- confirm each seeded change and run its check(s); writes seeded/<id>/result.json
cd "$(dirname "$0")/.."
ids=${@:-$(ls seeded)}
for id in $ids; do
  d=seeded/$id; [ -f $d/patch.diff ] || continue
  tests=$(python3 -c "import json;print(json.load(open('$d/meta.json'))['tests'])")
  checks=$(python3 -c "import json;print(' '.join(json.load(open('$d/meta.json'))['checks']))")
  conf=$(tools/confirm_seeded.sh $d "$tests" 2>&1 | tail -3)
  res=""
  for c in $checks; do
    out=$(tools/run_seeded.sh $d $c quick 2>&1); rc=$(echo "$out" | grep -o "exit: [0-9]*" | tail -1 | cut -d' ' -f2)
    sig=$(echo "$out" | grep -m1 "sig:" | cut -c1-300)
    res="$res{\"check\":\"$c\",\"tier\":\"quick\",\"exit\":${rc:-2},\"first_signature\":$(python3 -c "import json,sys;print(json.dumps(sys.argv[1]))" "$sig")},"
  done
  python3 - "$d" "$conf" "[${res%,}]" <<'PY'
import json,sys
d,conf,res=sys.argv[1:4]
r={"confirmation":conf.splitlines(),"runs":json.loads(res)}
r["detected"]=any(x["exit"]==1 for x in r["runs"])
json.dump(r,open(d+"/result.json","w"),indent=1)
print(d, "detected" if r["detected"] else "MISSED", [ (x["check"],x["exit"]) for x in r["runs"]])
PY
done
