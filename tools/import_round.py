#!/usr/bin/env python3
"""tools/import_round.py <srcdir> <prefix>  -- copy seeded changes <srcdir>/<Cxx_N> to seeded/<prefix>_<Cxx_N> (skips existing)."""
import json, re, shutil, sys
from pathlib import Path
SRC, PREFIX = Path(sys.argv[1]), sys.argv[2]
ONLY = set(sys.argv[3:])          # optional: property ids to import (agents of other properties may still be writing)
DST = Path("/verif/seeded")
exec(re.search(r"TESTS = \{.*?\}\n", Path("/verif/tools/import_seeded.py").read_text(), re.S).group(0))
for d in sorted(SRC.iterdir()):
    if not (d / "patch.diff").exists() or not (d / "demo.py").exists():
        continue
    prop = d.name.split("_")[0]
    if ONLY and prop not in ONLY:
        continue
    sid = f"{PREFIX}_{d.name}"
    out = DST / sid
    if (out / "meta.json").exists():
        continue
    out.mkdir(exist_ok=True)
    for f in ("patch.diff", "demo.py", "notes.md"):
        if (d / f).exists():
            shutil.copy(d / f, out / f)
    notes = (d / "notes.md").read_text() if (d / "notes.md").exists() else ""
    meta = {"id": sid, "breaks_property": prop, "needs_to_manifest": " ".join(notes.split("\n\n")[1:3]).replace("\n", " ")[:900],
            "checks": [prop], "tests": TESTS[prop],
            "origin": f"round {PREFIX[1:]}: independent sub-agent given only the property text and a scratch worktree"}
    (out / "meta.json").write_text(json.dumps(meta, indent=1))
    print("imported", sid)
