#!/usr/bin/env python3
"""Copy confirmed seeded changes from /tmp/seeded_out/<id> into /verif/seeded/<id> with a meta.json skeleton."""
import json, shutil, sys
from pathlib import Path
SRC = Path("/tmp/seeded_out"); DST = Path("/verif/seeded")
DETECT = {"C01_3": ["C03"], "C06_3": ["C05"]}
TESTS = {"C01": "tests/map/test_map.py tests/test_pipeline_mapspec.py", "C02": "tests/test_pipeline.py tests/test_pipefunc.py tests/test_pipeline_update.py",
         "C03": "tests/map/test_map.py tests/map/storage/test_file.py", "C04": "tests/map/test_map.py tests/map/storage/test_file.py tests/test_utils.py",
         "C05": "tests/map/test_map.py tests/map/storage/test_file.py tests/test_utils.py", "C06": "tests/map/test_map.py tests/map/test_adaptive.py",
         "C07": "tests/map/storage/test_file.py tests/map/test_map.py", "C08": "tests/map/test_mapspec.py tests/test_pipeline_mapspec.py",
         "C09": "tests/test_pipeline_cache.py tests/test_pipeline.py tests/test_cache.py", "C10": "tests/test_pipeline.py tests/test_simplify.py tests/test_pipefunc.py tests/test_pipeline_update.py",
         "C11": "tests/test_pipeline.py tests/map/test_map.py", "C12": "tests/test_pipeline.py tests/map/test_map.py tests/test_pipeline_mapspec.py",
         "C13": "tests/test_pipeline.py tests/test_pipefunc.py tests/map/test_map.py tests/test_utils.py", "C14": "tests/test_cache.py tests/test_cache_memoize.py tests/test_pipeline_cache.py",
         "C15": "tests/test_cache_to_hashable.py tests/test_cache_memoize.py tests/test_cache.py", "C16": "tests/test_typing.py tests/test_pipeline_annotations.py tests/test_pipefunc_annotations.py",
         "C17": "tests/test_sweep.py", "C18": "tests/test_lazy.py tests/test_pipeline_lazy.py", "C19": "tests/map/test_xarray.py tests/map/test_mapspec.py",
         "C20": "tests/test_resources.py tests/test_pipeline_resources.py"}
for d in sorted(SRC.iterdir()):
    if not (d / "patch.diff").exists():
        continue
    sid = d.name; prop = sid.split("_")[0]
    out = DST / sid; out.mkdir(parents=True, exist_ok=True)
    for f in ("patch.diff", "demo.py", "notes.md"):
        if (d / f).exists():
            shutil.copy(d / f, out / f)
    meta_p = out / "meta.json"
    meta = json.loads(meta_p.read_text()) if meta_p.exists() else {}
    notes = (d / "notes.md").read_text() if (d / "notes.md").exists() else ""
    meta.setdefault("id", sid); meta.setdefault("breaks_property", prop)
    meta.setdefault("needs_to_manifest", " ".join(notes.split("\n\n")[1:3]).replace("\n", " ")[:900] if notes else "")
    meta.setdefault("checks", DETECT.get(sid, [prop])); meta.setdefault("tests", TESTS.get(prop, ""))
    meta.setdefault("origin", "independent sub-agent given only the property text and a scratch worktree")
    meta_p.write_text(json.dumps(meta, indent=1))
    print("imported", sid)
