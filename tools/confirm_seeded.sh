#!/bin/bash
# tools/confirm_seeded.sh <dir with patch.diff demo.py> "<pytest files>"  -- confirm a seeded change independently:
# demo exits 0 without / 1 with the change; the given repository tests give the same outcome set with and without it.
set -u
dir=$(cd "$1" && pwd); tests=$2
wt=$(mktemp -d /tmp/pfverif_conf.XXXXXX); rmdir "$wt"
git -C /repo worktree add -q --detach "$wt" HEAD || exit 2
trap 'git -C /repo worktree remove --force "$wt" >/dev/null 2>&1' EXIT
run_demo() { (cd "$wt" && PYTHONPATH=/verif/harness/shim:"$wt" timeout 600 /venv/bin/python "$dir/demo.py" >/dev/null 2>&1); echo $?; }
run_tests() { (cd "$wt" && PYTHONPATH=/verif/harness/shim:"$wt" /venv/bin/python -m pytest -q -p no:cacheprovider -p no:zarr --no-cov -x -q $tests 2>&1 | grep -E "passed|failed" | tail -1); }
run_tests_full() { (cd "$wt" && PYTHONPATH=/verif/harness/shim:"$wt" /venv/bin/python -m pytest -q -p no:cacheprovider -p no:zarr --no-cov -q -rf $tests 2>&1 | grep -E "^FAILED|^ERROR|passed|failed" | sed -e 's/ - .*//' -e 's/ in [0-9.]*s.*//' -e 's/, [0-9]* warnings//' | sort); }
d0=$(run_demo); t0=$(run_tests_full)
git -C "$wt" apply "$dir/patch.diff" 2>/dev/null || git -C "$wt" apply --3way "$dir/patch.diff" 2>/dev/null || { echo "PATCH DOES NOT APPLY"; exit 2; }
d1=$(run_demo); t1=$(run_tests_full)
echo "demo without=$d0 with=$d1"
if [ "$t0" == "$t1" ]; then echo "tests: identical outcome with and without ($(echo "$t0" | tail -1))"; else echo "tests DIFFER:"; diff <(echo "$t0") <(echo "$t1") | head; fi
