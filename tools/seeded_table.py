#!/usr/bin/env python3
"""Print the markdown table of seeded changes (seeded/*/meta.json + result.json) for DESIGN.md."""
import json
from pathlib import Path
rows = []
for d in sorted(Path("/verif/seeded").iterdir()):
    if not (d / "meta.json").exists():
        continue
    m = json.loads((d / "meta.json").read_text())
    r = json.loads((d / "result.json").read_text()) if (d / "result.json").exists() else {"runs": [], "detected": None}
    files = sorted({ln.split(" b/")[-1].strip() for ln in (d / "patch.diff").read_text().splitlines() if ln.startswith("diff --git")})
    det = ", ".join(f"{x['check']} {x['tier']} (exit {x['exit']})" for x in r["runs"])
    need = m.get("summary") or m["needs_to_manifest"][:170].replace("|", "/")
    rows.append(f"| {m['id']} | {m['breaks_property']} | {', '.join(f.replace('pipefunc/', '') for f in files)} | {need} | {det} | {'yes' if r['detected'] else 'NO' if r['detected'] is False else '?'} |")
print("| id | property | file(s) | what it needs to manifest | checks run | detected |")
print("|---|---|---|---|---|---|")
print("\n".join(rows))
