#!/bin/bash
# tools/run_all.sh [tier]  -- run every registered check once, one summary line each
cd "$(dirname "$0")/.."
tier=${1:-quick}
for p in $(python3 -c "import json;print(' '.join(c['property_id'] for c in json.load(open('MANIFEST.json'))['checks']))"); do
  out=$(./check $p --tier $tier 2>&1); rc=$?
  echo "$p rc=$rc $(echo "$out" | tail -1 | cut -c1-160)"
  [ $rc != 0 ] && echo "$out" | grep -m3 -A2 "^VIOLATION\|^MACHINERY" | cut -c1-300
done
