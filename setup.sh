#!/bin/bash
# Offline setup: verify the tools, parse every TLA+ module with SANY, byte-compile the harness.
set -e
cd "$(dirname "$0")"
command -v java >/dev/null
test -f /opt/veriftools/tla/tla2tools.jar
/venv/bin/python -c "import hypothesis, jsonschema, numpy, networkx, cloudpickle"
mkdir -p evidence replay
tmp=$(mktemp -d /tmp/pfverif_setup.XXXXXX)
cp spec/*.tla "$tmp"/
fail=0
for f in "$tmp"/*.tla; do
  out=$(cd "$tmp" && java -cp /opt/veriftools/tla/tla2tools.jar:/opt/veriftools/tla/CommunityModules-deps.jar tla2sany.SANY "$(basename "$f")" 2>&1) || { echo "$out" | tail -20; fail=1; }
  if echo "$out" | grep -q -e "Parse Error" -e "Semantic errors" -e "Fatal errors"; then echo "SANY: $f"; echo "$out" | tail -20; fail=1; fi
done
rm -rf "$tmp"
/venv/bin/python -m compileall -q harness/pfverif >/dev/null
PYTHONPATH=harness/shim:harness:/repo /venv/bin/python -c "import pfverif.bootstrap"
[ $fail = 0 ] && echo "setup ok"
exit $fail
